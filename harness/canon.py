"""T-layer, step 0: canonical form of a Python function, used to recognise *harmless* edits.

The fragment extractors (fragments.py / kernels.py) look at the source the way it is written at the
pinned commit: named temporaries, statement order, `if`/`else` returns.  A behaviour-preserving edit
(renaming a local, splitting an expression into named steps or merging them again, turning
`if c: return a` / `return b` into a conditional expression, pulling a one-line expression into a
module-level helper) used to make an extractor fail, and a failed extractor breaks the tie of every
property that uses the fragment.

`normalise(relpath, current_module)` compares every function of the working tree with the function of
the same qualified name in the *baseline source* (harness/src_baseline/, a copy of the sources the
baseline fragments were generated from).  Both are brought to a canonical form:

  * temporaries -- locals that are only ever bound by plain `name = expr` statements of one block, and
    only read inside that block -- are substituted into their uses (SSA-style: a re-binding is a new
    version), so their names, their number and the way an expression is cut into steps do not matter;
  * all other locals are renamed in order of first appearance;
  * `if c: x = a` / `else: x = b`  ->  `x = a if c else b`;  `if c: return a` (else) `return b`
    ->  `return a if c else b`;  `np.newaxis` -> `None`;
  * a call of a same-module function whose canonical body is a single `return <expr>` is replaced by
    that expression (helper extraction / inlining).

If the two canonical forms are *identical* the working-tree function is, statement for statement, the
same computation as the baseline function, and the baseline AST is handed to the extractors in its
place.  If they differ in any way nothing is assumed: the extractors see the working tree as it is.

What this relies on (recorded in the trusted base): the right-hand side of a plain `name = expr`
statement has no side effect on anything read later (a right-hand side with an `out=` argument or a
known mutating method is *not* treated as a temporary), so that moving its evaluation to the point
of use, up to the next statement that can have an effect, does not change behaviour.  Every statement
other than a plain assignment (calls, in-place operators, subscript stores, loops, branches, returns)
is a barrier: no temporary is moved across it.
"""
from __future__ import annotations

import ast
import copy
import os

HERE = os.path.dirname(os.path.abspath(__file__))
BASE_SRC = os.path.join(HERE, "src_baseline")

MUTATORS = {"sort", "fill", "append", "extend", "pop", "update", "setdefault", "resize", "put", "itemset",
            "remove", "insert", "clear", "add", "discard", "partition", "setflags", "shuffle", "popitem"}


class NoCanon(Exception):
    pass


# ------------------------------------------------------------------------------------------------
# pre-pass: local rewrites that do not change meaning
# ------------------------------------------------------------------------------------------------

def _strip_doc(body):
    if body and isinstance(body[0], ast.Expr) and isinstance(body[0].value, ast.Constant) \
            and isinstance(body[0].value.value, str):
        return body[1:]
    return body


REDUCTIONS = {"min", "max", "sum", "mean", "amin", "amax", "all", "any", "prod", "std", "var", "nanmin", "nanmax", "nansum"}
SEQ_TAKERS = {"array", "asarray", "stack", "hstack", "vstack", "concatenate", "column_stack", "dstack"}


class _Pre(ast.NodeTransformer):
    """spellings of the same thing"""

    def visit_Attribute(self, node):
        self.generic_visit(node)
        if node.attr == "newaxis" and isinstance(node.value, ast.Name) and node.value.id in ("np", "numpy"):
            return ast.Constant(value=None)
        return node

    def visit_UnaryOp(self, node):
        self.generic_visit(node)
        if isinstance(node.op, ast.Not) and isinstance(node.operand, ast.Compare) and len(node.operand.ops) == 1:
            flip = {ast.Is: ast.IsNot, ast.IsNot: ast.Is, ast.In: ast.NotIn, ast.NotIn: ast.In}.get(type(node.operand.ops[0]))
            if flip:
                return ast.Compare(left=node.operand.left, ops=[flip()], comparators=node.operand.comparators)
        return node

    @staticmethod
    def _unstar(elts):
        out = []
        for e in elts:
            if isinstance(e, ast.Starred) and isinstance(e.value, (ast.Tuple, ast.List)):
                out += _Pre._unstar(e.value.elts)          # (a, *(b, c)) is (a, b, c)
            else:
                out.append(e)
        return out

    def visit_Tuple(self, node):
        self.generic_visit(node)
        if isinstance(node.ctx, ast.Load):
            node.elts = self._unstar(node.elts)
        return node

    def visit_List(self, node):
        self.generic_visit(node)
        if isinstance(node.ctx, ast.Load):
            node.elts = self._unstar(node.elts)
        return node

    def visit_Compare(self, node):
        self.generic_visit(node)
        items = [node.left] + list(node.comparators)
        parts = []
        for op, l, r in zip(node.ops, items, items[1:]):
            if isinstance(op, ast.Gt):
                op, l, r = ast.Lt(), r, l          # a > b  is  b < a
            elif isinstance(op, ast.GtE):
                op, l, r = ast.LtE(), r, l
            parts.append(ast.Compare(left=copy.deepcopy(l), ops=[op], comparators=[copy.deepcopy(r)]))
        if len(parts) == 1:
            return parts[0]
        return self.visit_BoolOp(ast.BoolOp(op=ast.And(), values=parts), descend=False)     # a <= b < c  is  a <= b and b < c

    def visit_BoolOp(self, node, descend=True):
        if descend:
            self.generic_visit(node)
        vals = []
        for v in node.values:
            if isinstance(v, ast.BoolOp) and type(v.op) is type(node.op):
                vals += v.values
            else:
                vals.append(v)
        node.values = vals
        return node

    def visit_IfExp(self, node):
        self.generic_visit(node)
        node.test, node.body, node.orelse = _un_not(node.test, node.body, node.orelse)
        return node

    def visit_Slice(self, node):
        self.generic_visit(node)
        if isinstance(node.lower, ast.Constant) and node.lower.value == 0 and type(node.lower.value) is int \
                and (node.step is None or (isinstance(node.step, ast.Constant) and node.step.value == 1)):
            node.lower = None            # x[0:n] is x[:n]
        if isinstance(node.step, ast.Constant) and node.step.value == 1:
            node.step = None
        return node

    def visit_JoinedStr(self, node):
        self.generic_visit(node)
        vals = []
        for v in node.values:
            if isinstance(v, ast.FormattedValue) and isinstance(v.value, ast.Constant) and isinstance(v.value.value, str) \
                    and v.conversion == -1 and v.format_spec is None:
                v = ast.Constant(value=v.value.value)
            if isinstance(v, ast.Constant) and vals and isinstance(vals[-1], ast.Constant):
                vals[-1] = ast.Constant(value=vals[-1].value + v.value)
            else:
                vals.append(v)
        node.values = vals
        return node

    def visit_Call(self, node):
        self.generic_visit(node)
        node.args = self._unstar(node.args)
        f = node.func
        kws = []
        for k in node.keywords:          # f(**dict(a=1)) is f(a=1)
            if k.arg is None and isinstance(k.value, ast.Call) and isinstance(k.value.func, ast.Name) and k.value.func.id == "dict" \
                    and not k.value.args and all(kk.arg is not None for kk in k.value.keywords):
                kws += k.value.keywords
            elif k.arg is None and isinstance(k.value, ast.Dict) and all(isinstance(kk, ast.Constant) and isinstance(kk.value, str)
                                                                         for kk in k.value.keys):
                kws += [ast.keyword(arg=kk.value, value=vv) for kk, vv in zip(k.value.keys, k.value.values)]
            else:
                kws.append(k)
        if all(k.arg is not None for k in kws) and len({k.arg for k in kws}) == len(kws):
            kws.sort(key=lambda k: k.arg)      # keyword arguments: order of writing is order of (pure) evaluation only
        node.keywords = kws
        if isinstance(f, ast.Attribute):
            if f.attr in REDUCTIONS:
                for k in node.keywords:       # the order of the axes of a reduction does not matter
                    if k.arg == "axis" and isinstance(k.value, ast.Tuple) \
                            and all(isinstance(e, ast.Constant) or (isinstance(e, ast.UnaryOp) and isinstance(e.operand, ast.Constant))
                                    for e in k.value.elts):
                        k.value.elts = sorted(k.value.elts, key=lambda e: ast.literal_eval(ast.unparse(e)))
            if f.attr in SEQ_TAKERS and isinstance(f.value, ast.Name) and f.value.id in ("np", "numpy", "xp") \
                    and node.args and isinstance(node.args[0], ast.Tuple):
                node.args[0] = ast.List(elts=node.args[0].elts, ctx=ast.Load())     # np.array((a, b)) is np.array([a, b])
        return node


def _single_name_assign(stmts):
    if len(stmts) == 1 and isinstance(stmts[0], ast.Assign) and len(stmts[0].targets) == 1 \
            and isinstance(stmts[0].targets[0], ast.Name):
        return stmts[0].targets[0].id, stmts[0].value
    return None


def _terminates(stmts):
    return bool(stmts) and isinstance(stmts[-1], (ast.Return, ast.Raise, ast.Continue, ast.Break))


def _negate(test):
    if isinstance(test, ast.UnaryOp) and isinstance(test.op, ast.Not):
        return test.operand
    if isinstance(test, ast.Compare) and len(test.ops) == 1:
        flip = {ast.Is: ast.IsNot, ast.IsNot: ast.Is, ast.In: ast.NotIn, ast.NotIn: ast.In}.get(type(test.ops[0]))
        if flip:
            return ast.Compare(left=test.left, ops=[flip()], comparators=test.comparators)
    return ast.UnaryOp(op=ast.Not(), operand=test)


def _un_not(test, a, b):
    """(test, a, b) with a leading `not` removed by swapping the branches"""
    while isinstance(test, ast.UnaryOp) and isinstance(test.op, ast.Not):
        test, a, b = test.operand, b, a
    return test, a, b


def _pre_block(stmts, bound=frozenset()):
    """`bound`: names that are certainly bound when the block starts"""
    out = []
    stmts = list(stmts)
    bound = set(bound)
    i = 0
    while i < len(stmts):
        s = stmts[i]
        if isinstance(s, ast.AnnAssign) and s.value is not None and isinstance(s.target, ast.Name):
            s = ast.Assign(targets=[s.target], value=s.value)
        if isinstance(s, ast.Assign) and len(s.targets) == 1 and isinstance(s.targets[0], ast.Tuple) \
                and isinstance(s.value, ast.Tuple) and len(s.value.elts) == len(s.targets[0].elts) \
                and all(isinstance(t, ast.Name) for t in s.targets[0].elts):
            tn = {t.id for t in s.targets[0].elts}
            if len(tn) == len(s.targets[0].elts) and not any(isinstance(n, ast.Name) and n.id in tn for n in ast.walk(s.value)):
                # a, b = x, y  with no target among the values: two bindings
                stmts[i:i + 1] = [ast.Assign(targets=[t], value=v) for t, v in zip(s.targets[0].elts, s.value.elts)]
                continue
        if isinstance(s, ast.Assign) and len(s.targets) == 1 and isinstance(s.targets[0], ast.Name) and i + 1 < len(stmts) \
                and isinstance(stmts[i + 1], ast.Return) and isinstance(stmts[i + 1].value, ast.Name) \
                and stmts[i + 1].value.id == s.targets[0].id and _pure_rhs(s.value):
            stmts[i:i + 2] = [ast.Return(value=s.value)]          # x = e; return x
            continue
        if isinstance(s, ast.If) and i + 2 == len(stmts) and isinstance(stmts[i + 1], ast.Return) \
                and isinstance(stmts[i + 1].value, (ast.Name, ast.Constant, type(None))) \
                and not (len(s.body) == 1 and isinstance(s.body[0], ast.Return) and not s.orelse):
            # `if ..: ..  [else: ..]` followed by the final `return v`: the return belongs to every branch that gets there
            r = stmts.pop(i + 1)
            if not _terminates(s.body):
                s.body = s.body + [copy.deepcopy(r)]
            if not _terminates(s.orelse):
                s.orelse = s.orelse + [copy.deepcopy(r)]
        if isinstance(s, ast.If):
            s.body = _pre_block(s.body, bound)
            s.orelse = _pre_block(s.orelse, bound)
            s.test, s.body, s.orelse = _un_not(s.test, s.body, s.orelse)
            if not s.body:                       # `if not c: X` came out as `if c: <nothing> else: X`
                s.test, s.body, s.orelse = ast.UnaryOp(op=ast.Not(), operand=s.test), s.orelse, []
            # exactly the else-branch always leaves: it becomes the guard
            if s.orelse and _terminates(s.orelse) and not _terminates(s.body):
                s.test, s.body, s.orelse = _negate(s.test), s.orelse, s.body
            # a branch that always leaves: what follows it is the other branch
            if _terminates(s.body) and s.orelse:
                stmts[i + 1:i + 1] = s.orelse
                s.orelse = []
            # both alternatives leave: `if c: A` + B is `if not c: B` + A -- the shorter one goes into the `if`
            if _terminates(s.body) and not s.orelse and _terminates(stmts[i + 1:]):
                rest = _pre_block(stmts[i + 1:], bound)
                ka, kb = [ast.dump(ast.Module(body=x, type_ignores=[])) for x in (s.body, rest)]
                if (len(kb), kb) < (len(ka), ka):
                    s.test, s.body, rest = _negate(s.test), rest, s.body
                stmts[i + 1:] = rest
            a, b = _single_name_assign(s.body), _single_name_assign(s.orelse)
            if a and not s.orelse and a[0] in bound:
                b = (a[0], ast.Name(id=a[0], ctx=ast.Load()))      # `if c: x = a`  ==  `x = a if c else x` for a bound x
            if a and b and a[0] == b[0]:
                t, va, vb = _un_not(s.test, a[1], b[1])
                out.append(ast.Assign(targets=[ast.Name(id=a[0], ctx=ast.Store())], value=ast.IfExp(test=t, body=va, orelse=vb)))
                bound.add(a[0])
                i += 1
                continue
            ra = s.body[0].value if len(s.body) == 1 and isinstance(s.body[0], ast.Return) else None
            if ra is not None and not s.orelse and i + 1 < len(stmts) and isinstance(stmts[i + 1], ast.Return) \
                    and stmts[i + 1].value is not None:
                t, va, vb = _un_not(s.test, ra, stmts[i + 1].value)
                out.append(ast.Return(value=ast.IfExp(test=t, body=va, orelse=vb)))
                i += 2
                continue
            out.append(s)
        elif isinstance(s, (ast.For, ast.While)):
            s.body = _pre_block(s.body, bound)
            s.orelse = _pre_block(s.orelse, bound)
            out.append(s)
        elif isinstance(s, ast.With):
            s.body = _pre_block(s.body, bound)
            out.append(s)
        elif isinstance(s, ast.Try):
            s.body = _pre_block(s.body, bound)
            s.orelse = _pre_block(s.orelse, bound)
            s.finalbody = _pre_block(s.finalbody, bound)
            for h in s.handlers:
                h.body = _pre_block(h.body, bound)
            out.append(s)
        elif isinstance(s, ast.Pass):
            pass
        else:
            if isinstance(s, ast.Assign):
                for t in s.targets:
                    names = []
                    _target_names(t, names)
                    bound.update(names)
            out.append(s)
        i += 1
    return out


# ------------------------------------------------------------------------------------------------
# name analysis
# ------------------------------------------------------------------------------------------------

def _target_names(t, out):
    if isinstance(t, ast.Name):
        out.append(t.id)
    elif isinstance(t, (ast.Tuple, ast.List)):
        for e in t.elts:
            _target_names(e, out)
    elif isinstance(t, ast.Starred):
        _target_names(t.value, out)


class _Scan:
    """stores[name] = list of (kind, blockpath); loads[name] = list of blockpath.  blockpath = tuple of block ids."""

    def __init__(self):
        self.stores = {}
        self.loads = {}
        self.never = set()
        self.imported = set()
        self._next = 0

    def new_block(self, path):
        self._next += 1
        return path + (self._next,)

    def store(self, name, kind, path):
        self.stores.setdefault(name, []).append((kind, path))

    def expr(self, node, path):
        if node is None:
            return
        for n in ast.walk(node):
            if isinstance(n, ast.Name):
                if isinstance(n.ctx, ast.Load):
                    self.loads.setdefault(n.id, []).append(path)
                else:
                    self.store(n.id, "other", path)     # comprehension targets, walrus, del
            elif isinstance(n, ast.NamedExpr) and isinstance(n.target, ast.Name):
                self.never.add(n.target.id)
            elif isinstance(n, ast.arg):
                self.never.add(n.arg)                   # lambda arguments

    def block(self, stmts, path):
        for s in stmts:
            self.stmt(s, path)

    def stmt(self, s, path):
        if isinstance(s, ast.Assign):
            self.expr(s.value, path)
            if len(s.targets) == 1 and isinstance(s.targets[0], ast.Name):
                self.store(s.targets[0].id, "plain" if _pure_rhs(s.value) else "other", path)
            else:
                for t in s.targets:
                    names = []
                    _target_names(t, names)
                    for n in names:
                        self.store(n, "other", path)
                    for sub in ast.walk(t):
                        if isinstance(sub, ast.Name) and isinstance(sub.ctx, ast.Load):
                            self.loads.setdefault(sub.id, []).append(path)
        elif isinstance(s, ast.AugAssign):
            self.expr(s.value, path)
            if isinstance(s.target, ast.Name):
                self.store(s.target.id, "other", path)
                self.loads.setdefault(s.target.id, []).append(path)
            else:
                self._loads_only(s.target, path)
        elif isinstance(s, (ast.For, ast.AsyncFor)):
            self.expr(s.iter, path)
            names = []
            _target_names(s.target, names)
            for n in names:
                self.store(n, "other", path)
            if not names:
                self._loads_only(s.target, path)
            self.block(s.body, self.new_block(path))
            self.block(s.orelse, self.new_block(path))
        elif isinstance(s, ast.While):
            p = self.new_block(path)
            self.expr(s.test, p)        # evaluated on every iteration
            self.block(s.body, p)
            self.block(s.orelse, self.new_block(path))
        elif isinstance(s, ast.If):
            self.expr(s.test, path)
            self.block(s.body, self.new_block(path))
            self.block(s.orelse, self.new_block(path))
        elif isinstance(s, (ast.With, ast.AsyncWith)):
            for it in s.items:
                self.expr(it.context_expr, path)
                if it.optional_vars is not None:
                    names = []
                    _target_names(it.optional_vars, names)
                    for n in names:
                        self.store(n, "other", path)
            self.block(s.body, self.new_block(path))
        elif isinstance(s, ast.Try):
            self.block(s.body, self.new_block(path))
            for h in s.handlers:
                if h.name:
                    self.store(h.name, "other", path)
                self.expr(h.type, path)
                self.block(h.body, self.new_block(path))
            self.block(s.orelse, self.new_block(path))
            self.block(s.finalbody, self.new_block(path))
        elif isinstance(s, (ast.FunctionDef, ast.AsyncFunctionDef, ast.ClassDef)):
            self.store(s.name, "other", path)
            p = self.new_block(path)
            for n in ast.walk(s):
                if isinstance(n, ast.Name) and n is not s:
                    # conservative: every name mentioned in a nested definition stays a variable
                    self.never.add(n.id)
        elif isinstance(s, (ast.Global, ast.Nonlocal)):
            self.never.update(s.names)
        elif isinstance(s, (ast.Import, ast.ImportFrom)):
            for a in s.names:
                self.store((a.asname or a.name).split(".")[0], "other", path)
                self.imported.add((a.asname or a.name).split(".")[0])
        elif isinstance(s, ast.Delete):
            for t in s.targets:
                if isinstance(t, ast.Name):
                    self.never.add(t.id)
                else:
                    self._loads_only(t, path)
        else:
            for child in ast.iter_child_nodes(s):
                if isinstance(child, ast.expr):
                    self.expr(child, path)

    def _loads_only(self, node, path):
        for n in ast.walk(node):
            if isinstance(n, ast.Name):
                self.loads.setdefault(n.id, []).append(path)


def _const_index(n):
    if isinstance(n, ast.Constant):
        return n.value is None or n.value is Ellipsis or type(n.value) is int
    if isinstance(n, ast.UnaryOp) and isinstance(n.op, ast.USub):
        return _const_index(n.operand)
    if isinstance(n, ast.Slice):
        return all(p is None or _const_index(p) for p in (n.lower, n.upper, n.step))
    if isinstance(n, ast.Tuple):
        return all(_const_index(e) for e in n.elts)
    return False


def _access_path(n):
    """name, attribute of an access path, or constant basic index / slice into an access path"""
    if isinstance(n, (ast.Name, ast.Constant)):
        return True
    if isinstance(n, ast.Attribute):
        return _access_path(n.value)
    if isinstance(n, ast.Subscript):
        return _access_path(n.value) and _const_index(n.slice)
    return False


def _constant_expr(n):
    """arithmetic on literals only"""
    return all(isinstance(m, (ast.Constant, ast.BinOp, ast.UnaryOp, ast.operator, ast.unaryop, ast.Tuple, ast.Load)) for m in ast.walk(n))


def _value_expr(n):
    """access paths, constants and scalar arithmetic on them: evaluating such an expression again within a barrier-free
    stretch gives an equal immutable value (for array operands: an equal fresh array, see DESIGN: A-CANON)"""
    if _access_path(n):
        return True
    if isinstance(n, ast.BinOp):
        return _value_expr(n.left) and _value_expr(n.right)
    if isinstance(n, ast.UnaryOp):
        return _value_expr(n.operand)
    if isinstance(n, ast.Compare):
        return _value_expr(n.left) and all(_value_expr(c) for c in n.comparators)
    if isinstance(n, ast.BoolOp):
        return all(_value_expr(v) for v in n.values)
    if isinstance(n, ast.Tuple):
        return all(_value_expr(e) for e in n.elts)
    if isinstance(n, ast.Call) and isinstance(n.func, ast.Name) and n.func.id in ("len", "int", "float", "bool", "abs", "min", "max") \
            and not n.keywords:
        return all(_value_expr(a) for a in n.args)
    return False


def _pure_rhs(node):
    """a right-hand side that may be evaluated later (up to the next barrier) without changing behaviour"""
    for n in ast.walk(node):
        if isinstance(n, ast.Call):
            if any(k.arg == "out" for k in n.keywords):
                return False
            if isinstance(n.func, ast.Attribute) and n.func.attr in MUTATORS:
                return False
        if isinstance(n, (ast.Yield, ast.YieldFrom, ast.Await, ast.NamedExpr)):
            return False
    return True


# ------------------------------------------------------------------------------------------------
# canonicalisation
# ------------------------------------------------------------------------------------------------

class _Subst(ast.NodeTransformer):
    def __init__(self, canon):
        self.c = canon
        self.bound = []

    def visit_Name(self, node):
        if any(node.id in b for b in self.bound):
            return ast.Name(id=self.c.comp_name(node.id), ctx=node.ctx)
        if isinstance(node.ctx, ast.Load):
            return self.c.load(node.id)
        return node

    def _comp(self, node, elts):
        names = set()
        for g in node.generators:
            t = []
            _target_names(g.target, t)
            names.update(t)
        # iterables are evaluated outside-in: the first in the enclosing scope
        first = True
        for g in node.generators:
            if first:
                g.iter = self.visit(g.iter)
                first = False
                self.bound.append(names)
            else:
                g.iter = self.visit(g.iter)
            g.target = self.visit(g.target)
            g.ifs = [self.visit(i) for i in g.ifs]
        for attr in elts:
            setattr(node, attr, self.visit(getattr(node, attr)))
        self.bound.pop()
        return node

    def visit_ListComp(self, node):
        return self._comp(node, ["elt"])

    def visit_SetComp(self, node):
        return self._comp(node, ["elt"])

    def visit_GeneratorExp(self, node):
        return self._comp(node, ["elt"])

    def visit_DictComp(self, node):
        return self._comp(node, ["key", "value"])

    def visit_Lambda(self, node):
        names = {a.arg for a in node.args.args + node.args.kwonlyargs + node.args.posonlyargs}
        if node.args.vararg:
            names.add(node.args.vararg.arg)
        if node.args.kwarg:
            names.add(node.args.kwarg.arg)
        node.args.defaults = [self.visit(d) for d in node.args.defaults]
        self.bound.append(names)
        for a in node.args.args + node.args.kwonlyargs + node.args.posonlyargs:
            a.arg = self.c.comp_name(a.arg)
        node.body = self.visit(node.body)
        self.bound.pop()
        return node

    def visit_Call(self, node):
        self.generic_visit(node)
        return self.c.inline_call(node)


class Canon:
    def __init__(self, fn, helpers=None, depth=0):
        self.fn = fn
        self.helpers = helpers if helpers is not None else {}
        self.depth = depth
        self.params = [a.arg for a in fn.args.posonlyargs + fn.args.args + fn.args.kwonlyargs]
        if fn.args.vararg:
            self.params.append(fn.args.vararg.arg)
        if fn.args.kwarg:
            self.params.append(fn.args.kwarg.arg)
        self.varnames = {}
        self.keep = set()
        self.never = set()
        self.avail = {}     # dump(access path) -> materialised temporary holding it, valid up to the next barrier
        self.compnames = {}
        self.out_counter = 0

    # -- names ------------------------------------------------------------------------------
    def var_name(self, name):
        if name in self.params or name in self.keep:
            return name
        if name not in self.varnames:
            self.varnames[name] = f"_v{len(self.varnames)}"
        return self.varnames[name]

    def comp_name(self, name):
        if name not in self.compnames:
            self.compnames[name] = f"_c{len(self.compnames)}"
        return self.compnames[name]

    def load(self, name):
        if name in self.env:
            return copy.deepcopy(self.env[name])
        if name in self.temps:
            raise NoCanon(f"temporary {name} read before it is bound")
        if name in self.locals:
            return ast.Name(id=self.var_name(name), ctx=ast.Load())
        return ast.Name(id=name, ctx=ast.Load())          # global / builtin / module

    def _foreign(self, node):
        """FunctionDef of a function of another module of the package that the call names (`alias.func(..)` or an imported
        `func(..)`), for bringing the arguments to keyword form"""
        ext = getattr(self.helpers, "ext", None)
        if ext is None:
            return None
        f = node.func
        if isinstance(f, ast.Attribute) and isinstance(f.value, ast.Name) and f.value.id not in self.locals:
            return ext.lookup(f.value.id, f.attr)
        if isinstance(f, ast.Name) and f.id not in self.locals and f.id not in self.helpers:
            return ext.lookup(None, f.id)
        return None

    def inline_call(self, node):
        """calls of functions of the package: arguments in keyword form, in the order of the parameters; a same-module
        function whose canonical body is `return <expr>` is replaced by that expression"""
        fd = self._foreign(node)
        if fd is not None:
            a = fd.args
            if a.vararg or a.kwarg or a.posonlyargs or any(isinstance(x, ast.Starred) for x in node.args) \
                    or any(k.arg is None for k in node.keywords) or len(node.args) > len(a.args):
                return node
            params = [x.arg for x in a.args] + [x.arg for x in a.kwonlyargs]
            bind = dict(zip(params, node.args))
            for k in node.keywords:
                if k.arg not in params or k.arg in bind:
                    return node
                bind[k.arg] = k.value
            return ast.Call(func=node.func, args=[], keywords=[ast.keyword(arg=p, value=bind[p]) for p in sorted(bind)])
        if not isinstance(node.func, ast.Name) or node.func.id not in self.helpers or node.func.id in self.locals:
            return node
        h = self.helpers[node.func.id]
        a = h.fn.args
        if a.vararg or a.kwarg or a.posonlyargs or any(isinstance(x, ast.Starred) for x in node.args) \
                or any(k.arg is None for k in node.keywords):
            return node
        params = [x.arg for x in a.args] + [x.arg for x in a.kwonlyargs]
        if len(node.args) > len(a.args):
            return node
        bind = dict(zip(params, node.args))
        for k in node.keywords:
            if k.arg not in params or k.arg in bind:
                return node
            bind[k.arg] = k.value
        node = ast.Call(func=node.func, args=[], keywords=[ast.keyword(arg=p, value=bind[p]) for p in sorted(bind)])
        got = h.single_return() if (self.depth <= 4 and not getattr(h, "atomic", False)) else None
        if got is None:
            return node
        _, defaults, expr = got
        for p in params:
            if p not in bind:
                if p not in defaults:
                    return node
                bind[p] = defaults[p]
        # every argument is evaluated exactly once by a call: keep that (an argument that is a plain name or a constant
        # may be mentioned any number of times)
        for p in params:
            n = Canon._count(expr, p)
            if not isinstance(bind[p], (ast.Name, ast.Constant)) and (n[0] + n[1] > 1 or n[1] > 0):
                return node

        class R(ast.NodeTransformer):
            def visit_Name(s, n):
                if isinstance(n.ctx, ast.Load) and n.id in bind:
                    return copy.deepcopy(bind[n.id])
                return n
        return R().visit(copy.deepcopy(expr))

    # -- statement-level inlining of same-module helper functions ------------------------------
    _hcount = 0

    def _local_names(self, fn):
        names = set(a.arg for a in fn.args.posonlyargs + fn.args.args + fn.args.kwonlyargs)
        for n in ast.walk(fn):
            if isinstance(n, ast.Name) and isinstance(n.ctx, (ast.Store, ast.Del)):
                names.add(n.id)
            elif isinstance(n, ast.arg):
                names.add(n.arg)
        return names

    def _expand(self, call, kind, stmt, caller_locals):
        if getattr(self.helpers[call.func.id], "atomic", False):
            return None
        h = self.helpers[call.func.id].fn
        a = h.args
        if h.decorator_list or a.vararg or a.kwarg or a.posonlyargs or h is self.fn:
            return None
        if any(isinstance(x, ast.Starred) for x in call.args) or any(k.arg is None for k in call.keywords):
            return None
        body = _strip_doc(h.body)
        if not body or len(body) > 15:
            return None
        for n in ast.walk(ast.Module(body=body, type_ignores=[])):
            if isinstance(n, (ast.Yield, ast.YieldFrom, ast.Await, ast.Global, ast.Nonlocal, ast.FunctionDef, ast.ClassDef,
                              ast.AsyncFunctionDef, ast.Try, ast.NamedExpr)):
                return None
            if isinstance(n, ast.Return) and n is not body[-1]:
                return None
        params = [x.arg for x in a.args] + [x.arg for x in a.kwonlyargs]
        if len(call.args) > len(a.args):
            return None
        bind = dict(zip(params, call.args))
        for k in call.keywords:
            if k.arg not in params or k.arg in bind:
                return None
            bind[k.arg] = k.value
        defaults = dict(zip([x.arg for x in a.args][len(a.args) - len(a.defaults):], a.defaults))
        defaults.update({x.arg: d for x, d in zip(a.kwonlyargs, a.kw_defaults) if d is not None})
        for p in params:
            if p not in bind:
                if p not in defaults or any(isinstance(n, ast.Name) and n.id in params for n in ast.walk(defaults[p])):
                    return None
                bind[p] = defaults[p]
        hl = self._local_names(h)
        free = {n.id for n in ast.walk(ast.Module(body=body, type_ignores=[])) if isinstance(n, ast.Name)} - hl
        if free & caller_locals:
            return None                      # a global of the helper would be captured by a local of the caller
        Canon._hcount += 1
        pre = f"_h{Canon._hcount}_"

        class R(ast.NodeTransformer):
            def visit_Name(s, n):
                return ast.Name(id=pre + n.id, ctx=n.ctx) if n.id in hl else n

            def visit_arg(s, n):
                return ast.arg(arg=pre + n.arg) if n.arg in hl else n
        out = [ast.Assign(targets=[ast.Name(id=pre + p, ctx=ast.Store())], value=copy.deepcopy(bind[p])) for p in params]
        new = [R().visit(copy.deepcopy(x)) for x in body]
        ret = ast.Constant(value=None)
        if isinstance(new[-1], ast.Return):
            ret = new[-1].value if new[-1].value is not None else ast.Constant(value=None)
            new = new[:-1]
        out += new
        if kind == "assign":
            out.append(ast.Assign(targets=stmt.targets, value=ret))
        elif kind == "return":
            out.append(ast.Return(value=ret))
        elif not isinstance(ret, (ast.Constant, ast.Name)):
            out.append(ast.Expr(value=ret))
        return out

    def _inline_helpers(self, stmts, caller_locals, depth=0):
        out = []
        for s in stmts:
            call = kind = None
            if isinstance(s, ast.Assign) and len(s.targets) == 1 and isinstance(s.value, ast.Call):
                call, kind = s.value, "assign"
            elif isinstance(s, ast.Expr) and isinstance(s.value, ast.Call):
                call, kind = s.value, "expr"
            elif isinstance(s, ast.Return) and isinstance(s.value, ast.Call):
                call, kind = s.value, "return"
            if call is not None and depth < 3 and isinstance(call.func, ast.Name) and call.func.id in self.helpers \
                    and call.func.id not in caller_locals:
                exp = self._expand(call, kind, s, caller_locals)
                if exp is not None:
                    out += self._inline_helpers(exp, caller_locals, depth + 1)
                    continue
            for attr in ("body", "orelse", "finalbody"):
                if isinstance(getattr(s, attr, None), list) and not isinstance(s, (ast.FunctionDef, ast.ClassDef)):
                    setattr(s, attr, self._inline_helpers(getattr(s, attr), caller_locals, depth))
            out.append(s)
        return out

    # -- driver -----------------------------------------------------------------------------
    def run(self):
        fn = copy.deepcopy(self.fn)
        for n in ast.walk(fn):
            n.__dict__.pop("_done", None)
        if self.helpers and self.depth == 0:
            fn.body = self._inline_helpers(_strip_doc(fn.body), self._local_names(fn))
        fn = _Pre().visit(fn)
        body = _pre_block(_strip_doc(fn.body), frozenset(self.params))
        sc = _Scan()
        root = sc.new_block(())
        for p in self.params:
            sc.store(p, "plain", root)
        sc.block(body, root)
        self.locals = set(sc.stores)
        self.keep = set(sc.imported)
        self.never = set(sc.never)
        self.temps = set()
        for name, st in sc.stores.items():
            if name in sc.never:
                continue
            if any(k != "plain" for k, _ in st):
                continue
            paths = {p for _, p in st}
            if len(paths) != 1:
                continue
            blk = next(iter(paths))
            if all(lp[:len(blk)] == blk for lp in sc.loads.get(name, [])):
                self.temps.add(name)
        self.env = {p: ast.Name(id=p, ctx=ast.Load()) for p in self.params if p in self.temps}
        self.temps_root = root
        out = self.block(body, frozenset())
        return out

    def _names_in(self, nodes):
        s = set()
        for n in nodes:
            for m in ast.walk(n):
                if isinstance(m, ast.Name):
                    s.add(m.id)
        return s

    def sub(self, node):
        if node is None:
            return None
        if getattr(node, "_done", False):
            return node
        out = _Subst(self).visit(copy.deepcopy(node))
        if self.avail:
            avail = self.avail

            class Reuse(ast.NodeTransformer):
                def generic_visit(s, n):
                    if isinstance(n, (ast.Attribute, ast.Subscript)) and isinstance(getattr(n, "ctx", None), ast.Load) \
                            and _access_path(n):
                        k = ast.dump(n)
                        if k in avail:
                            return ast.Name(id=avail[k][0], ctx=ast.Load())
                    return ast.NodeTransformer.generic_visit(s, n)
            out = Reuse().visit(out)
        return out

    # -- uses of one version of a temporary -------------------------------------------------
    @staticmethod
    def _count(node, name):
        """(plain loads, loads inside a comprehension / lambda body) of `name` in an expression or statement"""
        plain = inner = 0

        def walk(n, deep):
            nonlocal plain, inner
            if isinstance(n, ast.Name):
                if n.id == name and isinstance(n.ctx, ast.Load):
                    if deep:
                        inner += 1
                    else:
                        plain += 1
                return
            if isinstance(n, (ast.ListComp, ast.SetComp, ast.DictComp, ast.GeneratorExp, ast.Lambda)):
                for c in ast.iter_child_nodes(n):
                    walk(c, True)
                return
            for c in ast.iter_child_nodes(n):
                walk(c, deep)
        walk(node, False)
        return plain, inner

    @staticmethod
    def _header(s):
        """the expressions of a statement that are evaluated exactly once, before the statement has any effect"""
        if isinstance(s, ast.For):
            return [s.iter]
        if isinstance(s, ast.If):
            tests = [s.test]
            while len(s.orelse) == 1 and isinstance(s.orelse[0], ast.If):     # elif: evaluated at most once, right after
                s = s.orelse[0]
                tests.append(s.test)
            return tests
        if isinstance(s, ast.With):
            return [it.context_expr for it in s.items]
        if isinstance(s, (ast.While, ast.Try, ast.FunctionDef, ast.ClassDef, ast.AsyncFunctionDef)):
            return []
        return [s]

    def _reach(self, s, name):
        """number of loads of `name` in statement `s` that are evaluated at most once and before anything in `s` can have
        had an effect: the header, and -- for an `if` -- what its branches do before their first barrier"""
        if isinstance(s, ast.If):
            return self._count(s.test, name)[0] + self._reach_block(s.body, name) + self._reach_block(s.orelse, name)
        return sum(self._count(h, name)[0] for h in self._header(s))

    def _reach_block(self, stmts, name):
        total = 0
        for st in stmts:
            total += self._reach(st, name)
            if name in self._level_stores(st):
                break                      # re-bound: later loads mean another value
            if not self._is_free(st) and not self._is_guard(st):
                break
        return total

    def _is_free(self, s):
        """a statement that is no barrier: a plain binding of names with a pure right-hand side"""
        return isinstance(s, ast.Assign) and all(isinstance(t, (ast.Name, ast.Tuple, ast.List)) for t in s.targets) \
            and _pure_rhs(s.value)

    def _is_guard(self, s):
        """`if c: <bindings>; return / raise` without else: when execution goes on after it, it has done nothing"""
        return isinstance(s, ast.If) and not s.orelse and s.body and isinstance(s.body[-1], (ast.Return, ast.Raise)) \
            and all(self._is_free(x) for x in s.body[:-1]) and _pure_rhs(s.body[-1]) and _pure_rhs(s.test)

    def decide(self, stmts, i, name, val):
        """'dead' | 'inline' | 'keep' for the version of temporary `name` bound by stmts[i] to the value `val`.
        inline: every use is evaluated exactly once and no barrier lies between the binding and the use; and there is only
        one use, or the value is an access path (attribute / constant-index chain on a name), which denotes the same
        object or the same memory at every evaluation within a barrier-free stretch."""
        total = 0
        inline_ok = True
        barrier_before = False
        for j in range(i + 1, len(stmts)):
            s = stmts[j]
            rebinds = isinstance(s, ast.Assign) and name in self._level_stores(s)
            plain, inner = self._count(s.value if rebinds else s, name)
            if plain or inner:
                hp = self._count(s.value, name)[0] if rebinds else self._reach(s, name)
                if inner or plain != hp or barrier_before:
                    inline_ok = False
                total += plain + inner
            if rebinds:
                break
            if not self._is_free(s) and not self._is_guard(s):
                barrier_before = True
        if total == 0:
            return "dead"
        if inline_ok and (total == 1 or _value_expr(val)):
            return "inline"
        return "keep"

    def flush(self, out, names):
        """the variables `names` (canonical) are about to be re-bound: temporaries whose pending value mentions one of
        them are evaluated now"""
        for name in list(self.env):
            val = self.env[name]
            if not (self._names_in([val]) & names):
                continue
            self.out_counter += 1
            v = f"_t{self.out_counter}"
            out.append(ast.Assign(targets=[ast.Name(id=v, ctx=ast.Store())], value=val))
            self.env[name] = ast.Name(id=v, ctx=ast.Load())

    def _stored_in(self, node):
        out = set()
        for n in ast.walk(node):
            if isinstance(n, ast.Name) and isinstance(n.ctx, (ast.Store, ast.Del)) and n.id not in self.temps:
                out.add(self.var_name(n.id) if n.id in self.locals else n.id)
        return out

    @staticmethod
    def _level_stores(s):
        """names bound by the statement itself (not inside its nested blocks)"""
        names = []
        if isinstance(s, ast.Assign):
            for t in s.targets:
                _target_names(t, names)
        elif isinstance(s, (ast.AugAssign, ast.AnnAssign)) and isinstance(s.target, ast.Name):
            names.append(s.target.id)
        return names

    def version_temp(self, stmts, i, name):
        """the binding stmts[i] of `name` is overwritten by a later plain assignment of the same block, and nothing in
        between binds the name: this *version* of the variable is a temporary whatever happens to the name elsewhere"""
        if name in self.never:
            return False
        for j in range(i + 1, len(stmts)):
            s = stmts[j]
            if name in self._level_stores(s):
                return isinstance(s, ast.Assign)
            for n in ast.walk(s):
                if isinstance(n, ast.Name) and n.id == name and isinstance(n.ctx, (ast.Store, ast.Del)):
                    return False
                if isinstance(n, (ast.Global, ast.Nonlocal)) and name in n.names:
                    return False
        return False

    def block(self, stmts, live_after):
        out = []
        for i, s in enumerate(stmts):
            if isinstance(s, ast.Assign) and len(s.targets) == 1 and isinstance(s.targets[0], ast.Name) and _pure_rhs(s.value) \
                    and (s.targets[0].id in self.temps or self.version_temp(stmts, i, s.targets[0].id)):
                name = s.targets[0].id
                val = self.sub(s.value)
                how = self.decide(stmts, i, name, val)
                if (_constant_expr(val) or isinstance(val, ast.Name)) and how != "dead":
                    self.env[name] = val              # constant / alias of another name: the same object at every use
                elif how == "inline":
                    self.env[name] = val              # evaluated at its only use, which no barrier separates from here
                elif how == "dead":
                    self.env.pop(name, None)
                else:
                    self.out_counter += 1
                    v = f"_t{self.out_counter}"
                    out.append(ast.Assign(targets=[ast.Name(id=v, ctx=ast.Store())], value=val))
                    self.env[name] = ast.Name(id=v, ctx=ast.Load())
                    if _access_path(val) and not isinstance(val, (ast.Name, ast.Constant)):
                        # the same path written out again (before the next barrier) means the same object
                        self.avail[ast.dump(val)] = (v, frozenset(self._names_in([val])))
                continue
            if self._is_free(s):
                value = self.sub(s.value)
                self.flush(out, self._stored_in(s))
                st = self._stored_in(s)
                self.avail = {k: e for k, e in self.avail.items() if not (e[1] & st)}
                for n in self._level_stores(s):
                    self.env.pop(n, None)         # a version that was a temporary ends here
                out.append(ast.Assign(targets=[self.store_target(t) for t in s.targets], value=value))
                continue
            out += self.barrier(s, live_after)
        return out

    def store_target(self, t):
        if isinstance(t, ast.Name):
            return ast.Name(id=self.var_name(t.id), ctx=ast.Store())
        if isinstance(t, (ast.Tuple, ast.List)):
            return type(t)(elts=[self.store_target(e) for e in t.elts], ctx=ast.Store())
        if isinstance(t, ast.Starred):
            return ast.Starred(value=self.store_target(t.value), ctx=ast.Store())
        return self.sub(t)

    def barrier(self, s, live_after):
        try:
            return self._barrier(s, live_after)
        finally:
            self.avail = {}

    def _barrier(self, s, live_after):
        out = []
        simple = (ast.Expr, ast.Return, ast.Raise, ast.Assert, ast.AugAssign, ast.Assign, ast.Delete)
        if isinstance(s, simple):
            if isinstance(s, ast.AugAssign):
                new = ast.AugAssign(target=self.store_target(s.target) if isinstance(s.target, ast.Name) else self.sub(s.target),
                                    op=s.op, value=self.sub(s.value))
            elif isinstance(s, ast.Assign):
                new = ast.Assign(targets=[self.store_target(t) for t in s.targets], value=self.sub(s.value))
            else:
                new = self.sub(s)
            self.flush(out, self._stored_in(s))
            for n in self._level_stores(s):
                self.env.pop(n, None)
            out.append(new)
            return out
        if isinstance(s, ast.If):
            test = self.sub(s.test)
            chain = s
            while len(chain.orelse) == 1 and isinstance(chain.orelse[0], ast.If):
                # the test of an `elif` is evaluated before any branch has run: it sees what the `if` test sees
                chain = chain.orelse[0]
                t = self.sub(chain.test)
                t._done = True
                chain.test = t
            self.flush(out, self._stored_in(s))
            self.avail = {}
            env0 = dict(self.env)
            body = self.block(s.body, live_after)
            self.env = dict(env0)
            orelse = self.block(s.orelse, live_after)
            self.env = dict(env0)
            out.append(ast.If(test=test, body=body, orelse=orelse))
            return out
        if isinstance(s, ast.For):
            it = self.sub(s.iter)
            self.flush(out, self._stored_in(s))
            self.avail = {}
            env0 = dict(self.env)
            target = self.store_target(s.target)
            body = self.block(s.body, live_after)
            self.env = dict(env0)
            orelse = self.block(s.orelse, live_after)
            self.env = dict(env0)
            out.append(ast.For(target=target, iter=it, body=body, orelse=orelse))
            return out
        if isinstance(s, ast.While):
            self.avail = {}
            self.flush(out, self._stored_in(s))
            env0 = dict(self.env)
            test = self.sub(s.test)
            body = self.block(s.body, live_after)
            self.env = dict(env0)
            orelse = self.block(s.orelse, live_after)
            self.env = dict(env0)
            out.append(ast.While(test=test, body=body, orelse=orelse))
            return out
        if isinstance(s, ast.With):
            items = [ast.withitem(context_expr=self.sub(it.context_expr),
                                  optional_vars=None if it.optional_vars is None else self.store_target(it.optional_vars))
                     for it in s.items]
            self.avail = {}
            self.flush(out, self._stored_in(s))
            env0 = dict(self.env)
            body = self.block(s.body, live_after)
            self.env = dict(env0)
            out.append(ast.With(items=items, body=body))
            return out
        if isinstance(s, (ast.Global, ast.Nonlocal, ast.Import, ast.ImportFrom, ast.Pass, ast.Break, ast.Continue)):
            out.append(copy.deepcopy(s))
            return out
        if isinstance(s, ast.Try):
            self.avail = {}
            self.flush(out, self._stored_in(s))
            env0 = dict(self.env)
            body = self.block(s.body, live_after)
            handlers = []
            for h in s.handlers:
                self.env = dict(env0)
                handlers.append(ast.ExceptHandler(type=self.sub(h.type), name=None if h.name is None else self.var_name(h.name),
                                                  body=self.block(h.body, live_after)))
            self.env = dict(env0)
            orelse = self.block(s.orelse, live_after)
            self.env = dict(env0)
            final = self.block(s.finalbody, live_after)
            self.env = dict(env0)
            out.append(ast.Try(body=body, handlers=handlers, orelse=orelse, finalbody=final))
            return out
        if isinstance(s, (ast.FunctionDef, ast.ClassDef)):
            # a nested definition is kept as it is written; only the variables of the enclosing function that it mentions
            # (all of them are variables, never temporaries: _Scan) get their canonical names
            self.flush(out, self._stored_in(s) | {self.var_name(s.name)})
            new = copy.deepcopy(s)
            shadow = set()
            for n in ast.walk(new):
                if n is new:
                    continue
                if isinstance(n, ast.arg):
                    shadow.add(n.arg)
                elif isinstance(n, ast.Name) and isinstance(n.ctx, (ast.Store, ast.Del)):
                    shadow.add(n.id)
                elif isinstance(n, (ast.FunctionDef, ast.ClassDef)):
                    shadow.add(n.name)
            if isinstance(new, ast.FunctionDef):
                for a in new.args.posonlyargs + new.args.args + new.args.kwonlyargs:
                    shadow.add(a.arg)
            c = self

            class Ren(ast.NodeTransformer):
                def visit_Name(s_, n):
                    if n.id in c.locals and n.id not in shadow and n.id not in c.temps:
                        return ast.Name(id=c.var_name(n.id), ctx=n.ctx)
                    return n
            body = [Ren().visit(x) for x in _strip_doc(new.body)] or [ast.Pass()]
            new.body = body
            new.name = self.var_name(s.name)
            # decorators, base classes and class keywords are evaluated in the enclosing scope, at definition time
            new.decorator_list = [self.sub(d) for d in s.decorator_list]
            if isinstance(new, ast.ClassDef):
                new.bases = [self.sub(b) for b in s.bases]
                new.keywords = [ast.keyword(arg=k.arg, value=self.sub(k.value)) for k in s.keywords]
            if isinstance(new, ast.FunctionDef):
                new.returns = None
                for a in ast.walk(new.args):
                    if isinstance(a, ast.arg):
                        a.annotation = None
                new.args.defaults = [self.sub(d) for d in new.args.defaults]
            out.append(new)
            return out
        raise NoCanon(f"statement {type(s).__name__}")

    # -- results ----------------------------------------------------------------------------
    def form(self):
        """canonical text; raises NoCanon"""
        if not hasattr(self, "_form"):
            body = self.run()
            # to a fixed point: branches that have become single statements can now be merged, which frees more temporaries
            prev = ast.dump(ast.Module(body=body, type_ignores=[]))
            for _ in range(4):
                fn2 = copy.copy(self.fn)
                fn2.body = body
                nxt = Canon(fn2, self.helpers, self.depth)
                body = nxt.run()
                cur = ast.dump(ast.Module(body=body, type_ignores=[]))
                if cur == prev:
                    break
                prev = cur
            a = self.fn.args
            sig = {"params": self.params,
                   "defaults": [ast.dump(d) for d in a.defaults],
                   "kw_defaults": [None if d is None else ast.dump(d) for d in a.kw_defaults],
                   "nposonly": len(a.posonlyargs), "nargs": len(a.args), "vararg": bool(a.vararg), "kwarg": bool(a.kwarg),
                   "decorators": [ast.dump(d) for d in self.fn.decorator_list]}
            mod = _Pre().visit(ast.Module(body=body, type_ignores=[]))      # spellings again, now that temporaries are gone
            body = mod.body
            self._body = body
            self._form = repr(sig) + "\n" + ast.dump(mod)
        return self._form

    def single_return(self):
        """(params, defaults, expr) if the canonical body is `return expr` and the signature is plain"""
        if hasattr(self, "_single"):
            return self._single
        self._single = None
        try:
            sub = Canon(self.fn, self.helpers, self.depth + 1)
            sub.form()
        except (NoCanon, RecursionError):
            return None
        a = self.fn.args
        if a.vararg or a.kwarg or a.posonlyargs or a.kwonlyargs or self.fn.decorator_list:
            return None
        if set(sub.params) & sub._names_in([d for d in a.defaults]):
            return None
        body = sub._body
        if len(body) == 1 and isinstance(body[0], ast.Return) and body[0].value is not None:
            params = [x.arg for x in a.args]
            defaults = dict(zip(params[len(params) - len(a.defaults):], a.defaults))
            if any(isinstance(n, ast.Name) for d in defaults.values() for n in ast.walk(d)):
                return None
            if any(isinstance(n, (ast.ListComp, ast.SetComp, ast.DictComp, ast.GeneratorExp, ast.Lambda))
                   for n in ast.walk(body[0].value)):
                return None
            # a parameter may be used several times: the argument expressions are pure by the same assumption
            self._single = (params, defaults, body[0].value)
        return self._single


# ------------------------------------------------------------------------------------------------
# module level
# ------------------------------------------------------------------------------------------------

def functions(mod):
    """qualname -> (parent body list, index, node) for module-level functions and methods of module-level classes"""
    out = {}
    for i, n in enumerate(mod.body):
        if isinstance(n, ast.FunctionDef):
            out[n.name] = (mod.body, i, n)
        elif isinstance(n, ast.ClassDef):
            for j, m in enumerate(n.body):
                if isinstance(m, ast.FunctionDef):
                    out[f"{n.name}.{m.name}"] = (n.body, j, m)
    return out


class _Helpers(dict):
    ext = None


class _Ext:
    """signatures of functions of other modules of the package, as imported by this module (read from the same source tree
    as the module itself)"""

    def __init__(self, mod, root):
        self.root = root
        self.alias = {}      # local module alias -> relpath
        self.direct = {}     # imported function name -> (relpath, name)
        self.cache = {}
        for n in mod.body:
            if isinstance(n, ast.ImportFrom) and n.level == 0 and n.module and n.module.startswith("libertem_blobfinder"):
                base = n.module.split(".")[1:]
                for a in n.names:
                    as_mod = os.path.join(*(base + [a.name])) + ".py"
                    if os.path.exists(os.path.join(root, as_mod)):
                        self.alias[a.asname or a.name] = as_mod
                    elif base:
                        self.direct[a.asname or a.name] = (os.path.join(*base) + ".py", a.name)
            elif isinstance(n, ast.Import):
                for a in n.names:
                    if a.name.startswith("libertem_blobfinder.") and a.asname:
                        self.alias[a.asname] = os.path.join(*a.name.split(".")[1:]) + ".py"

    def _funcs(self, rel):
        if rel not in self.cache:
            try:
                with open(os.path.join(self.root, rel)) as f:
                    m = ast.parse(f.read())
                self.cache[rel] = {n.name: n for n in m.body if isinstance(n, ast.FunctionDef)}
            except (OSError, SyntaxError):
                self.cache[rel] = {}
        return self.cache[rel]

    def lookup(self, alias, name):
        if alias is None:
            if name in self.direct:
                rel, real = self.direct[name]
                return self._funcs(rel).get(real)
            return None
        if alias in self.alias:
            return self._funcs(self.alias[alias]).get(name)
        return None


def _helpers(mod, common=frozenset(), root=None):
    """module-level functions; those whose name is in `common` (present in both versions of the module) are compared on
    their own and stay calls -- only their argument lists are brought to keyword form"""
    hs = _Helpers()
    if root is not None:
        hs.ext = _Ext(mod, root)
    for n in mod.body:
        if isinstance(n, ast.FunctionDef):
            hs[n.name] = Canon(n, hs, depth=1)
            hs[n.name].atomic = n.name in common
    return hs


def canonical_forms(mod, common=frozenset(), root=None):
    hs = _helpers(mod, common, root)
    forms = {}
    for q, (_, _, node) in functions(mod).items():
        try:
            forms[q] = Canon(node, hs).form()
        except (NoCanon, RecursionError) as e:
            forms[q] = None
    return forms


_report = {}


def normalise(relpath, mod):
    """replace every function that is canonically identical to its baseline version by the baseline AST"""
    path = os.path.join(BASE_SRC, relpath)
    rep = {"identical": 0, "equivalent": [], "different": [], "new": [], "gone": []}
    _report[relpath] = rep
    if os.environ.get("VERIF_NO_CANON") or not os.path.exists(path):
        return mod
    if selfcheck():
        rep["selfcheck_failed"] = selfcheck()
        return mod
    with open(path) as f:
        base = ast.parse(f.read())
    bf, cf = functions(base), functions(mod)
    differing = [q for q in bf if q in cf and ast.dump(bf[q][2]) != ast.dump(cf[q][2])]
    rep["identical"] = len([q for q in bf if q in cf]) - len(differing)
    rep["new"] = sorted(q for q in cf if q not in bf)
    rep["gone"] = sorted(q for q in bf if q not in cf)
    if not differing:
        return mod
    common = frozenset(n.name for n in base.body if isinstance(n, ast.FunctionDef)) \
        & frozenset(n.name for n in mod.body if isinstance(n, ast.FunctionDef))
    import trcore
    bforms, cforms = canonical_forms(base, common, BASE_SRC), canonical_forms(mod, common, trcore.SRC)
    for q in differing:
        if bforms.get(q) is not None and bforms[q] == cforms.get(q):
            body, idx, _ = cf[q]
            body[idx] = copy.deepcopy(bf[q][2])
            rep["equivalent"].append(q)
        else:
            rep["different"].append(q)
    return mod


def report():
    return _report


_selfcheck = None


def selfcheck():
    """the canonicaliser is used only if it identifies every EQ pair and separates every NE pair of canon_cases.py"""
    global _selfcheck
    if _selfcheck is None:
        import canon_cases
        bad = []
        for kind, pairs in (("EQ", canon_cases.EQ), ("NE", canon_cases.NE)):
            for k, (a, b) in enumerate(pairs):
                try:
                    fa = Canon(ast.parse(a).body[0], {}).form()
                    fb = Canon(ast.parse(b).body[0], {}).form()
                except (NoCanon, RecursionError):
                    fa, fb = 0, 1
                if (fa == fb) != (kind == "EQ"):
                    bad.append(f"{kind}{k}")
        _selfcheck = bad
    return _selfcheck
