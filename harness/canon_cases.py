"""Self-check of canon.py: pairs of functions that must (EQ) / must not (NE) have the same canonical form.
The NE pairs are behaviourally different programs that a careless canonicalisation would identify."""
EQ = [
    # renaming, splitting and merging of temporaries
    ("def f(a, b):\n    t = a + b\n    return t * 2\n", "def f(a, b):\n    return (a + b) * 2\n"),
    ("def f(a, b):\n    t = a + b\n    u = t * 2\n    return u\n", "def f(a, b):\n    x = (a + b) * 2\n    return x\n"),
    # SSA re-binding of a parameter
    ("def f(d, n):\n    d = np.dtype(d)\n    s = n * d.itemsize\n    return s\n", "def f(d, n):\n    return n * np.dtype(d).itemsize\n"),
    # if/else returns
    ("def f(c, a, b):\n    if c:\n        return a\n    return b\n", "def f(c, a, b):\n    return a if c else b\n"),
    ("def f(c, a, b):\n    if not c:\n        return b\n    else:\n        return a\n", "def f(c, a, b):\n    return a if c else b\n"),
    # conditional re-binding of a parameter
    ("def f(s, r):\n    if s is None:\n        s = 2 * r\n    return g(s)\n", "def f(s, r):\n    return g(2 * r if s is None else s)\n"),
    # multi-use temporary keeps being one value in both
    ("def f(a):\n    t = mk(a)\n    h(t)\n    return t\n", "def f(a):\n    obj = mk(a)\n    h(obj)\n    return obj\n"),
    # access paths and scalar values may be named or repeated
    ("def f(x):\n    s = x.shape\n    return g(s[0], s[1])\n", "def f(x):\n    return g(x.shape[0], x.shape[1])\n"),
    ("def f(c):\n    side = 2 * c\n    return z((side, side))\n", "def f(c):\n    return z((2 * c, 2 * c))\n"),
    # spellings
    ("def f(a, b):\n    return np.array((a, b))[0:2]\n", "def f(a, b):\n    return np.array([a, b])[:2]\n"),
    ("def f(x):\n    return np.min(x, axis=(-1, -2))[:, np.newaxis]\n", "def f(x):\n    return np.min(x, axis=(-2, -1))[:, None]\n"),
    ("def f(x, w):\n    if w is None:\n        pass\n    else:\n        x *= w\n    return x\n",
     "def f(x, w):\n    if w is not None:\n        x *= w\n    return x\n"),
    ("def f(x):\n    if x.ndim == 3:\n        r = x.T\n    elif x.ndim == 2:\n        r = x\n    else:\n        raise ValueError('no')\n    return r\n",
     "def f(x):\n    if x.ndim == 3:\n        return x.T\n    if x.ndim == 2:\n        return x\n    raise ValueError('no')\n"),
]
EQ += [
    # a guard does nothing when it is passed
    ("def f(x):\n    s = x.shape\n    n = len(s)\n    if n == 3:\n        return 1\n    if n == 2:\n        return 2\n    raise ValueError(s)\n",
     "def f(x):\n    if len(x.shape) == 3:\n        return 1\n    if len(x.shape) == 2:\n        return 2\n    raise ValueError(x.shape)\n"),
    # try bodies, nested functions
    ("def f(a):\n    try:\n        t = g(a)\n        r = h(t)\n    except ValueError as e:\n        r = k(e)\n    return r\n",
     "def f(a):\n    try:\n        res = h(g(a))\n    except ValueError as err:\n        res = k(err)\n    return res\n"),
    ("def f(a):\n    n = len(a)\n    def inner(i):\n        return i + n\n    return inner(1)\n",
     "def f(a):\n    count = len(a)\n    def inner(i):\n        return i + count\n    return inner(1)\n"),
]
EQ += [
    # a version of a variable that is overwritten before anything else can see it
    ("def f(c):\n    m = g(c)\n    m = h(m)\n    m -= 1\n    return m\n", "def f(c):\n    m = h(g(c))\n    m -= 1\n    return m\n"),
]
EQ += [
    ("def f(y, n):\n    return y >= 0 and y < n\n", "def f(y, n):\n    return 0 <= y < n\n"),
]
EQ += [
    # an access path held in a variable and written out again before anything can have changed it
    ("def f(self, n):\n    r = self.results\n    for i in range(len(self.results.c)):\n        g(r.c[i])\n",
     "def f(self, n):\n    r = self.results\n    for i in range(len(r.c)):\n        g(r.c[i])\n"),
]
EQ += [
    ("def f(m, k):\n    if len(m) >= k:\n        m = m.opt()\n    else:\n        raise ValueError('few')\n    return g(m)\n",
     "def f(m, k):\n    enough = len(m) >= k\n    if not enough:\n        raise ValueError('few')\n    m = m.opt()\n    return g(m)\n"),
]
EQ += [
    ("def f(x):\n    s = x.shape\n    pair = len(s) == 2 and s[1] == 2\n    if len(s) == 3:\n        x = x.T\n    elif not pair:\n        raise ValueError('no')\n    return g(x)\n",
     "def f(x):\n    s = x.shape\n    if len(s) == 3:\n        x = x.T\n    elif not (len(s) == 2 and s[1] == 2):\n        raise ValueError('no')\n    return g(x)\n"),
]
EQ += [
    ("def f(x, y):\n    s = x.shape\n    if len(s) == 3:\n        y = y.T\n    elif len(s) != 2:\n        raise ValueError('no %s' % str(s))\n    return g(y)\n",
     "def f(x, y):\n    if len(x.shape) == 3:\n        y = y.T\n    elif len(x.shape) != 2:\n        raise ValueError('no %s' % str(x.shape))\n    return g(y)\n"),
]
NE = [
    # a read moved across a write
    ("def f(a, i):\n    x = a[i]\n    a[i] = 0\n    return x\n", "def f(a, i):\n    a[i] = 0\n    x = a[i]\n    return x\n"),
    ("def f(a, i):\n    x = a[i]\n    g(a)\n    return x\n", "def f(a, i):\n    g(a)\n    return a[i]\n"),
    # one object used twice vs two objects
    ("def f():\n    t = np.zeros(3)\n    return g(t, t)\n", "def f():\n    return g(np.zeros(3), np.zeros(3))\n"),
    ("def f():\n    t = np.zeros(3)\n    h(t)\n    return t\n", "def f():\n    h(np.zeros(3))\n    return np.zeros(3)\n"),
    ("def f(m):\n    d = np.identity(3)\n    d[2, 2] = 0\n    return m - d\n", "def f(m):\n    np.identity(3)[2, 2] = 0\n    return m - np.identity(3)\n"),
    # alias of a variable that is re-bound afterwards
    ("def f(x):\n    for i in range(3):\n        t = x\n        x = x + 1\n        g(t)\n    return x\n",
     "def f(x):\n    for i in range(3):\n        x = x + 1\n        g(x)\n    return x\n"),
    ("def f(x):\n    t = x\n    x += 1\n    return t\n", "def f(x):\n    x += 1\n    return x\n"),
    # a value computed before a loop vs in the loop
    ("def f(a, n):\n    t = g(a)\n    for i in range(n):\n        h(t)\n", "def f(a, n):\n    for i in range(n):\n        h(g(a))\n"),
    # in-place vs out-of-place
    ("def f(a, b):\n    a -= b\n    return a\n", "def f(a, b):\n    a = a - b\n    return a\n"),
    # different constants, operators, argument order, defaults, decorators
    ("def f(a):\n    return a + 1\n", "def f(a):\n    return a + 2\n"),
    ("def f(a, b):\n    return a >= b\n", "def f(a, b):\n    return a > b\n"),
    ("def f(a, b):\n    return g(a, b)\n", "def f(a, b):\n    return g(b, a)\n"),
    ("def f(a, b=1):\n    return a + b\n", "def f(a, b=2):\n    return a + b\n"),
    ("@numba.njit\ndef f(a):\n    return a\n", "def f(a):\n    return a\n"),
    # order of two statements with effects
    ("def f(a, b):\n    g(a)\n    h(b)\n", "def f(a, b):\n    h(b)\n    g(a)\n"),
    # out= makes a right-hand side a barrier
    ("def f(a, buf):\n    x = buf[0]\n    r = np.log(a, out=buf)\n    return x, r\n", "def f(a, buf):\n    r = np.log(a, out=buf)\n    x = buf[0]\n    return x, r\n"),
    # a comprehension evaluates its element many times
    ("def f(n):\n    t = mk()\n    return [t for _ in range(n)]\n", "def f(n):\n    return [mk() for _ in range(n)]\n"),
    # swap
    ("def f(a, b):\n    a, b = b, a\n    return a - b\n", "def f(a, b):\n    return a - b\n"),
    # `not` must not be dropped
    ("def f(c, a, b):\n    return a if c else b\n", "def f(c, a, b):\n    return a if not c else b\n"),
    # conditional binding of a possibly unbound name is left alone, but must differ from the unconditional one
    ("def f(c, a):\n    if c:\n        a = 1\n    return a\n", "def f(c, a):\n    a = 1\n    return a\n"),
    # evaluation moved into / out of a try block
    ("def f(a):\n    t = g(a)\n    try:\n        r = h(t)\n    except ValueError:\n        r = 0\n    return r\n",
     "def f(a):\n    try:\n        r = h(g(a))\n    except ValueError:\n        r = 0\n    return r\n"),
    # an if with an effect is a barrier
    ("def f(a, i, c):\n    t = a[i]\n    if c:\n        a[i] = 0\n    return t\n", "def f(a, i, c):\n    if c:\n        a[i] = 0\n    return a[i]\n"),
    # nested function bodies are compared as written
    ("def f(a):\n    def inner(i):\n        return i + 1\n    return inner(a)\n", "def f(a):\n    def inner(i):\n        return i + 2\n    return inner(a)\n"),
    # ... but not when a loop can see it
    ("def f(c, n):\n    m = g(c)\n    for i in range(n):\n        m = h(m)\n    return m\n",
     "def f(c, n):\n    for i in range(n):\n        m = h(g(c))\n    return m\n"),
    ("def f(c):\n    m = g(c)\n    k(m)\n    m = h(m)\n    return m\n", "def f(c):\n    k(g(c))\n    m = h(g(c))\n    return m\n"),
    ("def f(y, n):\n    return 0 <= y < n\n", "def f(y, n):\n    return 0 <= y <= n\n"),
    ("def f(y, n):\n    return 0 < y < n\n", "def f(y, n):\n    return 0 > y < n\n"),
    # ... but not after a statement that may have re-bound it
    ("def f(self):\n    r = self.results\n    self.reset()\n    g(r)\n    return self.results.c\n",
     "def f(self):\n    r = self.results\n    self.reset()\n    g(r)\n    return r.c\n"),
    # a use after an effect inside a branch is not the value from before the `if`
    ("def f(a, i, c):\n    t = a[i]\n    if c:\n        a[i] = 0\n        g(t)\n", "def f(a, i, c):\n    if c:\n        a[i] = 0\n        g(a[i])\n"),
    ("def f(x, c):\n    t = x.shape\n    if c:\n        x = x.T\n        g(t)\n    return x\n", "def f(x, c):\n    if c:\n        x = x.T\n        g(x.shape)\n    return x\n"),
]
