"""dev tool: replace every function of the working tree by its canonical form (canon.py), write the result to <out>/src and
report how many functions were rewritten.  Running the repository's test suite on <out>/src checks, on real code, that the
canonicalisation preserves behaviour:  canon_selftest.py <out> ; cd /repo && PYTHONPATH=<out>/src pytest -q
"""
import ast
import os
import shutil
import sys

sys.path.insert(0, os.path.dirname(os.path.abspath(__file__)))
import canon  # noqa: E402
import trcore  # noqa: E402

out = sys.argv[1]
dst = os.path.join(out, "src", "libertem_blobfinder")
shutil.rmtree(os.path.join(out, "src"), ignore_errors=True)
shutil.copytree(trcore.SRC, dst)
n_ok = n_no = n_same = 0
for root, _, files in os.walk(dst):
    for fn in files:
        if not fn.endswith(".py"):
            continue
        path = os.path.join(root, fn)
        mod = ast.parse(open(path).read())
        hs = canon._helpers(mod, frozenset(n.name for n in mod.body if isinstance(n, ast.FunctionDef)))
        for q, (body, idx, node) in canon.functions(mod).items():
            c = canon.Canon(node, hs)
            try:
                c.form()
            except (canon.NoCanon, RecursionError):
                n_no += 1
                continue
            doc = node.body[:1] if (node.body and isinstance(node.body[0], ast.Expr) and isinstance(node.body[0].value, ast.Constant)
                                    and isinstance(node.body[0].value.value, str)) else []
            new = doc + (c._body or [ast.Pass()])
            if ast.dump(ast.Module(body=new, type_ignores=[])) == ast.dump(ast.Module(body=node.body, type_ignores=[])):
                n_same += 1
            else:
                n_ok += 1
            node.body = new
        with open(path, "w") as f:
            f.write(ast.unparse(ast.fix_missing_locations(mod)) + "\n")
print(f"canonical form written for {n_ok} functions ({n_same} unchanged by it, {n_no} not canonicalisable)")
