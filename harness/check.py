"""Entry point of every check:  check.py <Cxx> [--tier quick|thorough] [--replay <file>]

Exit 0: property held on everything explored (KNOWN-FINDING lines possible)
Exit 1: `VIOLATION property=<id> replay=<path>[ no-failing-input-found]`
Exit 2: infrastructure failure
"""
import argparse
import importlib
import json
import os
import sys
import time
import traceback

HERE = os.path.dirname(os.path.abspath(__file__))
sys.path.insert(0, HERE)
if os.environ.get("VERIF_REPO"):  # development only: run against another checkout of the repository
    sys.path.insert(0, os.path.join(os.environ["VERIF_REPO"], "src"))
STUBS = os.path.join(HERE, "stubs")
if os.path.isdir(STUBS):
    sys.path.insert(0, STUBS)

import common  # noqa: E402
from common import log  # noqa: E402


def main():
    ap = argparse.ArgumentParser()
    ap.add_argument("prop")
    ap.add_argument("--tier", default=os.environ.get("VERIF_TIER", "quick"))
    ap.add_argument("--replay")
    ap.add_argument("--no-lean", action="store_true", help="development only: skip proofs")
    a = ap.parse_args()
    tier = "thorough" if a.tier == "thorough" else "quick"
    seed = int(os.environ.get("VERIF_SEED", "0") or 0)
    mod = importlib.import_module(f"props.{a.prop}")
    # an exception while the oracle evaluates the implementation's outputs (wrong shapes, missing keys, ...) is a failing
    # case of the property oracle, not an infrastructure failure: on the unchanged tree no oracle raises
    _orig_run_case = mod.run_case

    crumb = os.environ.get("VERIF_CRUMB")

    def _guarded_run_case(kind, params):
        if crumb:   # breadcrumb for the supervising process: the case being evaluated, should the interpreter die
            try:
                with open(crumb, "w") as fh:
                    json.dump({"phase": "search", "kind": kind, "params": common.jsonable(params)}, fh)
            except Exception:  # noqa: BLE001
                pass
        try:
            return _orig_run_case(kind, params)
        except Exception as e:  # noqa: BLE001
            return [f"evaluating the property on the implementation's outputs raised {type(e).__name__}: {e}"]
    mod.run_case = _guarded_run_case

    if a.replay:
        with open(a.replay) as f:
            rp = common.unjson(json.load(f))
        if "case" not in rp:
            print(f"replay file names a broken proof / correspondence, not an input: {rp.get('broken')}")
            return 1
        msgs = mod.run_case(rp["case"]["kind"], rp["case"]["params"])
        for m in msgs:
            print("FAIL:", m)
        print("replay:", "property violated" if msgs else "no failure on the current tree")
        return 1 if msgs else 0

    ctx = common.Ctx(a.prop, tier, seed)
    thorough = tier == "thorough"

    # ---- 1. T-layer ------------------------------------------------------------------
    import trcore
    import fragments  # noqa: F401
    lock = common.LakeLock()
    lock.__enter__()          # generation + builds of this check are one critical section
    try:
        frag_status = trcore.generate(own=set(mod.FRAGMENTS))
        # ---- 2./3. proofs + audit ----------------------------------------------------------
        if a.no_lean:
            lean = common.LeanResult()
            lean.theorems = ["(skipped)"]
        else:
            lean = common.build_and_audit(a.prop, mod.LEAN_MODULE, mod.GEN_FILES, mod.FRAGMENTS,
                                          frag_status, thorough=thorough)
        log(f"[{a.prop}] lean: {len(lean.discharged)}/{len(lean.theorems)} obligations discharged "
            f"({ctx.elapsed():.0f}s)")
        for t, r in lean.failed.items():
            log(f"[{a.prop}]   proof broken: {t}: {r}")
        for fr, r in lean.gen_broken.items():
            log(f"[{a.prop}]   fragment broken: {fr}: {r}")
        drv = None
        drv_error = None
        if getattr(mod, "DRIVER", None):
            drv = common.Driver(mod.DRIVER)
            if drv.error:
                drv_error = drv.error
                log(f"[{a.prop}]   {drv_error}")
    finally:
        lock.__exit__(None, None, None)
    # ---- 4. correspondence ---------------------------------------------------------------
    if crumb:
        with open(crumb, "w") as fh:
            json.dump({"phase": "corr"}, fh)
    if os.environ.get("VERIF_SKIP_CORR"):
        drv_error = ("the correspondence run killed the interpreter (" + os.environ["VERIF_SKIP_CORR"] +
                     "): an out-of-bounds access or abort inside the implementation")
    try:
        if (drv is None or drv.error is None) and not os.environ.get("VERIF_SKIP_CORR"):
            mod.corr(ctx, drv)
    except Exception as e:
        drv_error = f"correspondence run crashed: {type(e).__name__}: {e}"
        log(traceback.format_exc())
    finally:
        if drv:
            drv.close()
    log(f"[{a.prop}] correspondence: {ctx.corr_evals} evaluations, "
        f"{len(ctx.corr_disagreements)} disagreements ({ctx.elapsed():.0f}s)")
    tie_broken = bool(lean.failed or lean.gen_broken or drv_error or ctx.corr_disagreements)
    # ---- 5. failing-input search on the implementation --------------------------------------
    focus = [(k, p) for k, p, _ in ctx.corr_disagreements[:20]]
    search_error = None
    try:
        mod.search(ctx, boost=3 if tie_broken else 1, focus=focus)
    except Exception as e:  # noqa: BLE001
        search_error = f"failing-input search crashed: {type(e).__name__}: {e}"
        log(traceback.format_exc())
        tie_broken = True
    log(f"[{a.prop}] search: {ctx.search_evals} oracle evaluations, {len(ctx.failures)} failing "
        f"({ctx.elapsed():.0f}s)")
    # ---- 6. verdict ------------------------------------------------------------------------
    known = {k["key"]: k for k in common.load_known()
             if k["property"] == a.prop and k.get("status") == "known"}
    new, seen_known = [], {}
    for kind, params, msgs, key in ctx.failures:
        if key is not None and key in known:
            seen_known.setdefault(key, (kind, params, msgs))
        else:
            new.append((kind, params, msgs))
    for key, (kind, params, msgs) in seen_known.items():
        print(f"KNOWN-FINDING: property={a.prop} {key}: {known[key]['what']} "
              f"[e.g. {msgs[0][:160]}]")
    rc = 0
    violations = 0
    broken = {
        "proofs": lean.failed, "fragments": lean.gen_broken, "driver": drv_error, "search": search_error,
        "correspondence": [{"kind": k, "params": p, "messages": m}
                           for k, p, m in ctx.corr_disagreements[:5]],
    }
    if new:
        kind, params, msgs = new[0]
        path = common.write_replay(ctx, "input", {
            "kind": "impl-violation", "case": {"kind": kind, "params": params},
            "messages": msgs, "others": len(new) - 1, "broken": broken if tie_broken else None})
        print(f"VIOLATION property={a.prop} replay={path}")
        for m in msgs[:5]:
            print("  " + m[:300])
        rc, violations = 1, len(new)
    elif tie_broken:
        path = common.write_replay(ctx, "tie", {"kind": "tie-break", "broken": broken})
        print(f"VIOLATION property={a.prop} replay={path} no-failing-input-found")
        rc, violations = 1, 1
    extra = {"rule": mod.RULE, "search_known_findings": sorted(seen_known)}
    if hasattr(mod, "extra_coverage"):
        extra.update(mod.extra_coverage(ctx))
    common.write_evidence(ctx, lean, extra, violations, mod.ASSUMPTIONS)
    log(f"[{a.prop}] {tier} done in {ctx.elapsed():.0f}s rc={rc}")
    return rc


def supervise():
    """Run the check in a child interpreter.  If the implementation kills the child (segfault / abort after an
    out-of-bounds write, ...), that is not an infrastructure failure: the case being evaluated is a failing input."""
    import subprocess
    import tempfile
    fd, crumb = tempfile.mkstemp(prefix="verif-crumb-", suffix=".json")
    os.close(fd)
    env = dict(os.environ, VERIF_CHILD="1", VERIF_CRUMB=crumb)
    try:
        for attempt in range(2):
            pr = subprocess.run([sys.executable] + sys.argv, env=env)
            rc = pr.returncode
            if rc in (0, 1, 2):
                return rc
            try:
                with open(crumb) as fh:
                    info = json.load(fh)
            except Exception:  # noqa: BLE001
                info = {}
            how = f"signal {-rc}" if rc < 0 else f"exit status {rc}"
            if info.get("phase") == "corr" and attempt == 0:
                log(f"[supervisor] the interpreter died during the correspondence run ({how}); re-running the search only")
                env["VERIF_SKIP_CORR"] = how
                continue
            prop = [a for a in sys.argv[1:] if not a.startswith("-")][0]
            tier = "thorough" if "thorough" in sys.argv else os.environ.get("VERIF_TIER", "quick")
            tier = "thorough" if tier == "thorough" else "quick"
            seed = int(os.environ.get("VERIF_SEED", "0") or 0)
            ctx = common.Ctx(prop, tier, seed)
            if info.get("phase") == "search" and "kind" in info:
                msg = f"the interpreter was killed ({how}) while the implementation processed this input"
                path = common.write_replay(ctx, "input", {"kind": "impl-violation", "case": {"kind": info["kind"], "params": info["params"]},
                                                          "messages": [msg], "others": 0, "broken": None})
                print(f"VIOLATION property={prop} replay={path}")
                print("  " + msg)
            else:
                path = common.write_replay(ctx, "tie", {"kind": "tie-break", "broken": {"driver": f"check process died ({how})"}})
                print(f"VIOLATION property={prop} replay={path} no-failing-input-found")
            os.makedirs(common.EVID, exist_ok=True)
            with open(os.path.join(common.EVID, f"{prop}.json"), "w") as fh:
                json.dump({"property_id": prop, "tier": tier, "seed": seed, "level": "proof",
                           "coverage": {"obligations": 0, "discharged": 0, "evaluations": 0, "distinct_nontrivial": 0,
                                        "rule": "the check's interpreter was killed by the implementation; see the replay file",
                                        "samples": [info], "checker_cmd": "", "trusted_base": common.TRUSTED_BASE},
                           "assumptions": [], "wall_s": round(ctx.elapsed(), 2), "violations": 1}, fh, indent=1)
            return 1
        return 2
    finally:
        try:
            os.unlink(crumb)
        except OSError:
            pass


if __name__ == "__main__":
    if not os.environ.get("VERIF_CHILD") and "--replay" in sys.argv:
        import subprocess
        rc_ = subprocess.run([sys.executable] + sys.argv, env=dict(os.environ, VERIF_CHILD="1")).returncode
        if rc_ not in (0, 1, 2):
            print(f"FAIL: the interpreter was killed (status {rc_}) while the implementation processed the replayed input")
            print("replay: property violated")
            rc_ = 1
        sys.exit(rc_)
    if not os.environ.get("VERIF_CHILD"):
        try:
            sys.exit(supervise())
        except SystemExit:
            raise
        except Exception:
            traceback.print_exc()
            sys.exit(2)
    try:
        sys.exit(main())
    except SystemExit:
        raise
    except Exception:
        traceback.print_exc()
        sys.exit(2)
