"""Shared machinery of the checks: Lean build / audit, model driver, case runner, verdict,
evidence and replay files.  See DESIGN.md §2.2 and §5."""
from __future__ import annotations

import fcntl
import hashlib
import json
import os
import re
import subprocess
import sys
import time
from fractions import Fraction

HERE = os.path.dirname(os.path.abspath(__file__))
VERIF = os.path.dirname(HERE)
LEAN = os.path.join(VERIF, "lean")
EVID = os.path.join(VERIF, "evidence")
REPLAYS = os.path.join(VERIF, "replays")
REPO = os.environ.get("VERIF_REPO", "/repo")

ALLOWED_AXIOMS = {"propext", "Classical.choice", "Quot.sound"}
FORBIDDEN = re.compile(
    r"\bsorry\b|\badmit\b|^axiom |\bnative_decide\b|\bbv_decide\b|implemented_by|\bunsafe |maxHeartbeats 0",
    re.M)

TRUSTED_BASE = [
    "Lean 4.33.0 kernel (+ Mathlib v4.33.0 modules imported by proof files)",
    "axioms allowed: propext, Classical.choice, Quot.sound (audited with #print axioms on every run); no sorry/native_decide/bv_decide",
    "harness/trcore.py + fragments.py + kernels.py: Python-AST -> Lean translator (T-layer) and its fragment selectors",
    "harness/canon.py: a working-tree function whose canonical form (temporaries substituted, locals renamed, if/else "
    "returns merged, new one-line helpers inlined) is identical to that of its baseline version (harness/src_baseline) is "
    "read as the baseline function; assumes right-hand sides of plain assignments and tests are free of side effects "
    "(A-CANON); self-checked on every run against canon_cases.py, reported under coverage.source_normalisation",
    "harness/common.py: mapping of build errors to theorems, comparison rules of the correspondence",
    "hand-written Model/*.lean is tied to the code only by the sampled correspondence (H-layer)",
]


def log(*a):
    print(*a, file=sys.stderr, flush=True)


# --------------------------------------------------------------------------------------
# Lean
# --------------------------------------------------------------------------------------

class LakeLock:
    """exclusive lock on the Lean project (re-entrant within the process): generation of Gen/ and the builds of one check
    form one critical section, because every check regenerates Gen/ for its own fragments"""
    depth = 0
    f = None

    def __enter__(self):
        if LakeLock.depth == 0:
            os.makedirs(os.path.join(LEAN, ".lake"), exist_ok=True)
            LakeLock.f = open(os.path.join(LEAN, ".lake", "verif.lock"), "w")
            fcntl.flock(LakeLock.f, fcntl.LOCK_EX)
        LakeLock.depth += 1
        return self

    def __exit__(self, *a):
        LakeLock.depth -= 1
        if LakeLock.depth == 0:
            fcntl.flock(LakeLock.f, fcntl.LOCK_UN)
            LakeLock.f.close()
            LakeLock.f = None


def lake(args, timeout=3000):
    with LakeLock():
        p = subprocess.run(["lake"] + args, cwd=LEAN, capture_output=True, text=True, timeout=timeout)
    return p.returncode, p.stdout + p.stderr


ERR_RE = re.compile(r"^error: (\S+?\.lean):(\d+):(\d+): (.*)$", re.M)


def theorem_index(path):
    """[(line, name)] of theorem declarations in a Lean file (namespace-qualified)."""
    out = []
    ns = []
    with open(path) as f:
        for i, line in enumerate(f, 1):
            m = re.match(r"\s*namespace\s+(\S+)", line)
            if m:
                ns.append(m.group(1))
            m = re.match(r"\s*end\s+(\S+)", line)
            if m and ns and ns[-1] == m.group(1):
                ns.pop()
            m = re.match(r"\s*(?:private\s+|protected\s+)?theorem\s+(\S+)", line)
            if m:
                out.append((i, ".".join(ns + [m.group(1)])))
    return out


def strip_comments(src):
    src = re.sub(r"/-.*?-/", "", src, flags=re.S)
    return re.sub(r"--.*", "", src)


def lean_sources_for(module):
    """Transitive local imports of a module of the BlobfinderModel package -> file paths."""
    seen, todo = [], [module]
    while todo:
        m = todo.pop()
        path = os.path.join(LEAN, *m.split(".")) + ".lean"
        if path in seen or not os.path.exists(path):
            continue
        seen.append(path)
        with open(path) as f:
            for line in f:
                mm = re.match(r"import\s+(BlobfinderModel\S*)", line)
                if mm:
                    todo.append(mm.group(1))
    return seen


class LeanResult:
    def __init__(self):
        self.theorems = []          # all registered obligations
        self.failed = {}            # theorem -> reason
        self.build_ok = False
        self.audit = {}             # theorem -> [axioms]
        self.notes = []
        self.gen_broken = {}        # fragment -> reason
        self.checker_cmd = ""

    @property
    def discharged(self):
        return [t for t in self.theorems if t not in self.failed]


def build_and_audit(prop, lean_module, gen_files, fragments, frag_status, thorough=False):
    import trcore
    res = LeanResult()
    prop_path = os.path.join(LEAN, *lean_module.split(".")) + ".lean"
    # the pins of glue code (`*_wiring` theorems) live in a module of their own that nothing else imports
    wiring_module = lean_module.replace(".Properties.", ".Properties.Wiring.")
    wiring_path = os.path.join(LEAN, *wiring_module.split(".")) + ".lean"
    if not os.path.exists(wiring_path):
        wiring_module, wiring_path = None, None
    res.theorems = [n for _, n in theorem_index(prop_path)]
    if wiring_path:
        res.theorems += [n for _, n in theorem_index(wiring_path)]
    build_targets = [lean_module] + ([wiring_module] if wiring_module else [])
    res.checker_cmd = (f"cd lean && lake build {' '.join(build_targets)} && lake env lean .lake/audit/{prop}.lean"
                       + (f" && lake env leanchecker {' '.join(build_targets)}" if thorough else ""))
    # 1. fragments that did not translate
    for fr in fragments:
        st = frag_status.get(fr)
        if st is None:
            res.gen_broken[fr] = "fragment not registered"
        elif st["status"] != "ok":
            res.gen_broken[fr] = f"{st['status']}: {st['reason']}"
    # 2. generated files must type-check, else fall back to the baseline for that file
    for g in gen_files:
        rc, out = lake(["build", f"BlobfinderModel.Gen.{g}"])
        if rc != 0:
            msg = "; ".join(m.group(4) for m in ERR_RE.finditer(out))[:300]
            for fr, st in frag_status.items():
                if st["file"] == g and fr in fragments:
                    res.gen_broken[fr] = f"generated Gen/{g}.lean does not type-check: {msg}"
            try:
                trcore.restore_file_to_baseline(g)
                rc2, out2 = lake(["build", f"BlobfinderModel.Gen.{g}"])
                res.notes.append(f"Gen/{g}.lean restored to baseline (rc={rc2})")
            except Exception as e:  # no baseline: everything downstream fails
                res.notes.append(f"Gen/{g}.lean: no baseline ({e})")
    # 3. the property module
    rc, out = lake(["build", lean_module])
    res.build_ok = rc == 0
    own_files = {os.path.abspath(prop_path): theorem_index(prop_path)}

    def map_errors(out, files, all_names):
        hit_any = False
        for m in ERR_RE.finditer(out):
            f, line, msg = m.group(1), int(m.group(2)), m.group(4)
            idx = files.get(os.path.abspath(os.path.join(LEAN, f)))
            if idx is not None:
                name = None
                for ln, n in idx:
                    if ln <= line:
                        name = n
                if name:
                    res.failed.setdefault(name, f"{f}:{line}: {msg[:200]}")
                    hit_any = True
            else:
                res.notes.append(f"error outside the property file: {f}:{line}: {msg[:200]}")
        if not hit_any:
            for t in all_names:
                res.failed.setdefault(t, "a module this theorem depends on does not build: "
                                      + "; ".join(res.notes[-2:])[:300])
    if rc != 0:
        map_errors(out, own_files, res.theorems)
    elif wiring_module:
        rc_w, out_w = lake(["build", wiring_module])
        if rc_w != 0:
            res.build_ok = False
            widx = theorem_index(wiring_path)
            map_errors(out_w, {os.path.abspath(wiring_path): widx}, [n for _, n in widx])
    # 4. forbidden words
    for path in lean_sources_for(wiring_module or lean_module):
        with open(path) as f:
            src = strip_comments(f.read())
        m = FORBIDDEN.search(src)
        if m:
            for t in res.theorems:
                res.failed.setdefault(t, f"forbidden construct `{m.group(0)}` in {os.path.relpath(path, LEAN)}")
    # 5. axioms
    if res.build_ok:
        adir = os.path.join(LEAN, ".lake", "audit")
        os.makedirs(adir, exist_ok=True)
        apath = os.path.join(adir, f"{prop}.lean")
        with open(apath, "w") as f:
            f.write(f"import {lean_module}\n")
            if wiring_module:
                f.write(f"import {wiring_module}\n")
            for t in res.theorems:
                f.write(f"#print axioms {t}\n")
        with LakeLock():
            p = subprocess.run(["lake", "env", "lean", apath], cwd=LEAN, capture_output=True,
                               text=True, timeout=1800)
        txt = p.stdout + p.stderr
        for t in res.theorems:
            m = re.search(r"'" + re.escape(t) + r"' depends on axioms: \[([^\]]*)\]", txt, re.S)
            if m:
                ax = [a.strip() for a in m.group(1).replace("\n", " ").split(",") if a.strip()]
            elif re.search(r"'" + re.escape(t) + r"' does not depend on any axioms", txt):
                ax = []
            else:
                res.failed.setdefault(t, "axiom audit produced no line for this theorem")
                continue
            res.audit[t] = ax
            bad = [a for a in ax if a not in ALLOWED_AXIOMS]
            if bad:
                res.failed.setdefault(t, f"depends on non-standard axioms {bad}")
        if thorough:
            with LakeLock():
                p = subprocess.run(["lake", "env", "leanchecker"] + build_targets, cwd=LEAN,
                                   capture_output=True, text=True, timeout=3000)
            if p.returncode != 0:
                for t in res.theorems:
                    res.failed.setdefault(t, "leanchecker rejected the module: " + (p.stdout + p.stderr)[-300:])
            else:
                res.notes.append("leanchecker: ok")
    return res


# --------------------------------------------------------------------------------------
# model driver
# --------------------------------------------------------------------------------------

class Driver:
    """A compiled model driver speaking the line protocol (one op line -> one result line)."""

    def __init__(self, name):
        self.name = name
        self.proc = None
        self.error = None
        rc, out = lake(["build", name])
        if rc != 0:
            self.error = "driver does not build: " + "; ".join(
                m.group(0)[:200] for m in ERR_RE.finditer(out))[:600]
            return
        exe = os.path.join(LEAN, ".lake", "build", "bin", name)
        self.proc = subprocess.Popen([exe], stdin=subprocess.PIPE, stdout=subprocess.PIPE,
                                     text=True, bufsize=1 << 20)

    def ask(self, line):
        self.proc.stdin.write(line + "\n")
        self.proc.stdin.flush()
        out = self.proc.stdout.readline()
        if not out:
            raise RuntimeError(f"driver {self.name} died on: {line[:200]}")
        return out.rstrip("\n")

    def ask_many(self, lines):
        """Pipelined: a writer thread feeds the driver while this thread reads the answers."""
        import threading
        if not lines:
            return []

        def feed():
            CH = 500
            for i in range(0, len(lines), CH):
                self.proc.stdin.write("\n".join(lines[i:i + CH]) + "\n")
            self.proc.stdin.flush()
        t = threading.Thread(target=feed, daemon=True)
        t.start()
        res = []
        for _ in lines:
            out = self.proc.stdout.readline()
            if not out:
                raise RuntimeError(f"driver {self.name} died")
            res.append(out.rstrip("\n"))
        t.join()
        return res

    def close(self):
        if self.proc:
            try:
                self.proc.stdin.close()
                self.proc.wait(timeout=10)
            except Exception:
                self.proc.kill()


def run_in_mode(prop, env_extra, cases, timeout=1500):
    """run `run_case` of a property module on (kind, params) cases in a subprocess with extra environment
    (numba execution mode); returns list of message lists"""
    env = dict(os.environ)
    env.update(env_extra)
    inp = "\n".join(json.dumps(jsonable({"kind": k, "params": p})) for k, p in cases) + "\n"
    pr = subprocess.run([sys.executable, os.path.join(HERE, "worker.py"), prop], input=inp, capture_output=True,
                        text=True, env=env, timeout=timeout)
    out = [json.loads(l) for l in pr.stdout.splitlines() if l.startswith("[")]
    if len(out) != len(cases):
        raise RuntimeError(f"worker for {prop} {env_extra} returned {len(out)} of {len(cases)} results: {pr.stderr[-400:]}")
    return out


def rat(x):
    """exact rational text of a Python / NumPy number"""
    fr = Fraction(x) if not isinstance(x, Fraction) else x
    return str(fr.numerator) if fr.denominator == 1 else f"{fr.numerator}/{fr.denominator}"


def unrat(s):
    return Fraction(s)


def opt(v):
    return "N" if v is None else str(int(v))


# --------------------------------------------------------------------------------------
# run context, evidence, verdict
# --------------------------------------------------------------------------------------

def jsonable(o, exact=True):
    """JSON form; exact=True keeps floats bit-exact (hex) for replay files"""
    import numpy as np
    if isinstance(o, dict):
        return {str(k): jsonable(v, exact) for k, v in o.items()}
    if isinstance(o, (list, tuple, set)):
        return [jsonable(v, exact) for v in o]
    if isinstance(o, np.ndarray):
        return {"__nd__": o.dtype.str, "shape": list(o.shape),
                "data": [x.hex() if isinstance(x, float) else x for x in o.ravel().tolist()]}
    if isinstance(o, np.generic):
        return jsonable(o.item(), exact)
    if isinstance(o, float):
        if not exact:
            return o if o == o and abs(o) != float("inf") else str(o)
        return {"__f__": o.hex()}
    if isinstance(o, Fraction):
        return {"__q__": str(o)}
    if isinstance(o, (bytes, bytearray)):
        return {"__b__": bytes(o).hex()}
    return o


def unjson(o):
    import numpy as np
    if isinstance(o, dict):
        if "__nd__" in o:
            dt = np.dtype(o["__nd__"])
            data = [float.fromhex(x) if isinstance(x, str) else x for x in o["data"]]
            return np.array(data, dtype=dt).reshape(o["shape"])
        if "__f__" in o:
            return float.fromhex(o["__f__"])
        if "__q__" in o:
            return Fraction(o["__q__"])
        if "__b__" in o:
            return bytes.fromhex(o["__b__"])
        return {k: unjson(v) for k, v in o.items()}
    if isinstance(o, list):
        return [unjson(v) for v in o]
    return o


def case_hash(kind, params):
    return hashlib.sha1(json.dumps([kind, jsonable(params)], sort_keys=True).encode()).hexdigest()[:16]


def brief(params, limit=400):
    s = json.dumps(jsonable(params), sort_keys=True)
    return s if len(s) <= limit else s[:limit] + "…"


class Ctx:
    def __init__(self, prop, tier, seed):
        self.prop, self.tier, self.seed = prop, tier, seed
        self.t0 = time.time()
        self.corr_evals = 0
        self.corr_nontrivial = set()
        self.corr_disagreements = []     # (kind, params, [msgs])
        self.search_evals = 0
        self.search_nontrivial = set()
        self.failures = []               # (kind, params, [msgs], known_key|None)
        self.samples = []
        self.hist = {}
        self.notes = []

    def corr_case(self, kind, params, msgs, nontrivial=True, hkey=None):
        """record one model-vs-implementation comparison"""
        self.corr_evals += 1
        if nontrivial:
            self.corr_nontrivial.add(hkey if hkey is not None else case_hash(kind, params))
            if sum(1 for s in self.samples if "corr" in s) < 5:
                self.samples.append({"corr": kind, "params": brief(params)})
        if msgs:
            self.corr_disagreements.append((kind, params, list(msgs)))

    def oracle_case(self, kind, params, msgs, nontrivial=True, key=None, hkey=None):
        """record one evaluation of the property oracle on the implementation"""
        self.search_evals += 1
        if nontrivial:
            self.search_nontrivial.add(hkey if hkey is not None else case_hash(kind, params))
            if sum(1 for s in self.samples if "oracle" in s) < 5:
                self.samples.append({"oracle": kind, "params": brief(params)})
        if msgs:
            self.failures.append((kind, params, list(msgs), key))

    def count(self, key, n=1):
        self.hist[key] = self.hist.get(key, 0) + n

    def elapsed(self):
        return time.time() - self.t0


def load_known():
    path = os.path.join(VERIF, "known_findings.json")
    if not os.path.exists(path):
        return []
    with open(path) as f:
        return json.load(f)["findings"]


def write_replay(ctx, tag, payload):
    os.makedirs(REPLAYS, exist_ok=True)
    path = os.path.join(REPLAYS, f"{ctx.prop}-{ctx.tier}-seed{ctx.seed}-{tag}.json")
    payload = dict(payload)
    payload.update({"property": ctx.prop, "tier": ctx.tier, "seed": ctx.seed})
    with open(path, "w") as f:
        json.dump(jsonable(payload), f, indent=1)
    return path


def _canon_report():
    """what canon.py did to the sources the fragments of this check were read from (functions handed to the extractors
    as their baseline AST because their canonical forms are identical, and functions that really differ)"""
    try:
        import canon
        return {rel: {k: v for k, v in rep.items() if v} for rel, rep in canon.report().items()}
    except Exception as e:      # noqa: BLE001
        return {"error": str(e)}


def write_evidence(ctx, lean, extra_cov, violations, assumptions):
    os.makedirs(EVID, exist_ok=True)
    cov = {
        "obligations": len(lean.theorems),
        "discharged": len(lean.discharged),
        "checker_cmd": lean.checker_cmd,
        "trusted_base": TRUSTED_BASE,
        "theorems": lean.theorems,
        "failed_theorems": lean.failed,
        "axioms": {t: a for t, a in lean.audit.items()},
        "fragments_broken": lean.gen_broken,
        "source_normalisation": _canon_report(),
        "evaluations": ctx.corr_evals + ctx.search_evals,
        "distinct_nontrivial": len(ctx.corr_nontrivial) + len(ctx.search_nontrivial),
        "correspondence_evaluations": ctx.corr_evals,
        "correspondence_distinct_nontrivial": len(ctx.corr_nontrivial),
        "correspondence_disagreements": len(ctx.corr_disagreements),
        "search_evaluations": ctx.search_evals,
        "search_distinct_nontrivial": len(ctx.search_nontrivial),
        "search_failures": len(ctx.failures),
        "samples": ctx.samples[:12],
        "distribution": ctx.hist,
        "notes": lean.notes + ctx.notes,
    }
    cov.update(extra_cov)
    ev = {
        "property_id": ctx.prop, "tier": ctx.tier, "seed": ctx.seed, "level": "proof",
        "coverage": cov, "assumptions": assumptions, "wall_s": round(ctx.elapsed(), 2),
        "violations": violations,
    }
    with open(os.path.join(EVID, f"{ctx.prop}.json"), "w") as f:
        json.dump(jsonable(ev, exact=False), f, indent=1)
