"""Mutation drill: apply small source mutations to /repo one at a time, run the listed quick checks, record whether each
reports a violation and whether a failing input was found; always restores /repo and the evidence directory.
usage: drill.py [filter-substring]"""
import json
import os
import shutil
import subprocess
import sys
import tempfile

REPO = os.environ.get("VERIF_REPO", "/repo")
VERIF = os.path.dirname(os.path.dirname(os.path.abspath(__file__)))
SRC = "src/libertem_blobfinder/"
M = [
    # (name, file, old, new, [properties])
    ("blockcount_no_tail", "base/correlation.py", "    block_count = (len(peaks) - 1) // buf_count + 1\n    for block in range(block_count):\n        start = block * buf_count\n        stop = min((block + 1)", "    block_count = max(len(peaks) // buf_count, 1)\n    for block in range(block_count):\n        start = block * buf_count\n        stop = min((block + 1)", ["C08"]),
    ("global_min_logscale", "base/correlation.py", "m = np.min(crop_bufs, axis=(-1, -2)) - 1\n    np.log(crop_bufs - m[:, np.newaxis, np.newaxis], out=crop_bufs)", "m = np.min(crop_bufs) - 1\n    np.log(crop_bufs - m, out=crop_bufs)", ["C08", "C03"]),
    ("drop_log_fast", "base/correlation.py", "        log_scale_cropbufs_inplace(crop_bufs[:size])\n", "", ["C03", "C14"]),
    ("fftshift_fast", "base/correlation.py", "    corrs = fft.ifftshift(\n        fft.irfft2(\n            corrspecs,", "    corrs = fft.fftshift(\n        fft.irfft2(\n            corrspecs,", ["C03", "C01"]),
    ("fftshift_full", "base/correlation.py", "    corr = fft.ifftshift(\n        fft.irfft2(\n            corrspec, s=frame_buf", "    corr = fft.fftshift(\n        fft.irfft2(\n            corrspec, s=frame_buf", ["C03", "C01"]),
    ("no_s_full", "base/correlation.py", "corrspec, s=frame_buf.shape[-2:],", "corrspec,", ["C03", "C01"]),
    ("rmin_1", "base/correlation.py", "r_min=1.5, r_max=np.inf", "r_min=1.0, r_max=np.inf", ["C03"]),
    ("refine_radius_3", "base/correlation.py", "refine_center(center, 2, corr)", "refine_center(center, 3, corr)", ["C03", "C04"]),
    ("elev_no_floor", "base/correlation.py", "    return max(0, result)", "    return result", ["C04", "C03"]),
    ("swap_shift_xy", "base/correlation.py", "    return relative_center + anchor - np.array((crop_size, crop_size))", "    return relative_center + anchor[::-1] - np.array((crop_size, crop_size))", ["C03", "C14", "C04"]),
    ("crop_outside_ge", "base/correlation.py", "            y_outside = yy < 0 or yy >= fy", "            y_outside = yy < 0 or yy > fy", ["C13", "C04"]),
    ("crop_coord_off", "base/correlation.py", "    def frame_coord_x(peak, x):\n        return x + peak[1] - crop_size\n\n    fy, fx = frame.shape\n    for i in range(len(peaks)):\n        peak = peaks[i]\n        for y", "    def frame_coord_x(peak, x):\n        return x + peak[1] - crop_size + 1\n\n    fy, fx = frame.shape\n    for i in range(len(peaks)):\n        peak = peaks[i]\n        for y", ["C13", "C03"]),
    ("slice_no_zero", "base/correlation.py", "        out_crop_bufs[i] = 0\n", "", ["C13", "C09", "C10"]),
    ("slice_cut_gt", "base/correlation.py", "        if cut_y >= 0:\n            cut_y = None", "        if cut_y > 0:\n            cut_y = None", ["C13"]),
    ("bufcount_nomax", "base/correlation.py", "    return min(max(1, limit // full_size), n_peaks)", "    return min(limit // full_size, n_peaks)", ["C08"]),
    ("upsample_region", "base/correlation.py", "np.ceil(upsample_factor * 1.5)", "np.ceil(upsample_factor * 2.5)", ["C04", "C02"]),
    ("log_no_plus1", "base/correlation.py", " - np.min(data) + 1, out=out)", " - np.min(data) + 2, out=out)", ["C03", "C15"]),
    ("frames_full_uint16", "common/correlation.py", "dtype=np.int16)\n    refineds = np.zeros((len(frames), len(peaks), 2), dtype=np.float32)\n    heights = np.zeros((len(frames), len(peaks)), dtype=np.float32)\n    elevations = np.zeros((len(frames), len(peaks)), dtype=np.float32)\n\n    frame_buf", "dtype=np.uint16)\n    refineds = np.zeros((len(frames), len(peaks), 2), dtype=np.float32)\n    heights = np.zeros((len(frames), len(peaks)), dtype=np.float32)\n    elevations = np.zeros((len(frames), len(peaks)), dtype=np.float32)\n\n    frame_buf", ["C04"]),
    ("fast_bufs_dtype", "common/correlation.py", "np.result_type(frames.dtype, np.float32)", "frames.dtype", ["C15"]),
    ("getcorr_no_s", "common/correlation.py", "correlation.fft.irfft2(corrspec, s=sum_result.shape)", "correlation.fft.irfft2(corrspec)", ["C07"]),
    ("mask_center_ceil", "common/patterns.py", "            centerY=sig_shape[0] // 2,\n            centerX=sig_shape[1] // 2,\n            imageSizeY=sig_shape[0],\n            imageSizeX=sig_shape[1],\n            radius=self.radius,\n            antialiased=True,\n        )\n\n\nclass RadialGradient", "            centerY=(sig_shape[0] + 1) // 2,\n            centerX=(sig_shape[1] + 1) // 2,\n            imageSizeY=sig_shape[0],\n            imageSizeX=sig_shape[1],\n            radius=self.radius,\n            antialiased=True,\n        )\n\n\nclass RadialGradient", ["C16", "C01"]),
    ("mask_xy_swap", "common/patterns.py", "            centerY=sig_shape[0] // 2,\n            centerX=sig_shape[1] // 2,\n            imageSizeY=sig_shape[0],\n            imageSizeX=sig_shape[1],\n            radius=self.radius_outer,", "            centerY=sig_shape[1] // 2,\n            centerX=sig_shape[0] // 2,\n            imageSizeY=sig_shape[0],\n            imageSizeX=sig_shape[1],\n            radius=self.radius_outer,", ["C16", "C14"]),
    ("ut_before_old", "common/patterns.py", "            before = abs(target // 2 - source // 2)", "            before = extra // 2", ["C16", "C01"]),
    ("ctor_guard_le", "common/patterns.py", "        if radius_outer <= radius:\n            raise ValueError(f\"radius_outer {radius_outer} <= radius {radius}, must be larger.\")\n        if search < radius_outer:\n            raise ValueError(\n                f\"search {search} < radius_outer {radius_outer}, \"\n                \"search must contain the pattern.\"\n            )\n        self.radius = radius\n        self.radius_outer = radius_outer\n        super().__init__(search=search)", "        if radius_outer < radius:\n            raise ValueError(f\"radius_outer {radius_outer} <= radius {radius}, must be larger.\")\n        if search < radius_outer:\n            raise ValueError(\n                f\"search {search} < radius_outer {radius_outer}, \"\n                \"search must contain the pattern.\"\n            )\n        self.radius = radius\n        self.radius_outer = radius_outer\n        super().__init__(search=search)", ["C16"]),
    ("crop_size_floor", "common/patterns.py", "        return int(np.ceil(self.search))", "        return int(np.floor(self.search))", ["C16"]),
    ("fv_offset", "common/patterns.py", "        offsetX=peaks[:, 1] - crop_size,", "        offsetX=peaks[:, 1] - crop_size - 1,", ["C19"]),
    ("bins_half", "base/masks.py", "width/2 + 0.5 - diff", "width/2 + 0.4 - diff", ["C18", "C16"]),
    ("patch_always", "base/masks.py", "        if inside and r[yy * imageSizeX + xx] < 0.5:", "        if inside:", ["C18"]),
    ("stamp_sel_le", "base/masks.py", "(coord_y < imageSizeY) * (coord_x >= 0)", "(coord_y <= imageSizeY - 1) * (coord_x > 0)", ["C19"]),
    ("bs_sum_swap", "base/masks.py", "    mask = mask_1 - mask_2*sum_1/sum_2", "    mask = mask_1 - mask_2*sum_2/sum_1", ["C16"]),
    ("rgbs_transition", "base/masks.py", "    result[transition] = (r0 - r[transition]) / (delta/2)", "    result[transition] = (r0 - r[transition]) / delta", ["C16"]),
    ("sc_bbox_even", "base/masks.py", "    bbox = int(2*np.ceil(radius) + 1)", "    bbox = int(2*np.ceil(radius))", ["C19"]),
    ("within_le", "base/utils.py", "(peaks < (fy - r, fx - r))", "(peaks <= (fy - r, fx - r))", ["C17", "C11"]),
    ("within_swap", "base/utils.py", "(peaks < (fy - r, fx - r))", "(peaks < (fx - r, fy - r))", ["C17"]),
    ("min_weight_gt", "common/gridmatching.py", "        filt = corr.peak_elevations >= self.min_weight\n\n        selection", "        filt = corr.peak_elevations > self.min_weight\n\n        selection", ["C05"]),
    ("tol_le", "common/gridmatching.py", "        matched_selector = errors < self.tolerance", "        matched_selector = errors <= self.tolerance", ["C05"]),
    ("no_relax", "common/gridmatching.py", "        scaled_diffs = diffs / (np.maximum(1, np.abs(indices))**0.5)", "        scaled_diffs = diffs / np.maximum(1, np.abs(indices))", ["C05"]),
    ("wopt_no_sqrt", "common/gridmatching.py", "        Aw = indices * np.sqrt(self.peak_elevations[:, np.newaxis])\n        Bw = self.refineds * np.sqrt(W.T)", "        Aw = indices * self.peak_elevations[:, np.newaxis]\n        Bw = self.refineds * W.T", ["C06", "C05"]),
    ("error_unweighted", "common/gridmatching.py", "            return (diff * self.peak_elevations).mean() / self.peak_elevations.mean()", "            return diff.mean()", ["C06"]),
    ("drop_zero_all", "common/gridmatching.py", "            nz = np.any(indices != 0, axis=1)", "            nz = np.all(indices != 0, axis=1)", ["C17"]),
    ("transf_center", "common/gridmatching.py", "    return B[:, 0:2] + center", "    return B[:, 0:2] - center", ["C20"]),
    ("find_center_diff", "common/gridmatching.py", "    diff[2, 2] = 0\n", "", ["C20"]),
    ("fullm_zero_unmatched", "common/fullmatch.py", "        if matches:\n            new_selector[zero_selector] = False", "        if not matches:\n            new_selector[zero_selector] = False", ["C12"]),
    ("fullm_minmatch", "common/fullmatch.py", "            if np.count_nonzero(new_selector) >= self.min_match:", "            if np.count_nonzero(new_selector) > self.min_match + 1:", ["C12"]),
    ("fullm_size_filter", "common/fullmatch.py", "    select = (polar[:, 0] >= min_delta) * (polar[:, 0] <= max_delta)", "    select = (polar[:, 0] >= min_delta) * (polar[:, 0] < max_delta / 2)", ["C12"]),
    ("udf_no_round_shift", "udf/correlation.py", "            frame=frame, peaks=self.get_peaks() + np.round(self.get_zero_shift()).astype(int),\n            out_centers=centers, out_refineds=refineds,", "            frame=frame, peaks=self.get_peaks() + np.floor(self.get_zero_shift()).astype(int),\n            out_centers=centers, out_refineds=refineds,", ["C10"]),
    ("udf_zero_shift_index", "udf/correlation.py", "            if np.ndim(result) > 1:\n                result = result[index]", "            result = result[index]", ["C11"]),
    ("refine_margin", "udf/refinement.py", "        r=match_pattern.search, indices=indices", "        r=match_pattern.radius, indices=indices", ["C11"]),
    ("refine_dispatch", "udf/refinement.py", "    elif correlation == 'fullframe':\n        method = FullFrameCorrelationUDF", "    elif correlation == 'fullframe':\n        method = FastCorrelationUDF", ["C11"]),
    ("integration_mask", "udf/integration.py", "            self.task_data.crop_bufs * self.task_data.pattern, axis=(-1, -2)", "            self.task_data.crop_bufs * self.task_data.pattern.T, axis=(-1, -2)", ["C11"]),
]


def main():
    flt = sys.argv[1] if len(sys.argv) > 1 else ""
    results = []
    for name, f, old, new, props in M:
        if flt and flt not in name:
            continue
        path = os.path.join(REPO, SRC, f)
        src = open(path).read()
        if src.count(old) != 1:
            results.append({"mutation": name, "error": f"pattern occurs {src.count(old)} times"})
            print(name, "PATTERN", src.count(old), flush=True)
            continue
        bk = tempfile.mkdtemp()
        shutil.copytree(os.path.join(VERIF, "evidence"), os.path.join(bk, "evidence"))
        try:
            open(path, "w").write(src.replace(old, new))
            for p in props:
                pr = subprocess.run([os.path.join(VERIF, "check"), p, "--tier", "quick"], capture_output=True, text=True, timeout=1800)
                viol = [ln for ln in pr.stdout.splitlines() if ln.startswith("VIOLATION")]
                kind = "missed"
                if viol:
                    kind = "no-failing-input-found" if "no-failing-input-found" in viol[0] else "failing-input"
                results.append({"mutation": name, "property": p, "rc": pr.returncode, "result": kind})
                print(f"{name:24s} {p} rc={pr.returncode} {kind}", flush=True)
        finally:
            open(path, "w").write(src)
            shutil.rmtree(os.path.join(VERIF, "evidence"))
            shutil.copytree(os.path.join(bk, "evidence"), os.path.join(VERIF, "evidence"))
            shutil.rmtree(bk)
    subprocess.run(["/venv/bin/python", os.path.join(VERIF, "harness", "translate.py")], capture_output=True)
    with open(os.path.join(VERIF, "seeded", "DRILL.json"), "w") as fh:
        json.dump(results, fh, indent=1)


if __name__ == "__main__":
    main()
