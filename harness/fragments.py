"""Fragment table of the T-layer (see DESIGN.md §3.1): which pieces of
/repo/src/libertem_blobfinder become which generated Lean definitions."""
import ast

from trcore import (  # noqa: F401
    fragment, find_def, stmts_of, tr, tr_block, Env, lean_def, fn_to_def, find_assign,
    find_calls, expr_def, default_of, Missing, Untranslatable, INT, RAT, BOOL, OPTINT, coerce,
    rat_lit,
)

BC = "base/correlation.py"
CC = "common/correlation.py"
PT = "common/patterns.py"
MK = "base/masks.py"
UT = "base/utils.py"
GM = "common/gridmatching.py"
FM = "common/fullmatch.py"
UC = "udf/correlation.py"
UR = "udf/refinement.py"
UI = "udf/integration.py"


def lean_str(s):
    s = " ".join(s.split())
    return '"' + s.replace("\\", "\\\\").replace('"', '\\"') + '"'


def lean_bool(b):
    return "true" if b else "false"


def for_loops(fn):
    """Nested `for` chain starting at the first top-level for of fn -> list of For nodes."""
    chain = []
    body = stmts_of(fn)
    while True:
        nxt = [s for s in body if isinstance(s, ast.For)]
        if not nxt:
            break
        chain.append(nxt[0])
        body = nxt[0].body
    return chain


# ======================================================================================
# Gen/Crop.lean  --  crop_disks_from_frame (per pixel) and crop_disks_from_frame_slicing
# ======================================================================================

CROP_SUBST = {"peak[0]": ("peak0", INT), "peak[1]": ("peak1", INT)}


def _coord(outer, inner, lean_name):
    fn = find_def(BC, f"{outer}.{inner}")
    rets = [s for s in stmts_of(fn) if isinstance(s, ast.Return)]
    if len(rets) != 1 or len(stmts_of(fn)) != 1:
        raise Untranslatable(f"{inner} is not a single return")
    argnames = [a.arg for a in fn.args.args]
    if len(argnames) != 2:
        raise Untranslatable(f"{inner} arity")
    coordvar = argnames[1]
    subst = {f"{argnames[0]}[0]": ("peak0", INT), f"{argnames[0]}[1]": ("peak1", INT)}
    params = [("crop_size", INT), ("peak0", INT), ("peak1", INT), (coordvar, INT)]
    return expr_def(lean_name, params, rets[0].value, subst=subst,
                    doc=f"`{outer}.{inner}(peak, {coordvar})`")


@fragment("Crop", "crop_cell")
def _():
    """the per-pixel back-end as a function of one buffer cell (whole-kernel translation, see kernels.py): local helper
    functions are inlined, names are free, either branch order of the final if/else is accepted"""
    import kernels as K
    return K.cell_kernel_def(
        BC, "crop_disks_from_frame", "crop_cell",
        "value written to `out_crop_bufs[i, y, x]` by `crop_disks_from_frame` for peak `(peak0, peak1)`; the loops run over "
        "`range(len(peaks))`, `range(shape[1])`, `range(shape[2])` (checked by the translator)")


@fragment("Crop", "sl_bounds")
def _():
    """the slicing back-end: slice bounds of the store `out[i, ty, tx] = frame[sy, sx]` and the zero fill (whole-kernel
    translation, see kernels.py: local and module-level helpers inlined, free names)"""
    import kernels as K
    return K.slice_kernel_def(BC, "crop_disks_from_frame_slicing")


# ======================================================================================
# Gen/Blocks.lean  --  get_buf_count and the block loops of process_frame_fast / _full
# ======================================================================================

@fragment("Blocks", "get_buf_count")
def _():
    return fn_to_def(
        BC, "get_buf_count", "get_buf_count",
        [("crop_size", INT), ("n_peaks", INT), ("itemsize", INT), ("limit", INT)],
        subst={"dtype.itemsize": ("itemsize", INT)}, skip=("dtype = np.dtype(dtype)",))


def _block_loop(funcname, prefix, bufcount_expected):
    fn = find_def(BC, funcname)
    bc = find_assign(fn, "block_count")
    subst = {"len(peaks)": ("n_peaks", INT)}
    out = expr_def(f"{prefix}_block_count", [("n_peaks", INT), ("buf_count", INT)], bc.value,
                   subst=subst, doc=f"`block_count` of `{funcname}`")
    loops = [s for s in stmts_of(fn) if isinstance(s, ast.For)]
    if len(loops) != 1 or ast.unparse(loops[0].target) != "block" \
            or ast.unparse(loops[0].iter) != "range(block_count)":
        raise Untranslatable(f"{funcname}: block loop is not `for block in range(block_count)`")
    lp = loops[0]
    if bufcount_expected is not None:
        b = find_assign(fn, "buf_count")
        if ast.unparse(b.value) != bufcount_expected:
            raise Untranslatable(f"{funcname}: buf_count = {ast.unparse(b.value)}")
    params = [("n_peaks", INT), ("buf_count", INT), ("block", INT)]
    st = find_assign(fn, "start", within=lp)
    sp = find_assign(fn, "stop", within=lp)
    sz = find_assign(fn, "size", within=lp)
    out += "\n" + expr_def(f"{prefix}_start", params, st.value, subst=subst)
    out += "\n" + expr_def(f"{prefix}_stop", params, sp.value, subst=subst)
    out += "\n" + expr_def(f"{prefix}_size", [("start", INT), ("stop", INT)], sz.value, subst=subst)
    # every sliced array in the loop: name -> slice text (fingerprint of the wiring)
    uses = set()
    for node in ast.walk(lp):
        if isinstance(node, ast.Subscript) and isinstance(node.slice, ast.Slice):
            uses.add((ast.unparse(node.value), ast.unparse(node.slice)))
    items = ", ".join(f"({lean_str(a)}, {lean_str(b)})" for a, b in sorted(uses))
    out += (f"\n/-- every `name[slice]` occurring in the block loop of `{funcname}` -/\n"
            f"def {prefix}_slices : List (String × String) := [{items}]\n")
    # sequence of calls in the loop body (wiring order)
    calls = []
    for s in lp.body:
        for node in ast.walk(s):
            if isinstance(node, ast.Call) and isinstance(node.func, ast.Name) \
                    and node.func.id not in ("min", "max", "int", "len", "range"):
                calls.append(node.func.id)
                break
            if isinstance(node, ast.Call) and ast.unparse(node.func).startswith("sparseconverter"):
                break
    out += (f"\n/-- names of the functions called by the statements of the block loop, in order -/\n"
            f"def {prefix}_calls : List String := [{', '.join(lean_str(c) for c in calls)}]\n")
    return out


@fragment("Blocks", "fast_blocks")
def _():
    return _block_loop("process_frame_fast", "fast", "len(crop_bufs)")


@fragment("Blocks", "full_blocks")
def _():
    return _block_loop("process_frame_full", "full", None)


@fragment("Blocks", "upsample_switch")
def _():
    out = ""
    for funcname, prefix in (("process_frame_fast", "fast"), ("process_frame_full", "full")):
        fn = find_def(BC, funcname)
        first = stmts_of(fn)[0]
        if not (isinstance(first, ast.If) and ast.unparse(first.test) == "upsample is True"
                and len(first.body) == 1 and isinstance(first.body[0], ast.Assign)
                and ast.unparse(first.body[0].targets[0]) == "upsample"):
            raise Untranslatable(f"{funcname}: `if upsample is True: upsample = ...` not first")
        v, t = tr(first.body[0].value, Env())
        out += f"def {prefix}_upsample_default : Int := {v}\n"
        ifs = [n for n in ast.walk(fn) if isinstance(n, ast.If)
               and any(isinstance(c, ast.Call) and ast.unparse(c.func) == "evaluate_upsampling"
                       for b in n.body for c in ast.walk(b))]
        if len(ifs) != 1:
            raise Missing(f"{funcname}: guarded evaluate_upsampling call")
        env = Env(subst={"int(upsample)": ("upsample", INT)}, vars={"upsample": ("upsample", INT)})
        c, tc = tr(ifs[0].test, env)
        out += (f"/-- guard of the upsampling step of `{funcname}` -/\n"
                f"def {prefix}_upsample_on (upsample : Int) : Bool := {c}\n")
    return out


@fragment("Blocks", "full_buffers")
def _():
    fn = find_def(BC, "process_frame_full")
    cb = find_assign(fn, "crop_bufs")
    fresh = isinstance(cb.value, ast.Call) and ast.unparse(cb.value.func) in ("np.zeros", "zeros")
    calls = find_calls(fn, "log_scale")
    out_kw = ""
    if len(calls) == 1:
        for kw in calls[0].keywords:
            if kw.arg == "out":
                out_kw = ast.unparse(kw.value)
        arg0 = ast.unparse(calls[0].args[0]) if calls[0].args else ""
    else:
        raise Missing("log_scale call in process_frame_full")
    spec = find_assign(fn, "spec_part")
    return (
        "/-- `process_frame_full` allocates its crop buffers itself (`np.zeros`) on every call -/\n"
        f"def full_crop_bufs_fresh : Bool := {lean_bool(fresh)}\n"
        "/-- `log_scale(<arg>, out=<out>)` and the array that is Fourier transformed -/\n"
        f"def full_log_arg : String := {lean_str(arg0)}\n"
        f"def full_log_out : String := {lean_str(out_kw)}\n"
        f"def full_fft_input : String := {lean_str(ast.unparse(spec.value))}\n")


# ======================================================================================
# Gen/Masks.lean  --  base/masks.py
# ======================================================================================
import trcore as _trcore  # noqa: E402

_trcore.GEN_IMPORTS["Masks"] = ["BlobfinderModel.Model.Scalar"]
_trcore.GEN_IMPORTS["Patterns"] = ["BlobfinderModel.Model.Scalar"]


def _loop_assign(fn, target):
    """assignment to `target` inside the (first) for loop of fn"""
    loops = [n for n in ast.walk(fn) if isinstance(n, ast.For)]
    if not loops:
        raise Missing(f"loop in {fn.name}")
    return find_assign(fn, target, within=loops[0]), loops[0]


@fragment("Masks", "bin_val")
def _():
    fn = find_def(MK, "radial_bins")
    d, lp = _loop_assign(fn, "diff")
    v, _ = _loop_assign(fn, "vals")
    params = [("width", RAT), ("r0", RAT), ("r", RAT)]
    env = Env(vars={n: (n, t) for n, t in params})
    dt, dty = tr(d.value, env)
    env.vars["diff"] = ("diff", dty)
    vt, vty = tr(v.value, env)
    return lean_def("bin_val", params, RAT, [f"let diff : {dty} := {dt}"], coerce(vt, vty, RAT),
                    "value of one radial bin at distance `r`: loop body of `radial_bins`")


@fragment("Masks", "bin_layout")
def _():
    fn = find_def(MK, "radial_bins")
    w = find_assign(fn, "width")
    out = expr_def("bin_width", [("radius", RAT), ("radius_inner", RAT), ("n_bins", INT)], w.value,
                   doc="`width` of `radial_bins`")
    _, lp = _loop_assign(fn, "diff")
    it = lp.iter
    if isinstance(it, ast.Call) and ast.unparse(it.func) == "enumerate":
        it = it.args[0]
    out += ("\n/-- the iterable of bin centres `r0` (pinned textually; its value is modelled as\n"
            "`radius_inner + k*width + width/2` and compared with NumPy by the correspondence) -/\n"
            f"def bin_centers_expr : String := {lean_str(ast.unparse(it))}\n")
    nb = [n for n in ast.walk(fn) if isinstance(n, ast.If) and ast.unparse(n.test) == "n_bins is None"]
    if len(nb) != 1:
        raise Missing("default n_bins")
    out += f"def bin_default_n_expr : String := {lean_str(ast.unparse(nb[0].body[0].value))}\n"
    return out


@fragment("Masks", "bin_patch")
def _():
    fn = find_def(MK, "radial_bins")
    pi = find_assign(fn, "patch_index", nth=0)
    if ast.unparse(pi.value) != "None":
        raise Untranslatable("patch_index is not initialised with None")
    outer = [n for n in ast.walk(fn) if isinstance(n, ast.If)
             and any(isinstance(s, ast.Assign) and ast.unparse(s.targets[0]) == "yy" for s in n.body)]
    if len(outer) != 1:
        raise Missing("the centre patch block of radial_bins")
    outer = outer[0]
    env = Env(vars={"radius_inner": ("radius_inner", RAT)})
    c1, _ = tr(outer.test, env)
    out = f"/-- first guard of the centre patch -/\ndef patch_guard (radius_inner : Rat) : Bool := {c1}\n"
    asg = {ast.unparse(s.targets[0]): s for s in outer.body if isinstance(s, ast.Assign)}
    for k, want in (("yy", "int(np.round(centerY))"), ("xx", "int(np.round(centerX))")):
        if k not in asg or ast.unparse(asg[k].value) != want:
            raise Untranslatable(f"patch pixel {k} is not {want}")
    env2 = Env(vars={n: (n, INT) for n in ("yy", "xx", "imageSizeY", "imageSizeX")})
    ins, _ = tr(asg["inside"].value, env2)
    out += ("/-- the rounded centre pixel lies inside the image -/\n"
            f"def patch_inside (yy xx imageSizeY imageSizeX : Int) : Bool := {ins}\n")
    inner = [s for s in outer.body if isinstance(s, ast.If)]
    if len(inner) != 1:
        raise Untranslatable("patch block structure")
    env3 = Env(subst={"r[yy * imageSizeX + xx]": ("rc", RAT)}, vars={"inside": ("inside", BOOL)})
    c3, _ = tr(inner[0].test, env3)
    out += ("/-- the patch is applied iff … (`rc` = distance of the rounded centre pixel from the centre) -/\n"
            f"def patch_applies (inside : Bool) (rc : Rat) : Bool := {c3}\n")
    if len(inner[0].body) != 1 or ast.unparse(inner[0].body[0]) != "patch_index = yy * imageSizeX + xx":
        raise Untranslatable("patch_index assignment")
    # the store into vals: `if i == 0 and patch_index is not None: vals[patch_index] = <value>`
    _, lp = _loop_assign(fn, "diff")
    stores = [n for n in ast.walk(lp) if isinstance(n, ast.Assign)
              and ast.unparse(n.targets[0]) == "vals[patch_index]"]
    if len(stores) != 1:
        raise Missing("store of the patch value")
    vt, vty = tr(stores[0].value, Env(vars={"radius_inner": ("radius_inner", RAT)}))
    out += f"def patch_value (radius_inner : Rat) : Rat := {coerce(vt, vty, RAT)}\n"
    guard = [n for n in ast.walk(lp) if isinstance(n, ast.If) and stores[0] in n.body]
    if len(guard) != 1:
        raise Untranslatable("guard of the patch store")
    out += f"def patch_store_guard : String := {lean_str(ast.unparse(guard[0].test))}\n"
    # order: the patch store precedes every normalisation `vals /= s` in the loop body
    norm_lines = [n.lineno for n in ast.walk(lp) if isinstance(n, ast.AugAssign)
                  and ast.unparse(n.target) == "vals" and isinstance(n.op, ast.Div)]
    sel_lines = [n.lineno for n in ast.walk(lp) if isinstance(n, ast.Assign)
                 and ast.unparse(n.targets[0]) == "select"]
    before = all(stores[0].lineno < ln for ln in norm_lines + sel_lines) and bool(norm_lines)
    out += ("/-- the patch is written into `vals` before the non-zero selection and the normalisation -/\n"
            f"def patch_before_normalize : Bool := {lean_bool(before)}\n")
    # nothing patches the stacked result after the loop
    late = [n for n in stmts_of(fn) if n.lineno > lp.end_lineno and not isinstance(n, (ast.If, ast.Return))]
    late_ifs = [n for n in stmts_of(fn) if n.lineno > lp.end_lineno and isinstance(n, ast.If)]
    ok_tail = (not late and len(late_ifs) == 1 and ast.unparse(late_ifs[0].test) == "use_sparse")
    out += f"def patch_only_in_loop : Bool := {lean_bool(ok_tail)}\n"
    return out


@fragment("Masks", "normalize")
def _():
    fn = find_def(MK, "radial_bins")
    _, lp = _loop_assign(fn, "diff")
    norms = [n for n in ast.walk(lp) if isinstance(n, ast.If) and ast.unparse(n.test) == "normalize"]
    if len(norms) != 2:
        raise Untranslatable(f"expected the normalisation in both the sparse and the dense branch ({len(norms)})")
    texts = {" ; ".join(ast.unparse(s) for s in n.body) for n in norms}
    if len(texts) != 1:
        raise Untranslatable("sparse and dense normalisation differ")
    return ("/-- body of `if normalize:` (identical in the sparse and dense branch) -/\n"
            f"def normalize_body : String := {lean_str(texts.pop())}\n")


@fragment("Masks", "rgbs_val")
def _():
    fn = find_def(MK, "radial_gradient_background_subtraction")
    params = [("r", RAT), ("r0", RAT), ("r_outer", RAT), ("delta", RAT)]
    env = Env(vars={n: (n, t) for n, t in params})
    body = stmts_of(fn)
    if ast.unparse(body[0]) != "result = np.zeros_like(r)" or ast.unparse(body[-1]) != "return result":
        raise Untranslatable("rgbs prologue/epilogue")
    pieces = []  # (cond, value) in program order; later stores override earlier ones
    masks = {}
    for s in body[1:-1]:
        if not isinstance(s, ast.Assign):
            raise Untranslatable(f"rgbs statement {ast.unparse(s)}")
        tgt = s.targets[0]
        if isinstance(tgt, ast.Name):
            # mask definition: comparisons joined with `*` (logical and on boolean arrays)
            def cond(e):
                if isinstance(e, ast.BinOp) and isinstance(e.op, ast.Mult):
                    return f"({cond(e.left)} && {cond(e.right)})"
                t, ty = tr(e, env)
                if ty != BOOL:
                    raise Untranslatable("mask is not boolean")
                return t
            masks[tgt.id] = cond(s.value)
        elif isinstance(tgt, ast.Subscript) and ast.unparse(tgt.value) == "result":
            m = ast.unparse(tgt.slice)
            if m not in masks:
                raise Untranslatable(f"unknown mask {m}")
            e2 = Env(subst={f"r[{m}]": ("r", RAT)}, vars=dict(env.vars))
            v, vt = tr(s.value, e2)
            pieces.append((masks[m], coerce(v, vt, RAT)))
        else:
            raise Untranslatable(f"rgbs statement {ast.unparse(s)}")
    expr = "(0 : Rat)"
    for c, v in pieces:
        expr = f"(if {c} = true then {v} else {expr})"
    return lean_def("rgbs_val", params, RAT, [], expr,
                    "`radial_gradient_background_subtraction` at one pixel of radius `r`")


@fragment("Masks", "bs_combine")
def _():
    fn = find_def(MK, "background_subtraction")
    m = find_assign(fn, "mask")
    params = [("mask_1", RAT), ("mask_2", RAT), ("sum_1", RAT), ("sum_2", RAT)]
    out = expr_def("bs_combine", params, m.value, doc="`mask` of `background_subtraction` at one pixel")
    want = {"mask_1": "circular(centerX, centerY, imageSizeX, imageSizeY, radius_inner, antialiased=antialiased)",
            "sum_1": "np.sum(mask_1)",
            "mask_2": "ring(centerX, centerY, imageSizeX, imageSizeY, radius, radius_inner, antialiased=antialiased)",
            "sum_2": "np.sum(mask_2)"}
    for k, v in want.items():
        if ast.unparse(find_assign(fn, k).value) != v:
            raise Untranslatable(f"background_subtraction: {k} = {ast.unparse(find_assign(fn, k).value)}")
    return out


@fragment("Masks", "disk_in")
def _():
    fn = find_def(MK, "_make_circular_mask")
    ifs = [s for s in stmts_of(fn) if isinstance(s, ast.If)]
    if len(ifs) != 1 or ast.unparse(ifs[0].test) != "antialiased":
        raise Untranslatable("_make_circular_mask structure")
    og = ifs[0].orelse[0]
    if ast.unparse(og).replace("(", "").replace(")", "") != \
            "x, y = np.ogrid[-centerY:imageSizeY - centerY, -centerX:imageSizeX - centerX]":
        raise Untranslatable(f"ogrid: {ast.unparse(og)}")
    m = ifs[0].orelse[1]
    params = [("x", RAT), ("y", RAT), ("radius", RAT)]
    out = expr_def("disk_in", params, m.value, doc="non-antialiased disk test; `x`, `y` are the offsets from the centre")
    aa = ifs[0].body[0]
    out += f"\ndef disk_aa_expr : String := {lean_str(ast.unparse(aa.value))}\n"
    rg = find_def(MK, "ring")
    rifs = [s for s in stmts_of(rg) if isinstance(s, ast.If)]
    out += f"def ring_aa_expr : String := {lean_str(ast.unparse(rifs[0].body[0].value))}\n"
    return out


@fragment("Masks", "stamp")
def _():
    fn = find_def(MK, "sparse_template_multi_stack")
    sel = find_assign(fn, "selector")

    def cond(e, env):
        if isinstance(e, ast.BinOp) and isinstance(e.op, ast.Mult):
            return f"({cond(e.left, env)} && {cond(e.right, env)})"
        t, ty = tr(e, env)
        if ty != BOOL:
            raise Untranslatable("selector is not boolean")
        return t
    params = [("coord_y", INT), ("coord_x", INT), ("imageSizeY", INT), ("imageSizeX", INT)]
    env = Env(vars={n: (n, t) for n, t in params})
    out = lean_def("stamp_sel", params, BOOL, [], cond(sel.value, env),
                   "in-image selector of `sparse_template_multi_stack`")
    lp = [n for n in ast.walk(fn) if isinstance(n, ast.For)][0]
    stores = {ast.unparse(s.targets[0]): ast.unparse(s.value) for s in lp.body if isinstance(s, ast.Assign)}
    want = {"data[start:stop]": "template.flatten()", "coord_mask[start:stop]": "mask_index[i]",
            "coord_y[start:stop]": "y.flatten() + offsetY[i]", "coord_x[start:stop]": "x.flatten() + offsetX[i]",
            "start": "i * area", "stop": "(i + 1) * area"}
    for k, v in want.items():
        if stores.get(k) != v:
            raise Untranslatable(f"stamp loop: {k} = {stores.get(k)}")
    if ast.unparse(find_assign(fn, "(y, x)").value if False else [s for s in stmts_of(fn) if isinstance(s, ast.Assign) and ast.unparse(s.value) == "np.mgrid[0:fy, 0:fx]"][0].targets[0]).replace("(", "").replace(")", "") != "y, x":
        raise Untranslatable("mgrid")
    ret = [s for s in stmts_of(fn) if isinstance(s, ast.Return)][0]
    out += f"\ndef stamp_return_expr : String := {lean_str(ast.unparse(ret.value))}\n"
    return out


@fragment("Masks", "sparse_circular")
def _():
    fn = find_def(MK, "sparse_circular_multi_stack")
    b = find_assign(fn, "bbox")
    bc_ = find_assign(fn, "bbox_center")
    out = expr_def("sc_bbox", [("radius", RAT)], b.value, doc="`bbox` of `sparse_circular_multi_stack`")
    out += "\n" + expr_def("sc_center", [("bbox", INT)], bc_.value)
    call = [s for s in stmts_of(fn) if isinstance(s, ast.Return)][0].value
    kws = {k.arg: ast.unparse(k.value) for k in call.keywords}
    want = {"offsetX": "np.array(centerX, dtype=int) - bbox_center",
            "offsetY": "np.array(centerY, dtype=int) - bbox_center", "template": "template"}
    for k, v in want.items():
        if kws.get(k) != v:
            raise Untranslatable(f"sparse_circular: {k}={kws.get(k)}")
    t = find_assign(fn, "template")
    tk = {k.arg: ast.unparse(k.value) for k in t.value.keywords}
    if tk != {"centerX": "bbox_center", "centerY": "bbox_center", "imageSizeX": "bbox",
              "imageSizeY": "bbox", "radius": "radius"} or ast.unparse(t.value.func) != "circular":
        raise Untranslatable(f"sparse_circular template {tk}")
    return out


# ======================================================================================
# Gen/Patterns.lean  --  common/patterns.py
# ======================================================================================

@fragment("Patterns", "crop_size_of")
def _():
    fn = find_def(PT, "MatchPattern.get_crop_size")
    return fn_to_def(PT, "MatchPattern.get_crop_size", "crop_size_of", [("search", RAT)],
                     subst={"self.search": ("search", RAT)}, ret_type=INT) + (
        f"def template_expr : String := "
        f"{lean_str(ast.unparse(stmts_of(find_def(PT, 'MatchPattern.get_template'))[0]))}\n")


def _ctor(cls, prefix, params):
    """defaults (`if X is None: X = e`) and ValueError guards of a pattern constructor"""
    fn = find_def(PT, f"{cls}.__init__")
    env = Env(vars={n: (n, RAT) for n in params})
    out = ""
    rejects = []
    for s in stmts_of(fn):
        if isinstance(s, ast.If) and isinstance(s.test, ast.Compare) and isinstance(s.test.ops[0], ast.Is) \
                and ast.unparse(s.test.comparators[0]) == "None":
            name = ast.unparse(s.test.left)
            if name == "radial_map":
                continue
            if len(s.body) != 1 or ast.unparse(s.body[0].targets[0]) != name:
                raise Untranslatable(f"{cls}: default of {name}")
            v, t = tr(s.body[0].value, env)
            ps = " ".join(f"({p} : Rat)" for p in params if p != name)
            out += f"def {prefix}_default_{name} {ps} : Rat := {coerce(v, t, RAT)}\n"
        elif isinstance(s, ast.If) and len(s.body) == 1 and isinstance(s.body[0], ast.Raise):
            exc = s.body[0].exc
            if not (isinstance(exc, ast.Call) and ast.unparse(exc.func) == "ValueError"):
                raise Untranslatable(f"{cls}: raises {ast.unparse(exc)[:30]}")
            c, _ = tr(s.test, env)
            rejects.append(c)
    ps = " ".join(f"({p} : Rat)" for p in params)
    out += (f"/-- `{cls}(...)` raises ValueError iff … (after the defaults were filled in) -/\n"
            f"def {prefix}_rejects {ps} : Bool := {' || '.join(rejects) if rejects else 'false'}\n")
    return out


@fragment("Patterns", "ctor_circular")
def _():
    return _ctor("Circular", "circ", ["radius", "search"]) + _ctor("RadialGradient", "rg", ["radius", "search"])


@fragment("Patterns", "ctor_bs")
def _():
    return (_ctor("BackgroundSubtraction", "bs", ["radius", "search", "radius_outer"])
            + _ctor("RadialGradientBackgroundSubtraction", "rgbs", ["radius", "search", "radius_outer"]))


@fragment("Patterns", "mask_center")
def _():
    out = ""
    first = None
    for cls, func, rad in (("Circular", "masks.circular", {"radius": "self.radius"}),
                           ("RadialGradient", "masks.radial_gradient", {"radius": "self.radius"}),
                           ("BackgroundSubtraction", "masks.background_subtraction",
                            {"radius": "self.radius_outer", "radius_inner": "self.radius"})):
        fn = find_def(PT, f"{cls}.get_mask")
        body = stmts_of(fn)
        if len(body) != 1 or not isinstance(body[0], ast.Return) or not isinstance(body[0].value, ast.Call):
            raise Untranslatable(f"{cls}.get_mask is not a single call")
        call = body[0].value
        if ast.unparse(call.func) != func or call.args:
            raise Untranslatable(f"{cls}.get_mask calls {ast.unparse(call.func)}")
        kws = {k.arg: k.value for k in call.keywords}
        want_txt = {"imageSizeY": "sig_shape[0]", "imageSizeX": "sig_shape[1]", "antialiased": "True"}
        want_txt.update(rad)
        for k, v in want_txt.items():
            if k not in kws or ast.unparse(kws[k]) != v:
                raise Untranslatable(f"{cls}.get_mask: {k}={ast.unparse(kws[k]) if k in kws else None}")
        if set(kws) != set(want_txt) | {"centerY", "centerX"}:
            raise Untranslatable(f"{cls}.get_mask keywords {sorted(kws)}")
        cy, _ = tr(kws["centerY"], Env(subst={"sig_shape[0]": ("n", INT)}))
        cx, _ = tr(kws["centerX"], Env(subst={"sig_shape[1]": ("n", INT)}))
        if cy != cx:
            raise Untranslatable(f"{cls}.get_mask: centerY and centerX expressions differ")
        if first is None:
            first = cy
            out += ("/-- centre argument of the built-in masks along an axis of length `n` "
                    "(same expression for y with sig_shape[0] and x with sig_shape[1]) -/\n"
                    f"def mask_center (n : Int) : Int := {cy}\n")
        elif cy != first:
            raise Untranslatable("centre expressions differ between pattern classes")
    return out


@fragment("Patterns", "user_template")
def _():
    fn = find_def(PT, "UserTemplate.get_mask")
    loops = [s for s in stmts_of(fn) if isinstance(s, ast.For)]
    if len(loops) != 1 or ast.unparse(loops[0].iter) != "enumerate(zip(sig_shape, self.template.shape))" \
            or ast.unparse(loops[0].target).replace("(", "").replace(")", "") != "ax, target, source":
        raise Untranslatable("UserTemplate.get_mask loop header")
    lp = loops[0]
    chain = lp.body[0]
    if not isinstance(chain, ast.If) or len(chain.orelse) != 1 or not isinstance(chain.orelse[0], ast.If):
        raise Untranslatable("pad/crop decision is not if/elif/else")
    second = chain.orelse[0]
    if [ast.unparse(s) for s in second.orelse] != ["continue"]:
        raise Untranslatable("else branch is not `continue`")
    env = Env(vars={"target": ("target", INT), "source": ("source", INT)})
    out = ""
    modes = []
    for br in (chain, second):
        asg = {ast.unparse(s.targets[0]): s.value for s in br.body if isinstance(s, ast.Assign)}
        if set(asg) != {"extra", "fn"}:
            raise Untranslatable(f"branch assigns {sorted(asg)}")
        modes.append((tr(br.test, env)[0], ast.unparse(asg["fn"]), tr(asg["extra"], env)[0]))
    fns = [m[1] for m in modes]
    if sorted(fns) != ["crop", "np.pad"]:
        raise Untranslatable(f"functions {fns}")
    pad = modes[fns.index("np.pad")]
    crp = modes[fns.index("crop")]
    out += f"def ut_is_pad (target source : Int) : Bool := {pad[0]}\n"
    out += f"def ut_is_crop (target source : Int) : Bool := {crp[0]}\n"
    out += f"def ut_extra_pad (target source : Int) : Int := {pad[2]}\n"
    out += f"def ut_extra_crop (target source : Int) : Int := {crp[2]}\n"
    if fns.index("np.pad") != 0:
        out += "-- note: crop branch is tested first\n"
    rest = lp.body[1:]
    env2 = Env(vars={n: (n, INT) for n in ("target", "source", "extra")})
    for n in ("target", "source", "extra"):
        env2.counter[n] = 1
    pre = [s for s in rest if not (isinstance(s, ast.Assign) and ast.unparse(s.targets[0]) == "result")]
    lines, _ = tr_block(pre, env2)
    if "before" not in env2.vars or "after" not in env2.vars:
        raise Untranslatable("before/after not assigned")
    body = "\n".join("  " + ln for ln in lines)
    out += ("/-- `(before, after)` widths of the pad / crop along one axis -/\n"
            "def ut_before_after (target source extra : Int) : Int × Int :=\n" + body +
            f"\n  ({env2.vars['before'][0]}, {env2.vars['after'][0]})\n")
    call = [s for s in rest if isinstance(s, ast.Assign) and ast.unparse(s.targets[0]) == "result"]
    if len(call) != 1:
        raise Untranslatable("result = fn(...) missing")
    out += f"def ut_apply_expr : String := {lean_str(ast.unparse(call[0].value))}\n"
    return out


@fragment("Patterns", "user_template_io")
def _():
    """what UserTemplate.get_mask starts from and hands out (ownership of the returned array): text only"""
    fn = find_def(PT, "UserTemplate.get_mask")
    body = stmts_of(fn)
    first = [s for s in body if isinstance(s, ast.Assign) and ast.unparse(s.targets[0]) == "result"]
    rets = [s for s in body if isinstance(s, ast.Return)]
    if not first or len(rets) != 1:
        raise Untranslatable("UserTemplate.get_mask: `result = ...` / single return")
    out = _fp("ut_init_expr", ast.unparse(first[0].value), "the array `UserTemplate.get_mask` pads / crops")
    out += _fp("ut_return_expr", ast.unparse(rets[0].value), "what `UserTemplate.get_mask` hands to the caller")
    tail = body[body.index([s for s in body if isinstance(s, ast.For)][0]) + 1:]
    out += _fp("ut_tail", " ; ".join(ast.unparse(s) for s in tail))
    return out


@fragment("Patterns", "rgbs_geometry")
def _():
    fn = find_def(PT, "RadialGradientBackgroundSubtraction.__init__")
    blk = [s for s in stmts_of(fn) if isinstance(s, ast.If) and ast.unparse(s.test) == "radial_map is None"]
    if len(blk) != 1:
        raise Missing("default radial map block")
    r = [s for s in blk[0].body if isinstance(s, ast.Assign) and ast.unparse(s.targets[0]) == "r"]
    calls = find_calls(blk[0], "masks.polar_map")
    if len(r) != 1 or len(calls) != 1:
        raise Untranslatable("default radial map structure")
    env = Env(vars={"radius": ("radius", RAT), "radius_outer": ("radius_outer", RAT)})
    rv, rt = tr(r[0].value, env)
    if rt != INT:
        raise Untranslatable("r is not an integer")
    out = f"def rgbs_r (radius radius_outer : Rat) : Int := {rv}\n"
    kws = {k.arg: k.value for k in calls[0].keywords}
    e2 = Env(vars={"r": ("r", INT)})
    vals = {k: tr(v, e2) for k, v in kws.items()}
    if set(vals) != {"centerX", "centerY", "imageSizeX", "imageSizeY"}:
        raise Untranslatable(f"polar_map keywords {sorted(vals)}")
    if vals["centerX"] != vals["centerY"] or vals["imageSizeX"] != vals["imageSizeY"]:
        raise Untranslatable("default radial map is not square / centred alike")
    if vals["centerX"][1] != INT or vals["imageSizeX"][1] != INT:
        raise Untranslatable("default radial map geometry is not integral")
    out += f"def rgbs_center (r : Int) : Int := {vals['centerX'][0]}\n"
    out += f"def rgbs_size (r : Int) : Int := {vals['imageSizeX'][0]}\n"
    return out


@fragment("Patterns", "feature_vector")
def _():
    fn = find_def(PT, "feature_vector")
    ret = [s for s in stmts_of(fn) if isinstance(s, ast.Return)][0].value
    if ast.unparse(ret.func) != "masks.sparse_template_multi_stack":
        raise Untranslatable("feature_vector does not call sparse_template_multi_stack")
    kws = {k.arg: k.value for k in ret.keywords}
    env = Env(subst={"peaks[:, 1]": ("peak", INT), "peaks[:, 0]": ("peak", INT)}, vars={"crop_size": ("crop_size", INT)})
    ox, _ = tr(kws["offsetX"], env)
    oy, _ = tr(kws["offsetY"], env)
    if ox != oy or ast.unparse(kws["offsetX"]) != "peaks[:, 1] - crop_size" and False:
        raise Untranslatable("feature_vector offsets differ between axes")
    if "peaks[:, 1]" not in ast.unparse(kws["offsetX"]) or "peaks[:, 0]" not in ast.unparse(kws["offsetY"]):
        raise Untranslatable("feature_vector: x/y columns of peaks swapped")
    out = f"def fv_offset (peak crop_size : Int) : Int := {ox}\n"
    t = kws["template"]
    if not (isinstance(t, ast.Call) and ast.unparse(t.func) == "match_pattern.get_mask" and len(t.args) == 1
            and isinstance(t.args[0], ast.Tuple) and len(t.args[0].elts) == 2
            and ast.unparse(t.args[0].elts[0]) == ast.unparse(t.args[0].elts[1])):
        raise Untranslatable("feature_vector template")
    sz, _ = tr(t.args[0].elts[0], Env(vars={"crop_size": ("crop_size", INT)}))
    out += f"def fv_size (crop_size : Int) : Int := {sz}\n"
    for k, v in (("imageSizeX", "imageSizeX"), ("imageSizeY", "imageSizeY"), ("mask_index", "range(len(peaks))")):
        if ast.unparse(kws[k]) != v:
            raise Untranslatable(f"feature_vector {k}")
    return out


# ======================================================================================
# Gen/Lattice.lean  --  base/utils.py, common/gridmatching.py
# ======================================================================================
_trcore.GEN_IMPORTS["Lattice"] = ["BlobfinderModel.Model.Scalar"]


def _fp(name, text, doc=None):
    d = f"/-- {doc} -/\n" if doc else ""
    return f"{d}def {name} : String := {lean_str(text)}\n"


def _stmt_texts(fn):
    return [ast.unparse(s) for s in stmts_of(fn)]


@fragment("Lattice", "within_frame")
def _():
    fn = find_def(UT, "within_frame")
    sel = find_assign(fn, "selector")
    v = sel.value
    if not (isinstance(v, ast.BinOp) and isinstance(v.op, ast.Mult)):
        raise Untranslatable("within_frame selector is not a product of two comparisons")
    out = ""
    parts = {}
    for side in (v.left, v.right):
        if not (isinstance(side, ast.Compare) and len(side.ops) == 1 and ast.unparse(side.left) == "peaks"
                and isinstance(side.comparators[0], ast.Tuple) and len(side.comparators[0].elts) == 2):
            raise Untranslatable("within_frame comparison shape")
        for ax, el in zip("yx", side.comparators[0].elts):
            env = Env(vars={"r": ("r", RAT), "fy": ("f", RAT), "fx": ("f", RAT), "p": ("p", RAT)})
            cmp_ = ast.Compare(left=ast.Name(id="p", ctx=ast.Load()), ops=side.ops, comparators=[el])
            txt, _ = tr(cmp_, env)
            used = {n.id for n in ast.walk(el) if isinstance(n, ast.Name)}
            if ("fx" in used and ax == "y") or ("fy" in used and ax == "x"):
                raise Untranslatable("within_frame: fy/fx used on the wrong axis")
            parts.setdefault(ax, []).append(txt)
    if parts["y"] != parts["x"]:
        raise Untranslatable("within_frame treats the axes differently")
    out += ("/-- `within_frame` along one axis: coordinate `p`, margin `r`, frame size `f` -/\n"
            f"def within_axis (p r f : Rat) : Bool := {' && '.join(parts['y'])}\n")
    ret = [s for s in stmts_of(fn) if isinstance(s, ast.Return)][0]
    out += _fp("within_reduce_expr", ast.unparse(ret.value))
    return out


@fragment("Lattice", "calc_coords")
def _():
    fn = find_def(UT, "calc_coords")
    out = _fp("calc_coords_body", " ; ".join(_stmt_texts(fn)), "body of `base.utils.calc_coords`")
    fp = find_def(UT, "frame_peaks")
    out += _fp("frame_peaks_body", " ; ".join(_stmt_texts(fp)))
    gi = find_def(GM, "get_indices")
    out += _fp("get_indices_body", " ; ".join(_stmt_texts(gi)))
    return out


@fragment("Lattice", "regularize")
def _():
    fn = find_def(UT, "regularize_indices")
    chain = [s for s in stmts_of(fn) if isinstance(s, ast.If)]
    if len(chain) != 1 or len(chain[0].orelse) != 1 or not isinstance(chain[0].orelse[0], ast.If):
        raise Untranslatable("regularize_indices is not if/elif/else")
    first, second = chain[0], chain[0].orelse[0]
    env = Env(subst={"len(s)": ("ndim", INT), "s[0]": ("s0", INT), "s[1]": ("s1", INT)})
    c1, _ = tr(first.test, env)
    c2, _ = tr(second.test, env)
    out = f"def reg_is_mgrid (ndim s0 s1 : Int) : Bool := {c1}\n"
    out += f"def reg_is_list (ndim s0 s1 : Int) : Bool := {c2}\n"
    out += _fp("reg_mgrid_expr", ast.unparse(first.body[0]))
    out += _fp("reg_list_expr", ast.unparse(second.body[0]))
    if not isinstance(second.orelse[0], ast.Raise):
        raise Untranslatable("regularize_indices: else is not raise")
    # Match.calc_coords has its own copy of the layout handling
    mc = find_def(GM, "Match.calc_coords")
    mchain = [s for s in stmts_of(mc) if isinstance(s, ast.If) and "len(s)" in ast.unparse(s.test)]
    if len(mchain) != 1:
        raise Missing("layout test of Match.calc_coords")
    m1, m2 = mchain[0], mchain[0].orelse[0]
    d1, _ = tr(m1.test, env)
    d2, _ = tr(m2.test, env)
    out += f"def mc_is_mgrid (ndim s0 s1 : Int) : Bool := {d1}\n"
    out += f"def mc_is_list (ndim s0 s1 : Int) : Bool := {d2}\n"
    out += _fp("mc_mgrid_expr", ast.unparse(m1.body[0]))
    nz = find_assign(mc, "nz")
    out += _fp("mc_drop_zero_expr", ast.unparse(nz.value))
    tail = [ast.unparse(s) for s in stmts_of(mc) if s.lineno > mchain[0].end_lineno]
    out += _fp("mc_tail", " ; ".join(tail))
    return out


@fragment("Lattice", "fastmatch")
def _():
    fn = find_def(GM, "Matcher.fastmatch")
    filt = find_assign(fn, "filt")
    env = Env(subst={"corr.peak_elevations": ("elev", RAT), "self.min_weight": ("min_weight", RAT)})
    c, _ = tr(filt.value, env)
    out = f"def fm_weight_ok (elev min_weight : Rat) : Bool := {c}\n"
    tries = [s for s in stmts_of(fn) if isinstance(s, ast.Try)]
    if len(tries) != 1:
        raise Missing("try block of fastmatch")
    t = tries[0]
    ifs = [s for s in t.body if isinstance(s, ast.If)]
    if len(ifs) != 1:
        raise Untranslatable("fastmatch: min_match test")
    env2 = Env(subst={"len(match1)": ("n", INT), "self.min_match": ("min_match", INT)})
    c2, _ = tr(ifs[0].test, env2)
    out += f"def fm_enough (n min_match : Int) : Bool := {c2}\n"
    out += _fp("fm_try_body", " ; ".join(ast.unparse(s) for s in t.body))
    out += _fp("fm_handlers", " ; ".join(ast.unparse(h.type) + " -> " + " ".join(ast.unparse(s) for s in h.body)
                                        for h in t.handlers))
    ma = find_def(GM, "Matcher._match_all")
    ms = find_assign(ma, "matched_selector")
    env3 = Env(subst={"self.tolerance": ("tol", RAT)}, vars={"errors": ("err", RAT)})
    c3, _ = tr(ms.value, env3)
    out += f"def fm_matched (err tol : Rat) : Bool := {c3}\n"
    for nm in ("indices", "rounded", "index_diffs", "diffs", "scaled_diffs", "errors", "matched_indices",
               "new_selector"):
        out += _fp(f"ma_{nm}", ast.unparse(find_assign(ma, nm).value))
    inv = find_def(GM, "Match.invalid")
    out += _fp("invalid_body", " ; ".join(_stmt_texts(inv)))
    out += _fp("new_selector_body", " ; ".join(_stmt_texts(find_def(GM, "PointSelection.new_selector"))))
    out += _fp("match_all_tail", ast.unparse([s for s in stmts_of(ma) if isinstance(s, ast.Assign)
                                             and ast.unparse(s.targets[0]) == "result"][0].value))
    return out


@fragment("Lattice", "optimize")
def _():
    w = find_def(GM, "Match.weighted_optimize")
    o = find_def(GM, "Match.optimize")
    e = find_def(GM, "Match.error")
    out = _fp("wopt_body", " ; ".join(_stmt_texts(w)), "body of `Match.weighted_optimize`")
    out += _fp("opt_body", " ; ".join(_stmt_texts(o)))
    out += _fp("error_body", " ; ".join(_stmt_texts(e)))
    am = find_def(GM, "Matcher.affinematch")
    out += _fp("affinematch_body", " ; ".join(_stmt_texts(am)))
    return out


@fragment("Lattice", "containers_text")
def _():
    """CorrelationResult / PointSelection / Match plumbing (defaults of the optional arrays, selectors, derived objects, the
    invalid match): text only"""
    out = ""
    for key, name in (("corrresult_init_body", "CorrelationResult.__init__"), ("pointsel_init_body", "PointSelection.__init__"),
                      ("pointsel_new_selector_body", "PointSelection.new_selector"), ("pointsel_derive_body", "PointSelection.derive"),
                      ("match_invalid_body", "Match.invalid"), ("match_derive_body", "Match.derive"),
                      ("match_from_selection_body", "Match.from_point_selection")):
        out += _fp(key, " ; ".join(_stmt_texts(find_def(GM, name))))
    return out


@fragment("Lattice", "transformation")
def _():
    out = ""
    for nm in ("get_transformation", "do_transformation", "find_center"):
        out += _fp(f"{nm}_body", " ; ".join(_stmt_texts(find_def(GM, nm))))
    return out


# ======================================================================================
# Gen/Polar.lean  --  base/utils.py make_polar / make_cartesian over a generic scalar with the library functions
#                     (cos, sin, arctan2, 2-norm) as a parameter record; instantiated with the real functions in C17
# ======================================================================================

def _trg(node, subst):
    """generic-scalar expression: names via subst, + - *, np.cos / np.sin / np.arctan2 / np.linalg.norm(v, axis=-1)"""
    key = ast.unparse(node)
    if key in subst:
        return subst[key]
    if isinstance(node, ast.BinOp) and isinstance(node.op, (ast.Add, ast.Sub, ast.Mult)):
        sym = {ast.Add: "+", ast.Sub: "-", ast.Mult: "*"}[type(node.op)]
        return f"({_trg(node.left, subst)} {sym} {_trg(node.right, subst)})"
    if isinstance(node, ast.Call):
        fn = ast.unparse(node.func)
        if fn in ("np.cos", "np.sin") and len(node.args) == 1 and not node.keywords:
            return f"(T.{fn[3:]} {_trg(node.args[0], subst)})"
        if fn == "np.arctan2" and len(node.args) == 2 and not node.keywords:
            return f"(T.arctan2 {_trg(node.args[0], subst)} {_trg(node.args[1], subst)})"
        if fn == "np.linalg.norm" and len(node.args) == 1 and [(k.arg, ast.unparse(k.value)) for k in node.keywords] == [("axis", "-1")]:
            v = ast.unparse(node.args[0])
            if (v + "[..., 0]") in subst and (v + "[..., 1]") in subst:
                return f"(T.norm2 {subst[v + '[..., 0]']} {subst[v + '[..., 1]']})"
    raise Untranslatable(f"generic expression {key}")


def _pair_return(fn):
    """`return np.array((A.T, B.T)).T` -> (A, B)"""
    ret = [s for s in stmts_of(fn) if isinstance(s, ast.Return)]
    if len(ret) != 1:
        raise Untranslatable(f"{fn.name}: return")
    v = ret[0].value
    ok = (isinstance(v, ast.Attribute) and v.attr == "T" and isinstance(v.value, ast.Call)
          and ast.unparse(v.value.func) == "np.array" and len(v.value.args) == 1 and not v.value.keywords
          and isinstance(v.value.args[0], ast.Tuple) and len(v.value.args[0].elts) == 2)
    if not ok:
        raise Untranslatable(f"{fn.name}: return value {ast.unparse(v)}")
    names = []
    for e in v.value.args[0].elts:
        if not (isinstance(e, ast.Attribute) and e.attr == "T" and isinstance(e.value, ast.Name)):
            raise Untranslatable(f"{fn.name}: returned component {ast.unparse(e)}")
        names.append(e.value.id)
    return names


def _resolve(fn, name, subst):
    """value of local `name` (single assignment each, straight line) as a generic expression"""
    local = dict(subst)
    for st in stmts_of(fn):
        if isinstance(st, ast.Return):
            break
        if not (isinstance(st, ast.Assign) and len(st.targets) == 1 and isinstance(st.targets[0], ast.Name)):
            raise Untranslatable(f"{fn.name}: statement {ast.unparse(st)[:50]}")
        local[st.targets[0].id] = _trg(st.value, local)
    if name not in local:
        raise Missing(f"{fn.name}: local {name}")
    return local[name]


@fragment("Polar", "polar")
def _():
    out = ("/-- the library functions used by `make_polar` / `make_cartesian` (parameters of the model) -/\n"
           "structure Trig (α : Type) where\n  cos : α → α\n  sin : α → α\n  arctan2 : α → α → α\n  norm2 : α → α → α\n\n")
    mc = find_def(UT, "make_cartesian")
    arg = mc.args.args[0].arg
    sub = {f"{arg}[..., 0]": "r", f"{arg}[..., 1]": "phi"}
    first, second = _pair_return(mc)
    out += ("/-- first (y) component returned by `make_cartesian` for the polar vector `(r, phi)` -/\n"
            f"def cartesian_y {{α : Type}} [Add α] [Sub α] [Mul α] (T : Trig α) (r phi : α) : α := {_resolve(mc, first, sub)}\n")
    out += ("/-- second (x) component returned by `make_cartesian` -/\n"
            f"def cartesian_x {{α : Type}} [Add α] [Sub α] [Mul α] (T : Trig α) (r phi : α) : α := {_resolve(mc, second, sub)}\n")
    mp = find_def(UT, "make_polar")
    arg = mp.args.args[0].arg
    sub = {f"{arg}[..., 0]": "y", f"{arg}[..., 1]": "x"}
    first, second = _pair_return(mp)
    out += ("/-- first (length) component returned by `make_polar` for the cartesian vector `(y, x)` -/\n"
            f"def polar_r {{α : Type}} [Add α] [Sub α] [Mul α] (T : Trig α) (y x : α) : α := {_resolve(mp, first, sub)}\n")
    out += ("/-- second (angle) component returned by `make_polar` -/\n"
            f"def polar_phi {{α : Type}} [Add α] [Sub α] [Mul α] (T : Trig α) (y x : α) : α := {_resolve(mp, second, sub)}\n")
    return out


# ======================================================================================
# Gen/Eval.lean  --  evaluation kernels, shifts, log scaling, upsampling constants, dtypes
# ======================================================================================
_trcore.GEN_IMPORTS["Eval"] = ["BlobfinderModel.Model.Scalar"]


@fragment("Eval", "kernels")
def _():
    """the numba kernels as Lean functions over images (see kernels.py): loops become sums / running minima"""
    import kernels as K
    out = K.kernel_def(BC, "center_of_mass", "center_of_mass", params=[], arrays=["arr"],
                       doc="`center_of_mass(arr)`: first moments over the total (float32 casts dropped)")
    out += K.kernel_def(BC, "refine_center", "refine_center", params=[("r", "r", INT)], arrays=["corrmap"],
                        tuples={"center": [("cy", INT), ("cx", INT)]}, kernels={"center_of_mass": "center_of_mass"},
                        doc="`refine_center(center, r, corrmap)` with `center = (cy, cx)`").replace(
        "(r : Int)", "(cy cx : Int) (r : Int)")
    out += K.kernel_def(BC, "peak_elevation", "peak_elevation",
                        params=[("sqrt", "sqrt", "SQRT"), ("height", "height", RAT), ("r_min", "r_min", RAT)],
                        arrays=["corrmap"], tuples={"center": [("py", RAT), ("px", RAT)]}, infinite=["r_max"],
                        ret_type="Option Rat",
                        doc="`peak_elevation(center, corrmap, height, r_min)` with `center = (py, px)`, `r_max = inf`; "
                            "`none` = `+inf`; the square root is a parameter").replace(
        "(sqrt : Rat → Rat)", "(sqrt : Rat → Rat) (py px : Rat)")
    fn = find_def(BC, "peak_elevation")
    if ast.unparse(default_of(fn, "r_max")) != "np.inf":
        raise Untranslatable("peak_elevation: default of r_max is not np.inf")
    return out


@fragment("Eval", "evaluate")
def _():
    """(the evaluation kernels are translated as whole functions by the `kernels` / `evaluate_loop` fragments; only the
    dimension loop of unravel_index stays a text fingerprint, with an exhaustive correspondence in C03)"""
    return _fp("unravel_body", " ; ".join(_stmt_texts(find_def(BC, "unravel_index"))))


@fragment("Eval", "evaluate_loop")
def _():
    import kernels as K
    return K.evaluate_loop_def(BC)


@fragment("Eval", "shift")
def _():
    out = ""
    for nm in ("_shift", "_unshift"):
        import kernels as K
        fn = find_def(BC, nm)
        argn = [a.arg for a in fn.args.args]
        env = Env(subst={f"np.array(({argn[2]}, {argn[2]}))": ("crop_size", INT)},
                  vars={argn[0]: ("v", INT), argn[1]: ("anchor", INT), argn[2]: ("crop_size", INT)})
        v, t = tr(K.inlined_return(fn), env)
        out += f"/-- `{nm}` per component -/\ndef {nm.strip('_')} (v anchor crop_size : Int) : Int := {v}\n"
    return out


def _corr_expr(fn, target):
    a = find_assign(fn, target)
    call = a.value
    shift = ast.unparse(call.func)
    inner = call.args[0]
    s_kw = any(k.arg == "s" for k in inner.keywords) if isinstance(inner, ast.Call) else False
    s_txt = next((ast.unparse(k.value) for k in inner.keywords if k.arg == "s"), "") if isinstance(inner, ast.Call) else ""
    axes = next((ast.unparse(k.value) for k in call.keywords if k.arg == "axes"), "")
    return shift, ast.unparse(inner.func) if isinstance(inner, ast.Call) else "", s_kw, s_txt, axes, ast.unparse(inner.args[0]) if isinstance(inner, ast.Call) and inner.args else ""


@fragment("Eval", "correlation_fft")
def _():
    out = ""
    fn = find_def(BC, "do_correlations")
    sh, inv, skw, stxt, axes, arg = _corr_expr(fn, "corrs")
    out += _fp("fast_corr_shift", sh) + _fp("fast_corr_inverse", inv) + _fp("fast_corr_s", stxt) + _fp("fast_corr_axes", axes)
    out += _fp("fast_corr_spec", ast.unparse(find_assign(fn, "corrspecs").value))
    out += _fp("fast_corr_fwd", ast.unparse(find_assign(fn, "spec_parts").value))
    fn = find_def(BC, "process_frame_full")
    sh, inv, skw, stxt, axes, arg = _corr_expr(fn, "corr")
    out += _fp("full_corr_shift", sh) + _fp("full_corr_inverse", inv) + _fp("full_corr_s", stxt) + _fp("full_corr_axes", axes)
    out += _fp("full_corr_spec", ast.unparse(find_assign(fn, "corrspec").value))
    return out


@fragment("Eval", "getcorr_fft")
def _():
    out = ""
    fn = find_def(CC, "get_correlation")
    ret = [s for s in stmts_of(fn) if isinstance(s, ast.Return)][0].value
    if not (isinstance(ret, ast.Call) and isinstance(ret.args[0], ast.Call)):
        raise Untranslatable("get_correlation return")
    out += _fp("getcorr_shift", ast.unparse(ret.func))
    out += _fp("getcorr_inverse", ast.unparse(ret.args[0].func))
    out += _fp("getcorr_s", next((ast.unparse(k.value) for k in ret.args[0].keywords if k.arg == "s"), ""))
    out += _fp("getcorr_axes", next((ast.unparse(k.value) for k in ret.keywords if k.arg == "axes"), ""))
    out += _fp("getcorr_template", ast.unparse(find_assign(fn, "spec_mask").value))
    gp = find_def(CC, "get_peaks")
    out += _fp("get_peaks_body", " ; ".join(_stmt_texts(gp)[-3:]))
    return out


@fragment("Eval", "log_scale")
def _():
    fn = find_def(BC, "log_scale")
    ret = [s for s in stmts_of(fn) if isinstance(s, ast.Return)][0].value
    if not (isinstance(ret, ast.Call) and ast.unparse(ret.func) == "np.log"):
        raise Untranslatable("log_scale does not return np.log(...)")
    dt = find_assign(fn, "dtype")
    out = _fp("log_dtype", ast.unparse(dt.value))
    env = Env(subst={"data.astype(dtype, copy=False)": ("x", RAT), "np.min(data)": ("m", RAT)})
    v, t = tr(ret.args[0], env)
    out += f"/-- argument of the logarithm in `log_scale` (`x` pixel value after the cast, `m` frame minimum) -/\ndef log_arg (x m : Rat) : Rat := {coerce(v, t, RAT)}\n"
    out += _fp("log_out", next((ast.unparse(k.value) for k in ret.keywords if k.arg == "out"), ""))
    fn = find_def(BC, "log_scale_cropbufs_inplace")
    m = find_assign(fn, "m")
    env = Env(subst={"np.min(crop_bufs, axis=(-1, -2))": ("mn", RAT)})
    v, t = tr(m.value, env)
    out += f"def cropbuf_m (mn : Rat) : Rat := {coerce(v, t, RAT)}\n"
    out += _fp("cropbuf_min_expr", ast.unparse(m.value))
    lg = [s for s in stmts_of(fn) if isinstance(s, ast.Expr) and isinstance(s.value, ast.Call)
          and ast.unparse(s.value.func) == "np.log"]
    if len(lg) != 1:
        raise Untranslatable("log_scale_cropbufs_inplace: np.log call")
    env = Env(subst={"crop_bufs": ("x", RAT), "m[:, np.newaxis, np.newaxis]": ("m", RAT)})
    v, t = tr(lg[0].value.args[0], env)
    out += f"def cropbuf_log_arg (x m : Rat) : Rat := {coerce(v, t, RAT)}\n"
    out += _fp("cropbuf_log_out", next((ast.unparse(k.value) for k in lg[0].value.keywords if k.arg == "out"), ""))
    return out


@fragment("Eval", "upsampling")
def _():
    fn = find_def(BC, "refine_center_upsampling")
    reg = find_assign(fn, "upsampled_region_size")
    env = Env(vars={"upsample_factor": ("us", INT)})
    v, t = tr(reg.value, env)
    out = f"def us_region (us : Int) : Int := {v}\n"
    d = find_assign(fn, "dftshift")
    v, t = tr(d.value, Env(vars={"upsampled_region_size": ("region", INT)}))
    out += f"def us_dftshift (region : Int) : Int := {v}\n"
    for nm in ("shift", "shift_us", "sample_region_offset"):
        out += _fp(f"us_{nm}", ast.unparse(find_assign(fn, nm).value))
    out += _fp("us_tail", " ; ".join(ast.unparse(s) for s in stmts_of(fn)[-6:]))
    ev = find_def(BC, "evaluate_upsampling")
    out += _fp("us_corr_center_expr", ast.unparse(find_assign(ev, "corr_center").value))
    cc_ = find_assign(ev, "corr_center").value
    if not (isinstance(cc_, ast.Call) and ast.unparse(cc_.func) == "np.ceil" and len(cc_.args) == 1):
        raise Untranslatable(f"corr_center is not np.ceil(...): {ast.unparse(cc_)}")
    v, t = tr(cc_.args[0], Env(subst={"np.asarray(corr_shape)": ("n", INT)}))
    if t != RAT:
        raise Untranslatable("corr_center argument is not a quotient")
    out += ("/-- centre of the correlation map used by the upsampling, along an axis of length `n` -/\n"
            f"def us_corr_center (n : Int) : Int := (({v}).ceil)\n")
    out += _fp("us_corr_shape", ast.unparse(find_assign(ev, "corr_shape").value))
    out += _fp("us_frequencies", ast.unparse(find_assign(ev, "frequencies").value))
    lp = [s for s in stmts_of(ev) if isinstance(s, ast.For)][0]
    out += _fp("us_loop", " ; ".join(ast.unparse(s) for s in lp.body))
    out += _fp("us_dft_body", " ; ".join(_stmt_texts(find_def(BC, "_upsampled_dft"))))
    return out


@fragment("Eval", "dtypes")
def _():
    out = ""
    for nm in ("process_frames_fast", "process_frames_full"):
        fn = find_def(CC, nm)
        for tgt in ("centers", "refineds", "heights", "elevations"):
            out += _fp(f"{nm[15:]}_{tgt}_alloc", ast.unparse(find_assign(fn, tgt).value))
    fn = find_def(CC, "process_frames_fast")
    out += _fp("fast_crop_bufs_alloc", ast.unparse(find_assign(fn, "crop_bufs").value))
    fn = find_def(CC, "process_frames_full")
    out += _fp("full_frame_buf_alloc", ast.unparse(find_assign(fn, "frame_buf").value))
    out += _fp("full_buf_count", ast.unparse(find_assign(fn, "buf_count").value))
    return out


@fragment("Eval", "wrappers_text")
def _():
    """the batch helpers as they are written: everything around the per-frame calls (peak list handling, buffer allocation, loop)
    is glue the model takes for granted"""
    out = ""
    for nm in ("process_frames_fast", "process_frames_full"):
        out += _fp(f"{nm[15:]}_wrapper_body", " ; ".join(_stmt_texts(find_def(CC, nm))))
    return out


# ======================================================================================
# Gen/Fullmatch.lean  --  common/fullmatch.py
# ======================================================================================
_trcore.GEN_IMPORTS["Fullmatch"] = ["BlobfinderModel.Model.Scalar"]


@fragment("Fullmatch", "filters")
def _():
    fn = find_def(FM, "size_filter")
    sel = find_assign(fn, "select")
    v = sel.value
    if not (isinstance(v, ast.BinOp) and isinstance(v.op, ast.Mult)):
        raise Untranslatable("size_filter select")
    env = Env(subst={"polar[:, 0]": ("len", RAT)}, vars={"min_delta": ("min_delta", RAT), "max_delta": ("max_delta", RAT)})
    a, _ = tr(v.left, env)
    b, _ = tr(v.right, env)
    out = f"def size_ok (len min_delta max_delta : Rat) : Bool := {a} && {b}\n"
    fn = find_def(FM, "angle_check")
    out += _fp("angle_diff_expr", ast.unparse(find_assign(fn, "diff").value))
    ret = [s for s in stmts_of(fn) if isinstance(s, ast.Return)][0].value
    if not (isinstance(ret, ast.BinOp) and isinstance(ret.op, ast.Mult)):
        raise Untranslatable("angle_check return")
    env = Env(subst={"np.pi": ("pi", RAT)}, vars={"diff": ("diff", RAT), "limit": ("limit", RAT)})
    a, _ = tr(ret.left, env)
    b, _ = tr(ret.right, env)
    out += f"def angle_ok (diff limit pi : Rat) : Bool := {a} && {b}\n"
    return out


@fragment("Fullmatch", "full_match_loop")
def _():
    fn = find_def(FM, "FullMatcher.full_match")
    filt = find_assign(fn, "filt")
    env = Env(subst={"corr.peak_elevations": ("elev", RAT), "self.min_weight": ("min_weight", RAT)})
    c, _ = tr(filt.value, env)
    out = f"def fullm_weight_ok (elev min_weight : Rat) : Bool := {c}\n"
    loops = [s for s in stmts_of(fn) if isinstance(s, ast.While)]
    if len(loops) != 1 or ast.unparse(loops[0].test) != "True":
        raise Untranslatable("full_match: while True loop")
    lp = loops[0]
    out += _fp("fullm_loop", " ; ".join(ast.unparse(s) for s in lp.body))
    cont = [n for n in ast.walk(lp) if isinstance(n, ast.If) and "count_nonzero" in ast.unparse(n.test)]
    if len(cont) != 1:
        raise Missing("continuation test of the full_match loop")
    env = Env(subst={"np.count_nonzero(new_selector)": ("n", INT), "self.min_match": ("min_match", INT)})
    c, _ = tr(cont[0].test, env)
    out += f"def fullm_continue (n min_match : Int) : Bool := {c}\n"
    tail = [ast.unparse(s) for s in stmts_of(fn) if s.lineno > lp.end_lineno]
    out += _fp("fullm_tail", " ; ".join(tail))
    out += _fp("fullm_working_init", ast.unparse(find_assign(fn, "working_set", nth=0).value))
    out += _fp("fullm_zero_selector", ast.unparse(find_assign(fn, "zero_selector").value))
    out += _fp("fullm_methods", ast.unparse([s for s in stmts_of(fn) if isinstance(s, ast.If) and "cand is not None" in ast.unparse(s.test)][0]))
    out += _fp("tumble_body", " ; ".join(_stmt_texts(find_def(FM, "FullMatcher._tumble"))))
    out += _fp("check_body", " ; ".join(_stmt_texts(find_def(FM, "FullMatcher.check"))))
    out += _fp("do_match_body", " ; ".join(_stmt_texts(find_def(FM, "FullMatcher._do_match"))))
    best = find_def(FM, "FullMatcher._find_best_vector_match")
    out += _fp("best_body", " ; ".join(_stmt_texts(best)[-1:]))
    foms = [s for s in stmts_of(best) if isinstance(s, ast.FunctionDef) and s.name == "fom"]
    if len(foms) != 1:
        raise Missing("the figure of merit `fom` inside _find_best_vector_match")
    out += _fp("fom_body", " ; ".join(_stmt_texts(foms[0])), "the figure of merit that ranks candidate matches")
    return out


# ======================================================================================
# Gen/Udf.lean  --  udf/correlation.py, udf/refinement.py, udf/integration.py
# ======================================================================================
_trcore.GEN_IMPORTS["Udf"] = ["BlobfinderModel.Model.Scalar"]


def _method_body(rel, qual):
    return " ; ".join(_stmt_texts(find_def(rel, qual)))


@fragment("Udf", "correlation_udfs")
def _():
    out = _fp("corr_init", _method_body(UC, "CorrelationUDF.__init__"))
    out += _fp("get_zero_shift_body", _method_body(UC, "CorrelationUDF.get_zero_shift"))
    for cls, nm in (("FastCorrelationUDF", "fast"), ("FullFrameCorrelationUDF", "full")):
        fn = find_def(UC, f"{cls}.process_frame")
        calls = [c for c in ast.walk(fn) if isinstance(c, ast.Call) and ast.unparse(c.func).startswith("ltbc.process_frame_")]
        if len(calls) != 1:
            raise Untranslatable(f"{cls}.process_frame: call of process_frame_*")
        out += _fp(f"udf_{nm}_call", ast.unparse(calls[0].func))
        for k in calls[0].keywords:
            out += _fp(f"udf_{nm}_arg_{k.arg}", ast.unparse(k.value))
        out += _fp(f"udf_{nm}_task_data", _method_body(UC, f"{cls}.get_task_data"))
    out += _fp("udf_result_buffers", _method_body(UC, "CorrelationUDF.get_result_buffers"))
    out += _fp("udf_output_buffers", _method_body(UC, "CorrelationUDF.output_buffers"))
    return out


@fragment("Udf", "sparse_udf")
def _():
    out = _fp("sparse_init", _method_body(UC, "SparseCorrelationUDF.__init__"))
    out += _fp("sparse_task_data", _method_body(UC, "SparseCorrelationUDF.get_task_data"))
    out += _fp("sparse_process_tile", _method_body(UC, "SparseCorrelationUDF.process_tile"))
    out += _fp("sparse_postprocess", _method_body(UC, "SparseCorrelationUDF.postprocess"))
    out += _fp("sparse_result_buffers", _method_body(UC, "SparseCorrelationUDF.get_result_buffers"))
    fn = find_def(UC, "SparseCorrelationUDF.get_task_data")
    oy = find_assign(fn, "offsetY", nth=0)
    env = Env(subst={"self.params.peaks[:, 0, np.newaxis, np.newaxis]": ("peak", INT), "peak_offsetY": ("d", INT),
                     "self.params.peaks[:, 1, np.newaxis, np.newaxis]": ("peak", INT), "peak_offsetX": ("d", INT)},
              vars={"crop_size": ("crop_size", INT)})
    vy, _ = tr(oy.value, env)
    vx, _ = tr(find_assign(fn, "offsetX", nth=0).value, env)
    if vy != vx:
        raise Untranslatable("sparse offsets differ between the axes")
    out += f"def sparse_offset (peak d crop_size : Int) : Int := {vy}\n"
    size = find_assign(fn, "size")
    if not (isinstance(size.value, ast.Tuple) and ast.unparse(size.value.elts[0]) == ast.unparse(size.value.elts[1])):
        raise Untranslatable("sparse template size")
    v, _ = tr(size.value.elts[0], Env(vars={"crop_size": ("crop_size", INT)}))
    out += f"def sparse_size (crop_size : Int) : Int := {v}\n"
    return out


@fragment("Udf", "refinement")
def _():
    out = _fp("fastmatch_postprocess", _method_body(UR, "FastmatchMixin.postprocess"))
    out += _fp("affine_postprocess", _method_body(UR, "AffineMixin.postprocess"))
    out += _fp("apply_match_body", _method_body(UR, "RefinementMixin.apply_match"))
    fn = find_def(UR, "run_refine")
    fp = [c for c in ast.walk(fn) if isinstance(c, ast.Call) and ast.unparse(c.func) == "frame_peaks"]
    if len(fp) != 1:
        raise Missing("frame_peaks call in run_refine")
    out += _fp("refine_frame_peaks_args", ", ".join(f"{k.arg}={ast.unparse(k.value)}" for k in fp[0].keywords))
    out += _fp("refine_peaks_cast", ast.unparse(find_assign(fn, "peaks", nth=0).value))

    def chain(var):
        first = [s for s in stmts_of(fn) if isinstance(s, ast.If) and isinstance(s.test, ast.Compare)
                 and ast.unparse(s.test.left) == var and isinstance(s.test.ops[0], ast.Eq)]
        if len(first) != 1:
            raise Missing(f"dispatch chain on {var}")
        node, pairs = first[0], []
        while True:
            lit = node.test.comparators[0]
            if not (isinstance(lit, ast.Constant) and isinstance(lit.value, str)):
                raise Untranslatable("dispatch literal")
            if len(node.body) != 1 or not isinstance(node.body[0], ast.Assign):
                raise Untranslatable("dispatch branch")
            pairs.append((lit.value, ast.unparse(node.body[0].value)))
            if len(node.orelse) == 1 and isinstance(node.orelse[0], ast.If) and ast.unparse(node.orelse[0].test.left) == var:
                node = node.orelse[0]
                continue
            if len(node.orelse) != 1 or not isinstance(node.orelse[0], ast.Raise) \
                    or not ast.unparse(node.orelse[0].exc).startswith("ValueError"):
                raise Untranslatable("dispatch chain does not end in raise ValueError")
            break
        return pairs
    for var, nm in (("correlation", "dispatch_correlation"), ("match", "dispatch_match")):
        pairs = chain(var)
        body = "".join(f"  if s = {lean_str(k)} then some {lean_str(v)} else\n" for k, v in pairs) + "  none\n"
        out += f"/-- `{var}` -> class chosen by `run_refine`; `none` = ValueError -/\ndef {nm} (s : String) : Option String :=\n{body}"
    cls = [n for n in ast.walk(fn) if isinstance(n, ast.ClassDef)]
    if len(cls) != 1:
        raise Missing("ad-hoc class in run_refine")
    out += _fp("refine_bases", ", ".join(ast.unparse(b) for b in cls[0].bases))
    udf_call = find_assign(fn, "udf")
    out += _fp("refine_udf_kwargs", ", ".join(f"{k.arg}={ast.unparse(k.value)}" for k in udf_call.value.keywords))
    out += _fp("refine_return", ast.unparse([s for s in stmts_of(fn) if isinstance(s, ast.Return)][0].value))
    out += _fp("refine_result_buffers", _method_body(UR, "RefinementMixin.get_result_buffers"))
    return out


@fragment("Udf", "integration")
def _():
    out = _fp("integration_process_frame", _method_body(UI, "IntegrationUDF.process_frame"))
    out += _fp("integration_task_data", _method_body(UI, "IntegrationUDF.get_task_data"))
    out += _fp("integration_result_buffers", _method_body(UI, "IntegrationUDF.get_result_buffers"))
    return out
