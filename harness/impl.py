"""Thin wrappers around the real implementation + structured input generators shared by the
property modules."""
import numpy as np

from libertem_blobfinder.base import correlation as bc
from libertem_blobfinder.base import masks
from libertem_blobfinder.common import patterns as pt


def alloc_out(n, prefill=None, center_dtype=np.int32):
    oc = np.zeros((n, 2), center_dtype)
    orf = np.zeros((n, 2), np.float32)
    oh = np.zeros(n, np.float32)
    oe = np.zeros(n, np.float32)
    if prefill is not None:
        oc[:] = -12345 if prefill != prefill else int(prefill)
        orf[:] = prefill
        oh[:] = prefill
        oe[:] = prefill
    return oc, orf, oh, oe


def run_fast(frame, pattern, peaks, b=None, upsample=False, crop_function=None, crop_bufs=None,
             outs=None, buf_dtype=np.float32):
    c = pattern.get_crop_size()
    n = len(peaks)
    if outs is None:
        outs = alloc_out(n)
    if crop_bufs is None:
        crop_bufs = np.zeros((b if b is not None else max(n, 1), 2 * c, 2 * c), buf_dtype)
    t = pattern.get_template(sig_shape=(2 * c, 2 * c))
    kw = {}
    if crop_function is not None:
        kw["crop_function"] = crop_function
    bc.process_frame_fast(t, c, frame, np.asarray(peaks), outs[0], outs[1], outs[2], outs[3],
                          crop_bufs=crop_bufs, upsample=upsample, **kw)
    return outs


def run_full(frame, pattern, peaks, b=None, upsample=False, crop_function=None, frame_buf=None,
             outs=None):
    c = pattern.get_crop_size()
    n = len(peaks)
    if outs is None:
        outs = alloc_out(n)
    if frame_buf is None:
        frame_buf = np.zeros(frame.shape, np.float32)
    t = pattern.get_template(sig_shape=frame.shape)
    kw = {}
    if crop_function is not None:
        kw["crop_function"] = crop_function
    bc.process_frame_full(t, c, frame, np.asarray(peaks), outs[0], outs[1], outs[2], outs[3],
                          frame_buf=frame_buf, buf_count=b if b is not None else max(n, 1),
                          upsample=upsample, **kw)
    return outs


PATTERN_KINDS = ("circular", "radial_gradient", "background_subtraction", "rgbs", "user")


def make_pattern(kind, radius, search=None, radius_outer=None, user_shape=None):
    if kind == "circular":
        return pt.Circular(radius=radius, search=search)
    if kind == "radial_gradient":
        return pt.RadialGradient(radius=radius, search=search)
    if kind == "background_subtraction":
        return pt.BackgroundSubtraction(radius=radius, search=search, radius_outer=radius_outer)
    if kind == "rgbs":
        return pt.RadialGradientBackgroundSubtraction(radius=radius, search=search,
                                                      radius_outer=radius_outer)
    if kind == "user":
        s = user_shape or (2 * int(np.ceil(radius)) + 3,) * 2
        tmpl = masks.circular(centerX=s[1] // 2, centerY=s[0] // 2, imageSizeX=s[1], imageSizeY=s[0],
                              radius=radius, antialiased=True)
        return pt.UserTemplate(template=tmpl.astype(np.float32), search=search)
    raise ValueError(kind)


def pattern_params(rng, kinds=PATTERN_KINDS, rmin=2.0, rmax=8.0):
    kind = kinds[int(rng.integers(len(kinds)))]
    radius = float(np.round(rng.uniform(rmin, rmax), 2)) if rng.random() < 0.7 else float(rng.integers(int(rmin), int(rmax) + 1))
    p = {"kind": kind, "radius": radius}
    if kind in ("background_subtraction", "rgbs"):
        p["radius_outer"] = float(np.round(radius * rng.uniform(1.2, 1.8), 2))
        p["search"] = float(np.round(max(2 * radius, p["radius_outer"]) * rng.uniform(1.0, 1.2), 2))
    else:
        p["search"] = float(np.round(radius * rng.uniform(1.2, 2.5), 2))
    return p


def pattern_from(p):
    return make_pattern(p["kind"], p["radius"], p.get("search"), p.get("radius_outer"),
                        tuple(p["user_shape"]) if p.get("user_shape") else None)


def noise_frame(rng, shape, kind=None):
    kind = kind or ("poisson", "gauss", "disks", "const", "hot")[int(rng.integers(5))]
    fy, fx = shape
    if kind == "poisson":
        return rng.poisson(rng.uniform(1, 50), shape).astype(np.float32)
    if kind == "gauss":
        return rng.normal(0, rng.uniform(1, 100), shape).astype(np.float32)
    if kind == "const":
        return np.full(shape, float(rng.integers(-5, 100)), np.float32)
    if kind == "hot":
        f = np.zeros(shape, np.float32)
        f[int(rng.integers(fy)), int(rng.integers(fx))] = float(rng.uniform(1, 1e6))
        return f
    f = rng.poisson(3, shape).astype(np.float32)
    for _ in range(int(rng.integers(1, 6))):
        f += masks.circular(centerX=float(rng.uniform(0, fx)), centerY=float(rng.uniform(0, fy)),
                            imageSizeX=fx, imageSizeY=fy, radius=float(rng.uniform(2, 7)),
                            antialiased=True).astype(np.float32) * float(rng.uniform(10, 1000))
    return f
