"""T-layer, kernels: translation of the small numba kernels (loop nests over a 2-D array, slices, reductions) to Lean
definitions over `Int -> Int -> Rat` images with explicit dimensions.

Supported (anything else -> Untranslatable):
  * tuple unpacking of a tuple parameter / `arr.shape` / a call to another translated kernel
  * `name = arr[a:b, c:d]`           -> sub-image `fun i j => arr (a + i) (c + j)` of size `(b - a) x (d - c)`
                                        (in-bounds slices only: Python's clipping of out-of-range slices is not modelled; the
                                        property theorems prove the bounds)
  * `arr[y, x]`, `np.min(arr)`, `arr.sum()`, `arr - scalar`, `np.float32(e)` (dropped: A-FLOAT), `np.sqrt(e)` (parameter)
  * accumulation loops  `acc = 0 ; for y in range(n): for x in range(m): acc += e`   -> `lsum (flat (fun y x => e) n m)`
  * guarded running minimum `res = inf ; for..for..: [locals] ; if c: res = min((res, e))` -> `minOpt (cells filterMap)`
  * `if c: return A  else: ... return B`, scalar lets, `return (e1, e2)`, `return max(0, res)` on a running minimum
"""
import ast

from trcore import tr, tr_prop, Env, Untranslatable, Missing, INT, RAT, BOOL, coerce, stmts_of, find_def


class Arr:
    def __init__(self, fn, n, m):
        self.fn, self.n, self.m = fn, n, m


class KEnv:
    def __init__(self):
        self.env = Env()
        self.arrs = {}
        self.tuples = {}
        self.optmin = {}      # running minima: name -> lean text of Option Rat
        self.kernels = {}     # python name -> (lean name, returns)
        self.n = 0
        self.lines = []

    def copy(self):
        k = KEnv()
        k.env = self.env.copy()
        k.env.vars = dict(self.env.vars)
        k.arrs, k.tuples, k.optmin, k.kernels, k.n = dict(self.arrs), dict(self.tuples), dict(self.optmin), self.kernels, self.n
        return k

    def ph(self, lean, typ):
        self.n += 1
        name = f"__ph{self.n}"
        self.env.vars[name] = (lean, typ)
        return ast.Name(id=name, ctx=ast.Load())


def is_inf(node):
    return ast.unparse(node) in ("np.inf", "np.float32(np.inf)", "float('inf')", "np.float64(np.inf)")


def arr_expr(node, k):
    """array-valued expression -> Arr"""
    if isinstance(node, ast.Name) and node.id in k.arrs:
        return k.arrs[node.id]
    if isinstance(node, ast.Subscript):
        base = arr_expr(node.value, k)
        sl = node.slice
        if isinstance(sl, ast.Tuple) and len(sl.elts) == 2 and all(isinstance(e, ast.Slice) for e in sl.elts):
            parts = []
            for e in sl.elts:
                if e.step is not None or e.lower is None or e.upper is None:
                    raise Untranslatable(f"slice {ast.unparse(node)}")
                lo, tlo = scalar(e.lower, k)
                hi, thi = scalar(e.upper, k)
                if tlo != INT or thi != INT:
                    raise Untranslatable("non-integer slice bound")
                parts.append((lo, hi))
            (ylo, yhi), (xlo, xhi) = parts
            return Arr(f"(fun (i j : Int) => {base.fn} ({ylo} + i) ({xlo} + j))", f"({yhi} - {ylo})", f"({xhi} - {xlo})")
    if isinstance(node, ast.BinOp) and isinstance(node.op, (ast.Sub, ast.Add)):
        try:
            a = arr_expr(node.left, k)
        except Untranslatable:
            a = None
        if a is not None:
            b, tb = scalar(node.right, k)
            sym = "-" if isinstance(node.op, ast.Sub) else "+"
            return Arr(f"(fun (i j : Int) => {a.fn} i j {sym} {coerce(b, tb, RAT)})", a.n, a.m)
    raise Untranslatable(f"array expression {ast.unparse(node)}")


class Lower(ast.NodeTransformer):
    """replace array-specific scalar sub-expressions by placeholder names understood by trcore.tr"""

    def __init__(self, k):
        self.k = k

    def visit_Subscript(self, node):
        k = self.k
        if isinstance(node.value, ast.Attribute) and node.value.attr == "shape" and isinstance(node.slice, ast.Constant) \
                and node.slice.value in (0, 1):
            a = arr_expr(node.value.value, k)
            return k.ph((a.n, a.m)[node.slice.value], INT)
        if isinstance(node.value, ast.Name) and node.value.id in k.tuples and isinstance(node.slice, ast.Constant):
            lean, typ = k.tuples[node.value.id][node.slice.value]
            return k.ph(lean, typ)
        if isinstance(node.slice, ast.Tuple) and len(node.slice.elts) == 2 and \
                not any(isinstance(e, ast.Slice) for e in node.slice.elts):
            base = arr_expr(node.value, k)
            a, ta = scalar(node.slice.elts[0], k)
            b, tb = scalar(node.slice.elts[1], k)
            if ta != INT or tb != INT:
                raise Untranslatable("non-integer array index")
            return k.ph(f"({base.fn} {a} {b})", RAT)
        raise Untranslatable(f"subscript {ast.unparse(node)}")

    def visit_Call(self, node):
        k = self.k
        fn = ast.unparse(node.func)
        if fn in ("np.min", "np.amin") and len(node.args) == 1 and not node.keywords:
            a = arr_expr(node.args[0], k)
            return k.ph(f"(Model.minList (Model.flat {a.fn} {a.n} {a.m}))", RAT)
        if isinstance(node.func, ast.Attribute) and node.func.attr == "sum" and not node.args and not node.keywords:
            a = arr_expr(node.func.value, k)
            return k.ph(f"(Model.lsum (Model.flat {a.fn} {a.n} {a.m}))", RAT)
        if fn in ("np.sqrt", "math.sqrt") and len(node.args) == 1:
            a, ta = scalar(node.args[0], k)
            if "sqrt" not in k.env.vars:
                raise Untranslatable("sqrt without a sqrt parameter")
            return k.ph(f"(sqrt {coerce(a, ta, RAT)})", RAT)
        self.generic_visit(node)
        return node


def scalar(node, k):
    if isinstance(node, ast.Name) and node.id in k.optmin:
        raise Untranslatable(f"running minimum {node.id} used as a number")
    lowered = Lower(k).visit(_copy(node))
    return tr(lowered, k.env)


def prop(node, k):
    """test -> Lean Prop; comparisons against an infinite default are `True`"""
    if isinstance(node, ast.BoolOp):
        sym = " ∧ " if isinstance(node.op, ast.And) else " ∨ "
        return "(" + sym.join(prop(v, k) for v in node.values) + ")"
    if isinstance(node, ast.Compare) and len(node.ops) == 1:
        r = node.comparators[0]
        if isinstance(r, ast.Name) and k.env.vars.get(r.id, (None, None))[1] == "INF":
            if isinstance(node.ops[0], (ast.Lt, ast.LtE)):
                return "True"
            raise Untranslatable("comparison with an infinite bound")
    lowered = Lower(k).visit(_copy(node))
    return tr_prop(lowered, k.env)


def _copy(node):
    return ast.parse(ast.unparse(node), mode="eval").body


def bind(k, name, lean, typ):
    ln = k.env.fresh(name)
    k.lines.append(f"let {ln} : {typ} := {lean}")
    k.env.vars[name] = (ln, typ)


def loop_nest(st):
    """for y in range(A): for x in range(B): body  ->  (y, A, x, B, body)"""
    def rng(f):
        if not (isinstance(f.iter, ast.Call) and ast.unparse(f.iter.func) == "range" and len(f.iter.args) == 1
                and isinstance(f.target, ast.Name) and not f.orelse):
            raise Untranslatable(f"loop header {ast.unparse(f.iter)}")
        return f.target.id, f.iter.args[0]
    y, a = rng(st)
    if len(st.body) != 1 or not isinstance(st.body[0], ast.For):
        raise Untranslatable("loop nest is not two levels deep")
    x, b = rng(st.body[0])
    return y, a, x, b, st.body[0].body


def tr_loop(st, k):
    y, a, x, b, body = loop_nest(st)
    n, tn = scalar(a, k)
    m, tm = scalar(b, k)
    if tn != INT or tm != INT:
        raise Untranslatable("loop bound")
    inner = k.copy()
    inner.lines = []
    inner.env.vars[y] = (y, INT)
    inner.env.vars[x] = (x, INT)
    if all(isinstance(s, ast.AugAssign) and isinstance(s.op, ast.Add) and isinstance(s.target, ast.Name) for s in body):
        for s in body:
            acc = s.target.id
            if k.env.vars.get(acc, (None, None))[0] not in ("(0 : Int)", "(0 : Rat)"):
                raise Untranslatable(f"accumulator {acc} does not start at zero")
            e, te = scalar(s.value, inner)
            k.env.vars[acc] = ("consumed", RAT)
            ln = k.env.fresh(acc)
            k.lines.append(f"let {ln} : Rat := Model.lsum (Model.flat (fun ({y} {x} : Int) => {coerce(e, te, RAT)}) {n} {m})")
            k.env.vars[acc] = (ln, RAT)
        return
    # guarded running minimum
    *pre, last = body
    for s in pre:
        if not (isinstance(s, ast.Assign) and len(s.targets) == 1 and isinstance(s.targets[0], ast.Name)):
            raise Untranslatable(f"loop body statement {ast.unparse(s)[:50]}")
        e, te = scalar(s.value, inner)
        bind(inner, s.targets[0].id, e, te)
    if not (isinstance(last, ast.If) and not last.orelse and len(last.body) == 1 and isinstance(last.body[0], ast.Assign)):
        raise Untranslatable("loop body is neither accumulation nor guarded minimum")
    asg = last.body[0]
    res = asg.targets[0].id if isinstance(asg.targets[0], ast.Name) else None
    v = asg.value
    ok = (res in k.optmin and k.optmin[res] == "none" and isinstance(v, ast.Call) and ast.unparse(v.func) == "min"
          and len(v.args) == 1 and isinstance(v.args[0], ast.Tuple) and len(v.args[0].elts) == 2
          and ast.unparse(v.args[0].elts[0]) == res)
    if not ok:
        raise Untranslatable(f"running minimum update {ast.unparse(asg)}")
    c = prop(last.test, inner)
    e, te = scalar(v.args[0].elts[1], inner)
    lets = " ".join(ln + ";" for ln in inner.lines)
    k.optmin[res] = (f"(Model.minOpt ((Model.irange {n}).flatMap fun ({y} : Int) => (Model.irange {m}).filterMap fun ({x} : Int) => "
                     f"({lets} if {c} then some {coerce(e, te, RAT)} else none)))")


def tr_stmts(stmts, k):
    """-> lean text of the value returned by the statement list"""
    for idx, s in enumerate(stmts):
        if isinstance(s, ast.Return):
            return ret_value(s.value, k)
        if isinstance(s, ast.If):
            rest = stmts[idx + 1:]
            if s.orelse and not rest and isinstance(s.body[-1], ast.Return):
                c = prop(s.test, k)
                k1, k2 = k.copy(), k.copy()
                k1.lines, k2.lines = [], []
                a = tr_stmts(s.body, k1)
                b = tr_stmts(s.orelse, k2)
                return f"if {c} then ({' '.join(x + ';' for x in k1.lines)} {a}) else ({' '.join(x + ';' for x in k2.lines)} {b})"
            raise Untranslatable("if statement without returns on both branches")
        if isinstance(s, ast.For):
            tr_loop(s, k)
            continue
        if isinstance(s, ast.Assign):
            v = s.value
            for t in s.targets:
                if isinstance(t, ast.Tuple):
                    names = [e.id for e in t.elts]
                    if isinstance(v, ast.Name) and v.id in k.tuples:
                        items = k.tuples[v.id]
                    elif isinstance(v, ast.Attribute) and v.attr == "shape":
                        a = arr_expr(v.value, k)
                        items = [(a.n, INT), (a.m, INT)]
                    elif isinstance(v, ast.Call) and ast.unparse(v.func) in k.kernels:
                        lean_name = k.kernels[ast.unparse(v.func)]
                        a = arr_expr(v.args[0], k)
                        call = f"({lean_name} {a.fn} {a.n} {a.m})"
                        items = [(f"{call}.1", RAT), (f"{call}.2", RAT)]
                    else:
                        raise Untranslatable(f"tuple assignment from {ast.unparse(v)}")
                    if len(items) != len(names):
                        raise Untranslatable("tuple arity")
                    for nm, (lean, typ) in zip(names, items):
                        bind(k, nm, lean, typ)
                elif isinstance(t, ast.Name):
                    if is_inf(v):
                        k.optmin[t.id] = "none"
                        continue
                    try:
                        a = arr_expr(v, k)
                    except Untranslatable:
                        a = None
                    if a is not None:
                        fn = k.env.fresh(t.id)
                        k.lines.append(f"let {fn} : Int → Int → Rat := {a.fn}")
                        k.arrs[t.id] = Arr(fn, a.n, a.m)
                        continue
                    if isinstance(v, ast.Attribute) and v.attr == "shape":
                        a = arr_expr(v.value, k)
                        k.tuples[t.id] = [(a.n, INT), (a.m, INT)]
                        continue
                    e, te = scalar(v, k)
                    if e in ("(0 : Int)", "(0 : Rat)"):
                        k.env.vars[t.id] = ("(0 : Rat)", RAT)   # (accumulator) start value zero: used inline
                        continue
                    bind(k, t.id, e, te)
                else:
                    raise Untranslatable(f"assignment target {ast.unparse(t)}")
            continue
        if isinstance(s, ast.Expr) and isinstance(s.value, ast.Constant):
            continue
        raise Untranslatable(f"statement {type(s).__name__}: {ast.unparse(s)[:60]}")
    raise Untranslatable("no return")


def ret_value(v, k):
    if isinstance(v, ast.Tuple):
        parts = []
        for e in v.elts:
            t, tt = scalar(e, k)
            parts.append(coerce(t, tt, RAT))
        return "(" + ", ".join(parts) + ")"
    if isinstance(v, ast.Call) and ast.unparse(v.func) == "max" and len(v.args) == 2 and ast.unparse(v.args[0]) == "0" \
            and isinstance(v.args[1], ast.Name) and v.args[1].id in k.optmin:
        return f"Model.optMax0 {k.optmin[v.args[1].id]}"
    t, tt = scalar(v, k)
    return coerce(t, tt, RAT)


def kernel_def(relpath, qualname, lean_name, params, arrays=(), tuples=None, ret_type="Rat × Rat", kernels=None,
               infinite=(), doc=None):
    """params: [(python name, lean name, type)] scalars; arrays: [python name]; tuples: {python name: [lean scalar names]}"""
    fn = find_def(relpath, qualname)
    k = KEnv()
    k.kernels = kernels or {}
    sig = []
    for a in arrays:
        k.arrs[a] = Arr(a, f"{a}_n", f"{a}_m")
        sig += [f"({a} : Int → Int → Rat)", f"({a}_n {a}_m : Int)"]
    for py, lean, typ in params:
        if typ == "SQRT":
            k.env.vars["sqrt"] = ("sqrt", "FN")
            sig.append("(sqrt : Rat → Rat)")
            continue
        k.env.vars[py] = (lean, typ)
        k.env.counter[lean] = 1
        sig.append(f"({lean} : {typ})")
    for py in infinite:
        k.env.vars[py] = ("inf", "INF")
    for py, items in (tuples or {}).items():
        k.tuples[py] = items
    # every positional argument of the source function must be accounted for
    argnames = [a.arg for a in fn.args.args]
    known = set(k.arrs) | set(k.env.vars) | set(k.tuples)
    missing = [a for a in argnames if a not in known]
    if missing:
        raise Untranslatable(f"{qualname}: unexpected parameters {missing}")
    val = tr_stmts(stmts_of(fn), k)
    body = "\n".join("  " + ln for ln in k.lines + [val])
    d = f"/-- {doc or 'generated from `' + relpath + ':' + qualname + '`'} -/\n"
    return f"{d}def {lean_name} {' '.join(sig)} : {ret_type} :=\n{body}\n"
