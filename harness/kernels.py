"""T-layer, kernels: translation of the small numba kernels (loop nests over a 2-D array, slices, reductions) to Lean
definitions over `Int -> Int -> Rat` images with explicit dimensions.

Supported (anything else -> Untranslatable):
  * tuple unpacking of a tuple parameter / `arr.shape` / a call to another translated kernel
  * `name = arr[a:b, c:d]`           -> sub-image `fun i j => arr (a + i) (c + j)` of size `(b - a) x (d - c)`
                                        (in-bounds slices only: Python's clipping of out-of-range slices is not modelled; the
                                        property theorems prove the bounds)
  * `arr[y, x]`, `np.min(arr)`, `arr.sum()`, `arr - scalar`, `np.float32(e)` (dropped: A-FLOAT), `np.sqrt(e)` (parameter)
  * accumulation loops  `acc = 0 ; for y in range(n): for x in range(m): acc += e`   -> `lsum (flat (fun y x => e) n m)`
  * guarded running minimum `res = inf ; for..for..: [locals] ; if c: res = min((res, e))` -> `minOpt (cells filterMap)`
  * `if c: return A  else: ... return B`, scalar lets, `return (e1, e2)`, `return max(0, res)` on a running minimum
"""
import ast

from trcore import tr, tr_prop, Env, Untranslatable, Missing, INT, RAT, BOOL, coerce, stmts_of, find_def


class Arr:
    def __init__(self, fn, n, m):
        self.fn, self.n, self.m = fn, n, m


class KEnv:
    def __init__(self):
        self.env = Env()
        self.arrs = {}
        self.tuples = {}
        self.optmin = {}      # running minima: name -> lean text of Option Rat
        self.kernels = {}     # python name -> (lean name, returns)
        self.n = 0
        self.lines = []

    def copy(self):
        k = KEnv()
        k.env = self.env.copy()
        k.env.vars = dict(self.env.vars)
        k.arrs, k.tuples, k.optmin, k.kernels, k.n = dict(self.arrs), dict(self.tuples), dict(self.optmin), self.kernels, self.n
        return k

    def ph(self, lean, typ):
        self.n += 1
        name = f"__ph{self.n}"
        self.env.vars[name] = (lean, typ)
        return ast.Name(id=name, ctx=ast.Load())


def is_inf(node):
    return ast.unparse(node) in ("np.inf", "np.float32(np.inf)", "float('inf')", "np.float64(np.inf)")


def arr_expr(node, k):
    """array-valued expression -> Arr"""
    if isinstance(node, ast.Name) and node.id in k.arrs:
        return k.arrs[node.id]
    if isinstance(node, ast.Subscript):
        base = arr_expr(node.value, k)
        sl = node.slice
        if isinstance(sl, ast.Tuple) and len(sl.elts) == 2 and all(isinstance(e, ast.Slice) for e in sl.elts):
            parts = []
            for e in sl.elts:
                if e.step is not None or e.lower is None or e.upper is None:
                    raise Untranslatable(f"slice {ast.unparse(node)}")
                lo, tlo = scalar(e.lower, k)
                hi, thi = scalar(e.upper, k)
                if tlo != INT or thi != INT:
                    raise Untranslatable("non-integer slice bound")
                parts.append((lo, hi))
            (ylo, yhi), (xlo, xhi) = parts
            return Arr(f"(fun (i j : Int) => {base.fn} ({ylo} + i) ({xlo} + j))", f"({yhi} - {ylo})", f"({xhi} - {xlo})")
    if isinstance(node, ast.BinOp) and isinstance(node.op, (ast.Sub, ast.Add)):
        try:
            a = arr_expr(node.left, k)
        except Untranslatable:
            a = None
        if a is not None:
            b, tb = scalar(node.right, k)
            sym = "-" if isinstance(node.op, ast.Sub) else "+"
            return Arr(f"(fun (i j : Int) => {a.fn} i j {sym} {coerce(b, tb, RAT)})", a.n, a.m)
    raise Untranslatable(f"array expression {ast.unparse(node)}")


class Lower(ast.NodeTransformer):
    """replace array-specific scalar sub-expressions by placeholder names understood by trcore.tr"""

    def __init__(self, k):
        self.k = k

    def visit_Subscript(self, node):
        k = self.k
        if isinstance(node.value, ast.Attribute) and node.value.attr == "shape" and isinstance(node.slice, ast.Constant) \
                and node.slice.value in (0, 1):
            a = arr_expr(node.value.value, k)
            return k.ph((a.n, a.m)[node.slice.value], INT)
        if isinstance(node.value, ast.Name) and node.value.id in k.tuples and isinstance(node.slice, ast.Constant):
            lean, typ = k.tuples[node.value.id][node.slice.value]
            return k.ph(lean, typ)
        if isinstance(node.slice, ast.Tuple) and len(node.slice.elts) == 2 and \
                not any(isinstance(e, ast.Slice) for e in node.slice.elts):
            base = arr_expr(node.value, k)
            a, ta = scalar(node.slice.elts[0], k)
            b, tb = scalar(node.slice.elts[1], k)
            if ta != INT or tb != INT:
                raise Untranslatable("non-integer array index")
            return k.ph(f"({base.fn} {a} {b})", RAT)
        raise Untranslatable(f"subscript {ast.unparse(node)}")

    def visit_Call(self, node):
        k = self.k
        fn = ast.unparse(node.func)
        if fn in ("np.min", "np.amin") and len(node.args) == 1 and not node.keywords:
            a = arr_expr(node.args[0], k)
            return k.ph(f"(Model.minList (Model.flat {a.fn} {a.n} {a.m}))", RAT)
        if isinstance(node.func, ast.Attribute) and node.func.attr == "sum" and not node.args and not node.keywords:
            a = arr_expr(node.func.value, k)
            return k.ph(f"(Model.lsum (Model.flat {a.fn} {a.n} {a.m}))", RAT)
        if fn in ("np.sqrt", "math.sqrt") and len(node.args) == 1:
            a, ta = scalar(node.args[0], k)
            if "sqrt" not in k.env.vars:
                raise Untranslatable("sqrt without a sqrt parameter")
            return k.ph(f"(sqrt {coerce(a, ta, RAT)})", RAT)
        self.generic_visit(node)
        return node


def scalar(node, k):
    if isinstance(node, ast.Name) and node.id in k.optmin:
        raise Untranslatable(f"running minimum {node.id} used as a number")
    lowered = Lower(k).visit(_copy(node))
    return tr(lowered, k.env)


def prop(node, k):
    """test -> Lean Prop; comparisons against an infinite default are `True`"""
    if isinstance(node, ast.BoolOp):
        sym = " ∧ " if isinstance(node.op, ast.And) else " ∨ "
        return "(" + sym.join(prop(v, k) for v in node.values) + ")"
    if isinstance(node, ast.Compare) and len(node.ops) > 1:   # chained comparison a < b <= c
        items = [node.left] + list(node.comparators)
        return "(" + " ∧ ".join(prop(ast.Compare(left=l, ops=[op], comparators=[r]), k)
                                for op, l, r in zip(node.ops, items, items[1:])) + ")"
    if isinstance(node, ast.Compare) and len(node.ops) == 1:
        r = node.comparators[0]
        if isinstance(r, ast.Name) and k.env.vars.get(r.id, (None, None))[1] == "INF":
            if isinstance(node.ops[0], (ast.Lt, ast.LtE)):
                return "True"
            raise Untranslatable("comparison with an infinite bound")
    lowered = Lower(k).visit(_copy(node))
    return tr_prop(lowered, k.env)


def _copy(node):
    return ast.parse(ast.unparse(node), mode="eval").body


def bind(k, name, lean, typ):
    ln = k.env.fresh(name)
    k.lines.append(f"let {ln} : {typ} := {lean}")
    k.env.vars[name] = (ln, typ)


def _range_header(f):
    if not (isinstance(f.iter, ast.Call) and ast.unparse(f.iter.func) == "range" and len(f.iter.args) == 1
            and isinstance(f.target, ast.Name) and not f.orelse):
        raise Untranslatable(f"loop header {ast.unparse(f.iter)}")
    return f.target.id, f.iter.args[0]


def _local_let(s, inner):
    if not (isinstance(s, ast.Assign) and len(s.targets) == 1 and isinstance(s.targets[0], ast.Name)):
        raise Untranslatable(f"loop body statement {ast.unparse(s)[:50]}")
    e, te = scalar(s.value, inner)
    bind(inner, s.targets[0].id, e, te)


def _min_update(stmts, res_names, inner):
    """statements of a guarded block that lower a running minimum: optional local lets, then either
    `res = min((res, e))` or `if e < res: res = e`  ->  (res, lean text of e)"""
    *pre, last = stmts
    for s in pre:
        _local_let(s, inner)
    if isinstance(last, ast.Assign) and len(last.targets) == 1 and isinstance(last.targets[0], ast.Name):
        res, v = last.targets[0].id, last.value
        if res in res_names and isinstance(v, ast.Call) and ast.unparse(v.func) == "min" and len(v.args) == 1 \
                and isinstance(v.args[0], ast.Tuple) and len(v.args[0].elts) == 2:
            a, b = v.args[0].elts
            other = b if ast.unparse(a) == res else (a if ast.unparse(b) == res else None)
            if other is not None:
                e, te = scalar(other, inner)
                return res, coerce(e, te, RAT)
    if isinstance(last, ast.If) and not last.orelse and len(last.body) == 1 and isinstance(last.test, ast.Compare) \
            and len(last.test.ops) == 1 and isinstance(last.body[0], ast.Assign) and len(last.body[0].targets) == 1:
        t = last.test
        asg = last.body[0]
        res = ast.unparse(asg.targets[0])
        cand = None
        if isinstance(t.ops[0], ast.Lt) and ast.unparse(t.comparators[0]) == res:
            cand = t.left
        elif isinstance(t.ops[0], ast.Gt) and ast.unparse(t.left) == res:
            cand = t.comparators[0]
        if res in res_names and cand is not None and ast.unparse(asg.value) == ast.unparse(cand):
            e, te = scalar(cand, inner)
            return res, coerce(e, te, RAT)
    raise Untranslatable(f"running minimum update {ast.unparse(last)[:70]}")


def tr_loop(st, k):
    """for y in range(A): [row lets] for x in range(B): [cell lets] (accumulations | guarded minimum update)"""
    y, a = _range_header(st)
    n, tn = scalar(a, k)
    if tn != INT:
        raise Untranslatable("loop bound")
    inner = k.copy()
    inner.lines = []
    inner.env.vars[y] = (y, INT)
    *row_pre, inner_for = st.body
    if not isinstance(inner_for, ast.For):
        raise Untranslatable("loop nest is not two levels deep")
    for s in row_pre:
        _local_let(s, inner)
    x, b = _range_header(inner_for)
    m, tm = scalar(b, k)
    if tm != INT:
        raise Untranslatable("loop bound")
    inner.env.vars[x] = (x, INT)
    body = inner_for.body
    accs = [s for s in body if isinstance(s, ast.AugAssign)]
    if accs:
        if not all(isinstance(s, ast.AugAssign) or isinstance(s, ast.Assign) for s in body):
            raise Untranslatable("accumulation loop with other statements")
        results = []
        for s in body:
            if isinstance(s, ast.Assign):
                _local_let(s, inner)
                continue
            if not (isinstance(s.op, ast.Add) and isinstance(s.target, ast.Name)):
                raise Untranslatable(f"accumulation {ast.unparse(s)}")
            acc = s.target.id
            if k.env.vars.get(acc, (None, None))[0] not in ("(0 : Int)", "(0 : Rat)"):
                raise Untranslatable(f"accumulator {acc} does not start at zero")
            e, te = scalar(s.value, inner)
            lets = " ".join(ln + ";" for ln in inner.lines)
            results.append((acc, f"Model.lsum (Model.flat (fun ({y} {x} : Int) => ({lets} {coerce(e, te, RAT)})) {n} {m})"))
        for acc, lean in results:
            k.env.vars[acc] = ("consumed", RAT)
            ln = k.env.fresh(acc)
            k.lines.append(f"let {ln} : Rat := {lean}")
            k.env.vars[acc] = (ln, RAT)
        return
    # guarded running minimum
    *pre, last = body
    for s in pre:
        _local_let(s, inner)
    if not (isinstance(last, ast.If) and not last.orelse):
        raise Untranslatable("loop body is neither accumulation nor guarded minimum")
    open_min = {r for r, v in k.optmin.items() if v == "none"}
    outer_lets = list(inner.lines)
    c = prop(last.test, inner)
    inner.lines = []
    res, e = _min_update(last.body, open_min, inner)
    guard_lets = " ".join(ln + ";" for ln in inner.lines)
    lets = " ".join(ln + ";" for ln in outer_lets)
    k.optmin[res] = (f"(Model.minOpt ((Model.irange {n}).flatMap fun ({y} : Int) => (Model.irange {m}).filterMap fun ({x} : Int) => "
                     f"({lets} if {c} then ({guard_lets} some {e}) else none)))")


def tr_stmts(stmts, k):
    """-> lean text of the value returned by the statement list"""
    for idx, s in enumerate(stmts):
        if isinstance(s, ast.Return):
            return ret_value(s.value, k)
        if isinstance(s, ast.If):
            rest = stmts[idx + 1:]
            if s.orelse and not rest and isinstance(s.body[-1], ast.Return):
                c = prop(s.test, k)
                k1, k2 = k.copy(), k.copy()
                k1.lines, k2.lines = [], []
                a = tr_stmts(s.body, k1)
                b = tr_stmts(s.orelse, k2)
                return f"if {c} then ({' '.join(x + ';' for x in k1.lines)} {a}) else ({' '.join(x + ';' for x in k2.lines)} {b})"
            if not s.orelse and rest and isinstance(s.body[-1], ast.Return):   # early return: the rest is the else branch
                c = prop(s.test, k)
                k1, k2 = k.copy(), k.copy()
                k1.lines, k2.lines = [], []
                a = tr_stmts(s.body, k1)
                b = tr_stmts(rest, k2)
                return f"if {c} then ({' '.join(x + ';' for x in k1.lines)} {a}) else ({' '.join(x + ';' for x in k2.lines)} {b})"
            raise Untranslatable("if statement without returns on both branches")
        if isinstance(s, ast.For):
            tr_loop(s, k)
            continue
        if isinstance(s, ast.Assign):
            v = s.value
            for t in s.targets:
                if isinstance(t, ast.Tuple):
                    names = [e.id for e in t.elts]
                    if isinstance(v, ast.Name) and v.id in k.tuples:
                        items = k.tuples[v.id]
                    elif isinstance(v, ast.Attribute) and v.attr == "shape":
                        a = arr_expr(v.value, k)
                        items = [(a.n, INT), (a.m, INT)]
                    elif isinstance(v, ast.Call) and ast.unparse(v.func) in k.kernels:
                        lean_name = k.kernels[ast.unparse(v.func)]
                        a = arr_expr(v.args[0], k)
                        call = f"({lean_name} {a.fn} {a.n} {a.m})"
                        items = [(f"{call}.1", RAT), (f"{call}.2", RAT)]
                    else:
                        raise Untranslatable(f"tuple assignment from {ast.unparse(v)}")
                    if len(items) != len(names):
                        raise Untranslatable("tuple arity")
                    for nm, (lean, typ) in zip(names, items):
                        bind(k, nm, lean, typ)
                elif isinstance(t, ast.Name):
                    if is_inf(v):
                        k.optmin[t.id] = "none"
                        continue
                    try:
                        a = arr_expr(v, k)
                    except Untranslatable:
                        a = None
                    if a is not None:
                        fn = k.env.fresh(t.id)
                        k.lines.append(f"let {fn} : Int → Int → Rat := {a.fn}")
                        k.arrs[t.id] = Arr(fn, a.n, a.m)
                        continue
                    if isinstance(v, ast.Attribute) and v.attr == "shape":
                        a = arr_expr(v.value, k)
                        k.tuples[t.id] = [(a.n, INT), (a.m, INT)]
                        continue
                    e, te = scalar(v, k)
                    if e in ("(0 : Int)", "(0 : Rat)"):
                        k.env.vars[t.id] = ("(0 : Rat)", RAT)   # (accumulator) start value zero: used inline
                        continue
                    bind(k, t.id, e, te)
                else:
                    raise Untranslatable(f"assignment target {ast.unparse(t)}")
            continue
        if isinstance(s, ast.Expr) and isinstance(s.value, ast.Constant):
            continue
        raise Untranslatable(f"statement {type(s).__name__}: {ast.unparse(s)[:60]}")
    raise Untranslatable("no return")


def ret_value(v, k):
    if isinstance(v, ast.Tuple):
        parts = []
        for e in v.elts:
            t, tt = scalar(e, k)
            parts.append(coerce(t, tt, RAT))
        return "(" + ", ".join(parts) + ")"
    if isinstance(v, ast.Call) and ast.unparse(v.func) == "max" and len(v.args) == 2 and ast.unparse(v.args[0]) == "0" \
            and isinstance(v.args[1], ast.Name) and v.args[1].id in k.optmin:
        return f"Model.optMax0 {k.optmin[v.args[1].id]}"
    t, tt = scalar(v, k)
    return coerce(t, tt, RAT)


def kernel_def(relpath, qualname, lean_name, params, arrays=(), tuples=None, ret_type="Rat × Rat", kernels=None,
               infinite=(), doc=None):
    """params: [(python name, lean name, type)] scalars; arrays: [python name]; tuples: {python name: [lean scalar names]}"""
    fn = find_def(relpath, qualname)
    k = KEnv()
    k.kernels = kernels or {}
    sig = []
    for a in arrays:
        k.arrs[a] = Arr(a, f"{a}_n", f"{a}_m")
        sig += [f"({a} : Int → Int → Rat)", f"({a}_n {a}_m : Int)"]
    for py, lean, typ in params:
        if typ == "SQRT":
            k.env.vars["sqrt"] = ("sqrt", "FN")
            sig.append("(sqrt : Rat → Rat)")
            continue
        k.env.vars[py] = (lean, typ)
        k.env.counter[lean] = 1
        sig.append(f"({lean} : {typ})")
    for py in infinite:
        k.env.vars[py] = ("inf", "INF")
    for py, items in (tuples or {}).items():
        k.tuples[py] = items
    # every positional argument of the source function must be accounted for
    argnames = [a.arg for a in fn.args.args]
    known = set(k.arrs) | set(k.env.vars) | set(k.tuples)
    missing = [a for a in argnames if a not in known]
    if missing:
        raise Untranslatable(f"{qualname}: unexpected parameters {missing}")
    val = tr_stmts(stmts_of(fn), k)
    body = "\n".join("  " + ln for ln in k.lines + [val])
    d = f"/-- {doc or 'generated from `' + relpath + ':' + qualname + '`'} -/\n"
    return f"{d}def {lean_name} {' '.join(sig)} : {ret_type} :=\n{body}\n"


def inlined_return(fn):
    """function whose body is `name = expr` statements followed by one `return expr`: the return expression with the
    locals substituted (each local assigned once)"""
    body = stmts_of(fn)
    if not body or not isinstance(body[-1], ast.Return) or body[-1].value is None:
        raise Untranslatable(f"{fn.name}: no final return")
    local = {}
    for st in body[:-1]:
        if not (isinstance(st, ast.Assign) and len(st.targets) == 1 and isinstance(st.targets[0], ast.Name)
                and st.targets[0].id not in local):
            raise Untranslatable(f"{fn.name}: statement {ast.unparse(st)[:50]}")

        class Sub(ast.NodeTransformer):
            def visit_Name(self, n):
                return _copy(local[n.id]) if n.id in local else n
        local[st.targets[0].id] = Sub().visit(_copy(st.value))

    class Sub2(ast.NodeTransformer):
        def visit_Name(self, n):
            return _copy(local[n.id]) if n.id in local else n
    return Sub2().visit(_copy(body[-1].value))


# ----------------------------------------------------------------------------------------------------------------
# the per-peak body of `evaluate_correlations`
# ----------------------------------------------------------------------------------------------------------------

def _shift_component(relpath, comp, anchor, crop, typ):
    """`_shift(relative_center, anchor, crop_size)` for one component: the return expression of `_shift` with the vector
    arguments replaced by one component each and `np.array((crop_size, crop_size))` by `crop_size`"""
    fn = find_def(relpath, "_shift")
    args = [a.arg for a in fn.args.args]
    if len(args) != 3:
        raise Untranslatable("_shift does not take three arguments")
    ret_expr = inlined_return(fn)

    class Sub(ast.NodeTransformer):
        def visit_Call(self, node):
            if ast.unparse(node.func) == "np.array" and len(node.args) == 1 and isinstance(node.args[0], ast.Tuple) \
                    and all(ast.unparse(e) == args[2] for e in node.args[0].elts) and len(node.args[0].elts) == 2:
                return ast.Name(id=args[2], ctx=ast.Load())
            self.generic_visit(node)
            return node
    expr = Sub().visit(_copy(ret_expr))
    env = Env(vars={args[0]: (comp, typ), args[1]: (anchor, INT), args[2]: (crop, INT)})
    return tr(expr, env)


def evaluate_loop_def(relpath, lean_name="evaluate_one"):
    fn = find_def(relpath, "evaluate_correlations")
    loops = [s for s in stmts_of(fn) if isinstance(s, ast.For)]
    if len(loops) != 1 or not isinstance(stmts_of(fn)[-1], ast.For):
        raise Untranslatable("evaluate_correlations is not a single loop")
    loop = loops[0]
    counts = {"len(corrs)"}
    for s0 in stmts_of(fn)[:-1]:   # hoisted loop bound
        if isinstance(s0, ast.Assign) and len(s0.targets) == 1 and isinstance(s0.targets[0], ast.Name) \
                and ast.unparse(s0.value) == "len(corrs)":
            counts.add(s0.targets[0].id)
        else:
            raise Untranslatable(f"evaluate_correlations statement before the loop: {ast.unparse(s0)[:50]}")
    if not (isinstance(loop.target, ast.Name) and isinstance(loop.iter, ast.Call) and ast.unparse(loop.iter.func) == "range"
            and len(loop.iter.args) == 1 and ast.unparse(loop.iter.args[0]) in counts):
        raise Untranslatable(f"evaluate_correlations loop header {ast.unparse(loop.iter)}")
    i = loop.target.id
    k = KEnv()
    k.kernels = {"center_of_mass": "center_of_mass"}
    k.env.vars["sqrt"] = ("sqrt", "FN")
    k.env.vars["crop_size"] = ("crop_size", INT)
    k.tuples[f"peaks[{i}]"] = [("peak0", INT), ("peak1", INT)]
    outs = {}
    arr_name = None
    for s in loop.body:
        if not (isinstance(s, ast.Assign) and len(s.targets) == 1):
            raise Untranslatable(f"evaluate_correlations body statement {ast.unparse(s)[:50]}")
        t, v = s.targets[0], s.value
        tv = ast.unparse(v)
        if isinstance(t, ast.Name) and tv == f"corrs[{i}]":
            arr_name = t.id
            k.arrs[t.id] = Arr(t.id, f"{t.id}_n", f"{t.id}_m")
            continue
        if isinstance(t, ast.Name) and tv == f"peaks[{i}]":   # alias of the peak of this iteration
            k.tuples[t.id] = k.tuples[f"peaks[{i}]"]
            continue
        if isinstance(t, ast.Name) and isinstance(v, ast.Call) and ast.unparse(v.func) == "unravel_index":
            if [ast.unparse(a) for a in v.args] != [f"np.argmax({arr_name})", f"{arr_name}.shape"]:
                raise Untranslatable(f"unravel_index arguments {tv}")
            a = k.arrs[arr_name]
            k.lines.append(f"let idx : Int := ((Model.argmaxFirst (Model.flat {a.fn} {a.n} {a.m}) : Nat) : Int)")
            bind(k, t.id + "_y", f"idx / {a.m}", INT)
            bind(k, t.id + "_x", f"idx % {a.m}", INT)
            k.tuples[t.id] = [k.env.vars[t.id + "_y"], k.env.vars[t.id + "_x"]]
            continue
        if isinstance(t, ast.Name) and isinstance(v, ast.Call) and ast.unparse(v.func) == "np.array" and len(v.args) == 1 \
                and isinstance(v.args[0], ast.Call) and ast.unparse(v.args[0].func) == "refine_center":
            c = v.args[0]
            if len(c.args) != 3 or c.keywords or not (isinstance(c.args[0], ast.Name) and c.args[0].id in k.tuples):
                raise Untranslatable(f"refine_center call {ast.unparse(c)}")
            (cy, _), (cx, _) = k.tuples[c.args[0].id]
            r, tr_ = scalar(c.args[1], k)
            a = arr_expr(c.args[2], k)
            call = f"(refine_center {a.fn} {a.n} {a.m} {cy} {cx} {r})"
            bind(k, t.id + "_y", f"{call}.1", RAT)
            bind(k, t.id + "_x", f"{call}.2", RAT)
            k.tuples[t.id] = [k.env.vars[t.id + "_y"], k.env.vars[t.id + "_x"]]
            continue
        if isinstance(t, ast.Name) and isinstance(v, ast.Call) and ast.unparse(v.func) in ("np.float32", "np.float64") \
                and isinstance(v.args[0], ast.Subscript) and isinstance(v.args[0].slice, ast.Name) \
                and v.args[0].slice.id in k.tuples:
            a = arr_expr(v.args[0].value, k)
            (cy, _), (cx, _) = k.tuples[v.args[0].slice.id]
            bind(k, t.id, f"({a.fn} {cy} {cx})", RAT)
            continue
        if isinstance(t, ast.Subscript) and ast.unparse(t.slice) == i and isinstance(t.value, ast.Name):
            out = t.value.id
            if isinstance(v, ast.Call) and ast.unparse(v.func) == "_shift":
                anchor_ok = ast.unparse(v.args[1]) == f"peaks[{i}]" or (
                    isinstance(v.args[1], ast.Name) and k.tuples.get(v.args[1].id) is k.tuples[f"peaks[{i}]"])
                if len(v.args) != 3 or not anchor_ok or ast.unparse(v.args[2]) != "crop_size":
                    raise Untranslatable(f"_shift call {tv}")
                src = v.args[0]
                if isinstance(src, ast.Call) and ast.unparse(src.func) == "np.array" and len(src.args) == 1:
                    src = src.args[0]
                if not (isinstance(src, ast.Name) and src.id in k.tuples):
                    raise Untranslatable(f"_shift argument {ast.unparse(v.args[0])}")
                comps = []
                for (val, typ), anchor in zip(k.tuples[src.id], ("peak0", "peak1")):
                    e, te = _shift_component(relpath, val, anchor, "crop_size", typ)
                    comps.append(coerce(e, te, typ))
                outs[out] = "(" + ", ".join(comps) + ")"
                continue
            if isinstance(v, ast.Call) and ast.unparse(v.func) in ("np.float32", "np.float64") and isinstance(v.args[0], ast.Call) \
                    and ast.unparse(v.args[0].func) == "peak_elevation":
                c = v.args[0]
                if len(c.args) != 3 or c.keywords or not (isinstance(c.args[0], ast.Name) and c.args[0].id in k.tuples):
                    raise Untranslatable(f"peak_elevation call {ast.unparse(c)}")
                (py, _), (px, _) = k.tuples[c.args[0].id]
                a = arr_expr(c.args[1], k)
                h, th = scalar(c.args[2], k)
                pe = find_def(relpath, "peak_elevation")
                names_ = [x.arg for x in pe.args.args]
                dflt = dict(zip(names_[len(names_) - len(pe.args.defaults):], pe.args.defaults))
                if names_[:3] != [names_[0], names_[1], names_[2]] or "r_min" not in dflt or ast.unparse(dflt.get("r_max")) != "np.inf":
                    raise Untranslatable("peak_elevation defaults")
                rmin, trm = tr(dflt["r_min"], Env())
                outs[out] = f"(peak_elevation {a.fn} {a.n} {a.m} sqrt {py} {px} {coerce(h, th, RAT)} {coerce(rmin, trm, RAT)})"
                continue
            e, te = scalar(v, k)
            outs[out] = coerce(e, te, RAT)
            continue
        raise Untranslatable(f"evaluate_correlations body statement {ast.unparse(s)[:60]}")
    want = ["out_centers", "out_refineds", "out_heights", "out_elevations"]
    if sorted(outs) != sorted(want):
        raise Untranslatable(f"evaluate_correlations writes {sorted(outs)}")
    a = k.arrs[arr_name]
    body = "\n".join("  " + ln for ln in k.lines + ["(" + ", ".join(outs[w] for w in want) + ")"])
    return ("/-- one iteration of the loop of `evaluate_correlations`: (centre, refined, height, elevation) of one correlation "
            "map, re-anchored with `_shift`; the square root is a parameter, `none` = `+inf` -/\n"
            f"def {lean_name} ({a.fn} : Int → Int → Rat) ({a.n} {a.m} : Int) (sqrt : Rat → Rat) (peak0 peak1 crop_size : Int) : "
            f"(Int × Int) × (Rat × Rat) × Rat × Option Rat :=\n{body}\n")


# ----------------------------------------------------------------------------------------------------------------
# per-cell store kernels:  for i: for y: for x: out[i, y, x] = ...   (crop_disks_from_frame)
# ----------------------------------------------------------------------------------------------------------------

class _Inline(ast.NodeTransformer):
    """inline calls of local single-return helper functions (closures over the enclosing arguments)"""

    def __init__(self, helpers):
        self.helpers = helpers

    def visit_Call(self, node):
        self.generic_visit(node)
        if isinstance(node.func, ast.Name) and node.func.id in self.helpers and not node.keywords:
            params, body = self.helpers[node.func.id]
            if len(params) != len(node.args):
                raise Untranslatable(f"helper {node.func.id}: arity")
            mapping = dict(zip(params, node.args))

            class Sub(ast.NodeTransformer):
                def visit_Name(self, n):
                    return _copy(mapping[n.id]) if n.id in mapping else n
            return Sub().visit(_copy(body))
        return node


def cell_kernel_def(relpath, qualname, lean_name, doc):
    """`out[i, y, x] = (frame[a, b] | 0)` chosen by a condition on integers, for one peak `(peak0, peak1)`:
    -> def lean_name {α} [OfNat α 0] (frame) (fy fx crop_size peak0 peak1 y x : Int) : α"""
    fn = find_def(relpath, qualname)
    args = [a.arg for a in fn.args.args]
    if len(args) != 4:
        raise Untranslatable(f"{qualname}: arguments {args}")
    peaks_n, frame_n, crop_n, out_n = args
    helpers = {}
    body = []
    for s in stmts_of(fn):
        if isinstance(s, ast.FunctionDef):
            inner = stmts_of(s)
            if len(inner) != 1 or not isinstance(inner[0], ast.Return) or s.args.defaults or s.args.kwonlyargs:
                raise Untranslatable(f"helper {s.name} is not a single return")
            helpers[s.name] = ([a.arg for a in s.args.args], inner[0].value)
        else:
            body.append(s)
    inl = _Inline(helpers)
    env = Env(vars={crop_n: ("crop_size", INT)})
    for nme in ("fy", "fx", "crop_size", "peak0", "peak1", "y", "x"):
        env.counter[nme] = 1
    lines = []

    def let(name, node):
        txt, t = tr(inl.visit(_copy(node)), env)
        ln = env.fresh(name)
        lines.append(f"let {ln} : {t} := {txt}")
        env.vars[name] = (ln, t)

    # prologue: `a, b = frame.shape`, then the loop over the peaks
    *pro, loop_i = body
    for s in pro:
        if isinstance(s, ast.Assign) and len(s.targets) == 1 and isinstance(s.targets[0], ast.Tuple) \
                and ast.unparse(s.value) == f"{frame_n}.shape" and len(s.targets[0].elts) == 2:
            env.vars[s.targets[0].elts[0].id] = ("fy", INT)
            env.vars[s.targets[0].elts[1].id] = ("fx", INT)
        else:
            raise Untranslatable(f"{qualname}: statement before the loops: {ast.unparse(s)[:50]}")
    env.subst[f"{frame_n}.shape[0]"] = ("fy", INT)
    env.subst[f"{frame_n}.shape[1]"] = ("fx", INT)
    if not (isinstance(loop_i, ast.For) and isinstance(loop_i.target, ast.Name)
            and ast.unparse(loop_i.iter) == f"range(len({peaks_n}))"):
        raise Untranslatable(f"{qualname}: outer loop")
    i = loop_i.target.id
    env.subst[f"{peaks_n}[{i}][0]"] = ("peak0", INT)
    env.subst[f"{peaks_n}[{i}][1]"] = ("peak1", INT)

    def descend(stmts, var, expected_iter):
        *pre, loop = stmts
        for s in pre:
            if isinstance(s, ast.Assign) and len(s.targets) == 1 and isinstance(s.targets[0], ast.Name):
                if ast.unparse(s.value) == f"{peaks_n}[{i}]":      # alias of the current peak
                    env.subst[f"{s.targets[0].id}[0]"] = ("peak0", INT)
                    env.subst[f"{s.targets[0].id}[1]"] = ("peak1", INT)
                else:
                    let(s.targets[0].id, s.value)
            else:
                raise Untranslatable(f"{qualname}: statement {ast.unparse(s)[:50]}")
        if not (isinstance(loop, ast.For) and isinstance(loop.target, ast.Name) and ast.unparse(loop.iter) == expected_iter):
            raise Untranslatable(f"{qualname}: loop `for {ast.unparse(loop.target)} in {ast.unparse(loop.iter)}` "
                                 f"is not over {expected_iter}")
        env.vars[loop.target.id] = (var, INT)
        return loop.body

    b_y = descend(loop_i.body, "y", f"range({out_n}.shape[1])")
    b_x = descend(b_y, "x", f"range({out_n}.shape[2])")
    *pre, final = b_x
    for s in pre:
        if isinstance(s, ast.Assign) and len(s.targets) == 1 and isinstance(s.targets[0], ast.Name):
            let(s.targets[0].id, s.value)
        else:
            raise Untranslatable(f"{qualname}: statement {ast.unparse(s)[:50]}")
    if not (isinstance(final, ast.If) and len(final.body) == 1 and len(final.orelse) == 1):
        raise Untranslatable(f"{qualname}: the cell is not written by an if/else")
    cond = tr_prop(inl.visit(_copy(final.test)), env)
    yv = [k for k, v in env.vars.items() if v == ("y", INT)][0]
    xv = [k for k, v in env.vars.items() if v == ("x", INT)][0]

    def value(st):
        if not (isinstance(st, ast.Assign) and ast.unparse(st.targets[0]) == f"{out_n}[{i}, {yv}, {xv}]"):
            raise Untranslatable(f"{qualname}: store `{ast.unparse(st)[:60]}`")
        v = st.value
        if isinstance(v, ast.Constant) and v.value == 0:
            return "(0 : α)"
        if isinstance(v, ast.Subscript) and ast.unparse(v.value) == frame_n and isinstance(v.slice, ast.Tuple) \
                and len(v.slice.elts) == 2:
            a, ta = tr(inl.visit(_copy(v.slice.elts[0])), env)
            b, tb = tr(inl.visit(_copy(v.slice.elts[1])), env)
            if ta != INT or tb != INT:
                raise Untranslatable("frame index type")
            return f"frame {a} {b}"
        raise Untranslatable(f"{qualname}: stored value `{ast.unparse(v)}`")
    ret = f"if {cond} then {value(final.body[0])} else {value(final.orelse[0])}"
    bodytxt = "\n".join("  " + ln for ln in lines + [ret])
    return (f"/-- {doc} -/\ndef {lean_name} {{α : Type}} [OfNat α 0] (frame : Int → Int → α) "
            f"(fy fx crop_size peak0 peak1 y x : Int) : α :=\n{bodytxt}\n")


# ----------------------------------------------------------------------------------------------------------------
# the slicing crop back-end:  out[i] = 0 ; out[i, ty, tx] = frame[sy, sx]   with computed slice bounds
# ----------------------------------------------------------------------------------------------------------------

def _helper_expr(fndef):
    """body of a small helper as one expression: `return e`, or `if c: return a` followed by `return b`
    (also with else) -> conditional expression"""
    body = stmts_of(fndef)
    if len(body) == 1 and isinstance(body[0], ast.Return):
        return body[0].value
    if len(body) == 2 and isinstance(body[0], ast.If) and len(body[0].body) == 1 and isinstance(body[0].body[0], ast.Return) \
            and not body[0].orelse and isinstance(body[1], ast.Return):
        return ast.IfExp(test=body[0].test, body=body[0].body[0].value, orelse=body[1].value)
    if len(body) == 1 and isinstance(body[0], ast.If) and len(body[0].body) == 1 and len(body[0].orelse) == 1 \
            and isinstance(body[0].body[0], ast.Return) and isinstance(body[0].orelse[0], ast.Return):
        return ast.IfExp(test=body[0].test, body=body[0].body[0].value, orelse=body[0].orelse[0].value)
    raise Untranslatable(f"helper {fndef.name} is not a single (conditional) return")


def slice_kernel_def(relpath, qualname):
    from trcore import tr_block, OPTINT
    fn = find_def(relpath, qualname)
    args = [a.arg for a in fn.args.args]
    if len(args) != 4:
        raise Untranslatable(f"{qualname}: arguments {args}")
    peaks_n, frame_n, crop_n, out_n = args
    helpers = {}
    body = []
    for s in stmts_of(fn):
        if isinstance(s, ast.FunctionDef):
            helpers[s.name] = ([a.arg for a in s.args.args], _helper_expr(s))
        else:
            body.append(s)
    # module-level helpers called from the body
    mod = tree_of(relpath)
    for node in ast.walk(ast.Module(body=body, type_ignores=[])):
        if isinstance(node, ast.Call) and isinstance(node.func, ast.Name) and node.func.id not in helpers \
                and node.func.id not in ("max", "min", "abs", "int", "range", "len"):
            for top in mod.body:
                if isinstance(top, ast.FunctionDef) and top.name == node.func.id:
                    helpers[top.name] = ([a.arg for a in top.args.args], _helper_expr(top))
    inl = _Inline(helpers)
    env = Env(vars={crop_n: ("crop_size", INT)})
    for nme in ("fy", "fx", "crop_size", "peak0", "peak1", "h", "w"):
        env.counter[nme] = 1
    env.subst[f"{out_n}.shape[1]"] = ("h", INT)
    env.subst[f"{out_n}.shape[2]"] = ("w", INT)
    env.subst[f"{frame_n}.shape[0]"] = ("fy", INT)
    env.subst[f"{frame_n}.shape[1]"] = ("fx", INT)
    *pro, loop = body
    for s in pro:
        if isinstance(s, ast.Assign) and len(s.targets) == 1 and isinstance(s.targets[0], ast.Tuple) \
                and ast.unparse(s.value) == f"{frame_n}.shape" and len(s.targets[0].elts) == 2:
            env.vars[s.targets[0].elts[0].id] = ("fy", INT)
            env.vars[s.targets[0].elts[1].id] = ("fx", INT)
        elif isinstance(s, ast.Assign) and "sparseconverter" in ast.unparse(s.value):
            continue   # choice of the array back-end: not part of the slice arithmetic
        else:
            raise Untranslatable(f"{qualname}: statement before the loop: {ast.unparse(s)[:50]}")
    if not (isinstance(loop, ast.For) and isinstance(loop.target, ast.Name)
            and ast.unparse(loop.iter) == f"range(len({peaks_n}))"):
        raise Untranslatable(f"{qualname}: loop over the peaks")
    i = loop.target.id
    env.subst[f"{peaks_n}[{i}][0]"] = ("peak0", INT)
    env.subst[f"{peaks_n}[{i}][1]"] = ("peak1", INT)
    lines = []
    zero_fill = False
    store = None
    sources = {}
    for s in loop.body:
        src = ast.unparse(s)
        if isinstance(s, ast.Assign) and len(s.targets) == 1 and isinstance(s.targets[0], ast.Name) \
                and ast.unparse(s.value) == f"{peaks_n}[{i}]":
            env.subst[f"{s.targets[0].id}[0]"] = ("peak0", INT)
            env.subst[f"{s.targets[0].id}[1]"] = ("peak1", INT)
            continue
        if src == f"{out_n}[{i}] = 0":
            if store is None:
                zero_fill = True
            continue
        if isinstance(s, ast.Assign) and isinstance(s.targets[0], ast.Subscript):
            if store is not None:
                raise Untranslatable("more than one buffer store in the slicing crop")
            store = s
            continue
        if store is not None:
            raise Untranslatable("statements after the buffer store")
        if isinstance(s, ast.Assign) and len(s.targets) == 1 and isinstance(s.targets[0], ast.Name) \
                and isinstance(s.value, ast.Subscript) and ast.unparse(s.value.value) == frame_n:
            sources[s.targets[0].id] = s.value      # `source = frame[a:b, c:d]`
            continue
        s2 = inl.visit(_copy_stmt(s))
        ls, r = tr_block([s2], env)
        if r is not None:
            raise Untranslatable("return in the slicing crop")
        lines += ls
    if store is None:
        raise Missing("buffer store of the slicing crop")
    tgt = store.targets[0]
    if ast.unparse(tgt.value) != out_n or not isinstance(tgt.slice, ast.Tuple) or len(tgt.slice.elts) != 3 \
            or ast.unparse(tgt.slice.elts[0]) != i:
        raise Untranslatable("target of the slicing crop store")
    val = store.value
    if isinstance(val, ast.Call) and ast.unparse(val.func) == "sparseconverter.for_backend":
        val = val.args[0]
    if isinstance(val, ast.Name) and val.id in sources:
        val = sources[val.id]
    if not (isinstance(val, ast.Subscript) and ast.unparse(val.value) == frame_n and isinstance(val.slice, ast.Tuple)
            and len(val.slice.elts) == 2):
        raise Untranslatable("source of the slicing crop store")

    def bound(e):
        if e is None:
            return "(none : Option Int)"
        txt, t = tr(inl.visit(_copy(e)), env)
        return coerce(txt, t, OPTINT)
    fields = []
    for label, sl in (("t_y", tgt.slice.elts[1]), ("t_x", tgt.slice.elts[2]), ("s_y", val.slice.elts[0]), ("s_x", val.slice.elts[1])):
        if not isinstance(sl, ast.Slice) or sl.step is not None:
            raise Untranslatable(f"{label} is not a plain slice")
        fields.append(f"{label}_lo := {bound(sl.lower)}")
        fields.append(f"{label}_hi := {bound(sl.upper)}")
    ret = "{ " + ", ".join(fields) + " }"
    bodytxt = "\n".join("  " + ln for ln in lines + [ret])
    return (
        "/-- bounds of the slice assignment `out_crop_bufs[i, t_y, t_x] = frame[s_y, s_x]` of\n"
        "`crop_disks_from_frame_slicing` (`none` = omitted bound / Python `None`) -/\n"
        "structure SliceBounds where\n  t_y_lo : Option Int\n  t_y_hi : Option Int\n"
        "  t_x_lo : Option Int\n  t_x_hi : Option Int\n  s_y_lo : Option Int\n  s_y_hi : Option Int\n"
        "  s_x_lo : Option Int\n  s_x_hi : Option Int\n\n"
        "def sl_bounds (fy fx crop_size peak0 peak1 h w : Int) : SliceBounds :=\n" + bodytxt + "\n\n"
        "/-- does `out_crop_bufs[i] = 0` precede the slice store in the loop body? -/\n"
        f"def sl_zero_fill : Bool := {'true' if zero_fill else 'false'}\n")


def _copy_stmt(s):
    return ast.parse(ast.unparse(s)).body[0]


def tree_of(relpath):
    from trcore import tree
    return tree(relpath)
