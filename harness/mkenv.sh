#!/bin/bash
# dev tooling: mkenv.sh <dir>  -- scratch environment <dir>/{verif,repo}: a copy of /verif (with its Lean build) and a
# git worktree of /repo, so seeded changes / drills run without touching /repo (use: VERIF_REPO=<dir>/repo <dir>/verif/...)
d=$1; V=$(cd "$(dirname "$0")/.." && pwd)
mkdir -p $d
if [ -d $d/repo ]; then git -C $d/repo checkout -q -- . ; else git -C /repo worktree add -q --detach $d/repo HEAD; fi
git -C $d/repo checkout -q --detach $(git -C /repo rev-parse HEAD)
rsync -a --delete --exclude .git $V/ $d/verif/
echo "env ready: $d"
