"""Regenerates /verif/MANIFEST.json from the table below (run after adding a property)."""
import json
import os
import subprocess

VERIF = os.path.dirname(os.path.dirname(os.path.abspath(__file__)))

CLAIMED = {
    # id: (text, level_note, technique, design_ref)
    "C13": (
        "Machine-checked proof (Lean 4) that both cropping back-ends equal the zero-padded window "
        "specification for every frame size, crop size, integer peak, frame content and previous "
        "buffer content, that the slice assignment is shape-consistent and in bounds, stated on "
        "definitions regenerated from the Python source on every run; plus exhaustive correspondence "
        "on small shapes.",
        "Lean kernel + propext/Classical.choice/Quot.sound; translator (harness/trcore.py, fragments.py); "
        "A-LOOP (loop nests / NumPy slice assignment behave as documented; slice normalisation compared "
        "exhaustively with Python); sparseconverter identity.",
        "Lean 4 proof over source-generated definitions + differential correspondence",
        "DESIGN.md §7 C13"),
    "C08": (
        "Machine-checked proof that the block loops of both pipelines (arithmetic regenerated from the source) "
        "write every output entry i in [0,n) with f(peaks[i]) for every number of peaks, every buffer count >= 1 "
        "and every per-crop function f, hence independence of buffer size, peak order, duplicates and other peaks; "
        "get_buf_count bounds and byte-limit theorem on the generated definition; exhaustive schedule correspondence.",
        "Lean kernel + standard axioms; translator; the per-crop pipeline is abstract in the theorems: that batched "
        "FFT / per-crop minimum really act per crop (A-FFT) is covered by the differential oracle only.",
        "Lean 4 proof (induction over blocks) over source-generated arithmetic + differential correspondence",
        "DESIGN.md §7 C08"),
    "C09": (
        "Machine-checked proof that the outputs of a call do not depend on the state (crop buffers, output arrays) "
        "left by any history of earlier calls, for both cropping back-ends and both pipelines, by reduction to the "
        "C13 window theorems (every buffer cell is defined by the crop) and the C08 block-loop theorem; object purity "
        "(patterns, matchers, batch entry points) by differential histories. For the composed pipeline model (log scaling -> "
        "correlation map -> evaluation kernels) the locality of the per-crop function is itself proved, so the history "
        "theorems hold for it with no hypothesis left (fast_history_spec / full_history_spec). Frame conditions: a call "
        "writes only the output rows of its own peaks; every other row of caller-supplied output arrays is left as it was "
        "(runStN_frame, processFrame_frame).",
        "Lean kernel + standard axioms; translator; purity of pattern/matcher objects is exercised by the oracle only "
        "(incl. patterns whose parameters are changed after use, reuse across related shapes).",
        "Lean 4 proof (state-independence + induction over history) + differential histories",
        "DESIGN.md §7 C09"),
    "C18": (
        "Machine-checked proof over the rationals (hence every real distance) that the radial bins generated from "
        "base/masks.py are non-negative, at most 1, telescope to an edge-ramp difference and therefore sum to exactly "
        "1 at least 0.5 px inside the annulus and to 0 at least 0.5 px outside, for every bin layout with width >= 1; "
        "patch conditions/order, normalisation and ring+disk=disk theorems; exact-rational correspondence per pixel.",
        "Lean kernel + standard axioms (Mathlib ordered-field lemmas); translator; distances (sqrt) and float rounding are "
        "taken from the implementation (A-FLOAT); the clause 'area approximates pi r^2 within the perimeter' is not proved "
        "(oracle only).",
        "Lean 4 proof (telescoping ramps over Q) on source-generated bin expression + differential correspondence",
        "DESIGN.md §7 C18"),
    "C16": (
        "Machine-checked proofs on source-generated definitions: user-template pad/crop maps source//2 onto target//2 and "
        "preserves values for all sizes and parities; built-in masks centred on shape//2, point symmetry of radial masks, "
        "support and <= 1 bounds of disk / gradient / background-subtraction masks, zero sum of the background-subtraction "
        "combination, ceil crop size, constructor guards, integral RGBS default geometry; exhaustive 12x12 correspondence.",
        "Lean kernel + standard axioms; translator; np.pad/skimage crop semantics and sqrt distances are assumptions "
        "(A-EXT, compared exhaustively / per pixel); known findings D12 (RGBS not balanced), D13 (NaN mask when the ring is "
        "outside the shape).",
        "Lean 4 proof (omega / ordered field) on source-generated definitions + exhaustive correspondence",
        "DESIGN.md §7 C16"),
    "C19": (
        "Machine-checked proof that the dense value of every layer of the sparse template stack (sum of the COO entries the "
        "code emits, selector regenerated from the source) equals the template copied at the offset and clipped at the image "
        "border, for every template size, image size, offset and pixel; feature-vector centre identity; odd bounding box of "
        "the sparse circular stack loses no disk pixel; exhaustive small-size correspondence.",
        "Lean kernel + standard axioms; translator; sparse.COO densification semantics (A-EXT).",
        "Lean 4 proof (finite-sum collapse) + exhaustive correspondence",
        "DESIGN.md §7 C19"),
    "C17": (
        "Machine-checked proofs: indices<->coordinates are mutually inverse for every zero point and non-parallel a, b "
        "(Cramer), singular lattices rejected; the frame test (generated from base/utils.py) is exactly r <= p < f - r on "
        "both axes; frame_peaks returns exactly the in-range index/coordinate pairs with coordinate zero + i a + j b, "
        "order preserved; array-shape dispatch of both index layouts (identical in regularize_indices and "
        "Match.calc_coords); drop_zero removes exactly (0,0); exact correspondence on dyadic lattices.",
        "Lean kernel + standard axioms; translator; NumPy dot/solve/concatenate semantics pinned textually and compared; "
        "make_polar / make_cartesian are translated over an abstract record of library functions and the round trips are "
        "proved over the reals (cos, sin, arg of x+iy, Euclidean norm); numpy's float trigonometry is A-FLOAT.",
        "Lean 4 proof (field algebra, list membership) on source-generated predicates + exact differential correspondence",
        "DESIGN.md §7 C17"),
    "C06": (
        "Machine-checked proofs in exact arithmetic: every solution of the weighted normal equations of the design [1,i,j] "
        "is a global minimiser of the weighted sum of squared distances for all non-negative weights; Cramer solution "
        "solves them and is unique at rank 3; covariance under every affine map (zero by the map, a,b by its linear part); "
        "invariance under weight rescaling; noise propagation: observations within eps of a lattice => the fitted lattice "
        "deviates at ANY node by d with det N d^2 <= v^T adj(N) v eps^2 sum(w) (energy identity at the optimum + a "
        "division-free Cauchy-Schwarz inequality for the normal matrix), at a fitted node w d^2 <= eps^2 sum(w) (leverage "
        "<= 1); the determinant of the normal matrix is non-negative and monotone under adding observations; exact data are "
        "recovered exactly; source text of weighted_optimize/optimize/error/affinematch pinned; real fits "
        "compared with the exact rational optimum.",
        "Lean kernel + standard axioms; A-LA (lstsq returns a least-squares solution) is an assumption tied by the "
        "correspondence; float conditioning handled by scaled tolerances.",
        "Lean 4 proof (normal equations => optimum, linear_combination) + differential correspondence against exact rational solver",
        "DESIGN.md §7 C06"),
    "C20": (
        "Machine-checked proofs: an exact affine relation is reproduced exactly by any solution of the squared-weight "
        "normal equations for any centre and positive weights (no rank condition needed); optimality for squared weights "
        "under residuals; find_center's linear system yields a fixed point of the homogeneous matrix; source text of the "
        "three helpers pinned; real fits compared with the exact rational solution.",
        "Lean kernel + standard axioms; A-LA (lstsq/solve) tied by the correspondence.",
        "Lean 4 proof (sum of non-negative terms, WLS optimality) + differential correspondence",
        "DESIGN.md §7 C20"),
    "C05": (
        "Partial proof. Machine-checked (exact arithmetic, every input): a valid fast match has one selector entry per "
        "peak, equally many indices and selected peaks, only peaks with elevation >= min_weight; selection <=> weight ok "
        "and squared relaxed error < tolerance^2; exact lattice points are selected with their true indices; the returned "
        "lattice is the weighted least-squares fit of the selected peaks (C06); parallel/zero start vectors and too few "
        "matches give the invalid match, and so does an empty first-round selection for EVERY min_match, 0 and negative "
        "values included (nothing_matched_invalid); translation invariance of the indices; operators and source text of both rounds "
        "pinned; rigid equivariance: for every rational orthogonal map (rotations, reflections) and translation the match "
        "of the moved inputs is the moved match (same selector and indices, lattice mapped), invalid stays invalid. The "
        "robustness window in exact arithmetic: for one round against ANY lattice with vectors 60..120 deg apart a peak "
        "displaced by e from node (i,j) is selected with indices (i,j) when (8/3)|e|^2 < tol^2 and (16/3)|e|^2 < min(|a|^2,"
        "|b|^2) (inlier_matched; e carries the noise and the start error at that node), a peak half a cell away is rejected "
        "when tol^2 max(1,|index|) <= (1/2-eta)^2 |a|^2 (half_cell_rejected); END TO END for noise-free node peaks "
        "(fastmatch_exact_recovery): from any start whose first round catches only node peaks with their true indices "
        "(>= min_match of them, rank 3) both rounds and both fits return EXACTLY the true lattice, select exactly the strong "
        "node peaks (weak peaks and rejected outliers excluded, node peaks missed by round one recovered) with their true "
        "indices; rank 3 of the final selection follows from rank 3 of round one because the determinant of the normal matrix "
        "is monotone under adding observations with non-negative weights (det_mono_sublist). Instances are run on the compiled "
        "model (exact equality) and on the implementation (1e-9). NOISY peaks, both rounds (noisy_inliers_kept): if round one "
        "selects only node peaks with their true indices and the match is valid, the first fit deviates from the truth at "
        "every node by d with det N d^2 <= v^T adj(N) v eps^2 sum(w) (N = design of the round-one selection; "
        "C06.noise_propagation via a Cauchy-Schwarz inequality for the normal matrix), the reported selection is exactly "
        "round two against that fit, and every strong inlier with 4 kappa (eps+d)^2 < tol^2 and 8 kappa (eps+d)^2 < "
        "min(|a1|^2,|b1|^2) is selected with its true indices; the oracle instantiates the theorem in exact Fraction "
        "arithmetic on every structured case (hypotheses hold on ~99 % of them, ~90 % of all inliers are guaranteed) and "
        "requires the conclusion from the implementation; noisy_selection adds the outlier clauses under the same first fit "
        "(a peak within eps of a position half a cell off along a or b is NOT selected when 2 kappa (eps+d)^2 <= eta^2 |a1|^2, "
        "eta <= 1/2, tol^2 max(1,|i+1/2|+eta) <= (1/2-eta)^2 |a1|^2), so that the complete selection is decided by the theorem "
        "whenever every peak is a bounded inlier, a half-cell outlier or weak (85 % of the oracle's structured cases; all of their "
        "outliers). NOT proved: rejection of outliers at other positions, inliers whose error bound does not fit the tolerance, "
        "irrational rotation angles - decided by the differential oracle only.",
        "Lean kernel + standard axioms; translator; A-LA; rank-deficient selections (minimum-norm lstsq) not modelled; the "
        "robustness clause is checked with a reference re-implementation and preconditions derived from the selection formula.",
        "Lean 4 proof (partial: invariants, selection rule, WLS result) + exact-rational differential correspondence of both rounds",
        "DESIGN.md §7 C05"),
    "C03": (
        "Partial proof. Machine-checked: argmax = first position of the maximum; refinement radius = 2 clipped at the "
        "window border with the cut-out inside the map; refined = centre + COM - r; elevation from slopes at distance >= "
        "3/2 (constants and comparison pinned to the current source); re-anchoring _shift/_unshift; log argument x-min+1 "
        "(per crop / per frame); index map of the correlation for every size parity (ifftshift centres the mask on the "
        "evaluated pixel; fftshift counterexample); the numba kernels center_of_mass / refine_center / peak_elevation are "
        "translated from the source on every run (loops -> sums / running minima) and the model's refinement equals the "
        "generated one, its squared elevation the square of the generated one (abstract sqrt); the convolution theorem on "
        "ZMod H x ZMod W: the model's direct circular sum IS the inverse 2-D DFT of the product of the DFTs read at the "
        "ifftshift index, for every size; the half-spectrum route the code takes (rfft2 -> product -> irfft2 with the frame's "
        "shape) is proved equal to that full-spectrum route for real inputs of every shape, odd and even (irfft2_mul_rfft2, "
        "corr_is_rfft_route), and the default output length of irfft is proved wrong for odd sizes (half_spectrum_ambiguous). "
        "Defect D17 (log argument x-(min-1) instead of x-min+1, differing in float32) was found here and repaired. "
        "ASSUMED: rfft2 / irfft2 compute those transforms up to rounding - "
        "the real maps are compared with the model's exact direct sum; real kernels compared stage by stage and the composed "
        "model end to end with the implementation.",
        "Lean kernel + standard axioms; translator; A-FFT, A-FLOAT (float32 kernels vs exact arithmetic within stated "
        "tolerances).",
        "Lean 4 proof (partial) on source-generated kernel logic + stage-wise exact differential correspondence + brute-force oracle",
        "DESIGN.md §7 C03"),
    "C04": (
        "Machine-checked proofs of the index / sign / finiteness logic: centre within [peak-c, peak+c-1]; signed 16-bit "
        "storage without wrap-around (uint16 counterexample); centre of mass of non-negative weights lies in the cut-out so "
        "|refined - centre| <= r <= 2; positive COM total when r >= 1 (no 0/0); elevation >= 0 and taken over a non-empty "
        "set for maps >= 4 px; every upsampling offset has modulus <= 0.75 + 0.5/us; upsampling writes only refineds; "
        "cut-out / crop index safety; END TO END on the composed pipeline model (crop -> log -> correlation -> kernels -> "
        "re-anchoring -> block loop, both pipelines): for every frame, mask, peak, crop size and buffer count every output "
        "entry is filled with the result of its own peak, the centre lies in the window, the height is the maximum of the "
        "window's correlation map attained at the centre, the refined position is within 2 px; the elevation is finite for "
        "every map with >= 4 rows or columns and for every peak (elevation_finite_of_four_rows) and the 2x2 map is the "
        "machine-checked counterexample. Finiteness of FFT/log themselves is assumed (A-FLOAT). Known finding D13 (of "
        "C16, seen through C04: BackgroundSubtraction.get_mask(frame.shape) is an all-NaN mask when the negative ring has no "
        "pixel inside a very small frame, so the full-frame method reports NaN heights there) is "
        "classified by cause and reported as KNOWN-FINDING. Defect D19 (slicing crop back-end computed the window origin in "
        "the dtype of the peak array: unsigned peak positions near the top / left edge raised ValueError) was found by this "
        "check's oracle and repaired (fix: b62e35e).",
        "Lean kernel + standard axioms; translator; A-FLOAT; numba execution modes (JIT / bounds-checked / interpreter) are "
        "exercised by the harness, not modelled.",
        "Lean 4 proof on source-generated definitions + oracle in three numba execution modes",
        "DESIGN.md §7 C04"),
    "C14": (
        "Machine-checked proofs in exact arithmetic: translating frame content and peak gives cell-identical crops while "
        "windows stay inside; results are re-anchored additively; the log argument is invariant under adding a constant "
        "(the minimum moves with it); cyclic translation of the frame cyclically translates the full-frame correlation map "
        "for both shift kinds and every size; transposition commutes with the zero-padded window and both axes are treated "
        "alike by masks and refinement; END TO END on the composed pipeline model: translation equivariance of the crop-based "
        "method (windows inside), offset invariance of the full-frame method (all peaks) and of the crop-based method "
        "(windows inside), and transposition equivariance of evaluation kernels, correlation map and crop-based pipeline "
        "for maps with a unique maximiser (tie counterexample machine-checked). Float32 rounding under cyclic shifts is "
        "oracle-only; float32 ties between near-equal maxima are decided with an independent float64 reference map. Known "
        "finding D15 (upsampled refinement maximises a half-spectrum objective that is not transposition-symmetric) is "
        "classified by re-implementing that objective and reported as KNOWN-FINDING.",
        "Lean kernel + standard axioms; translator; A-FFT / A-FLOAT for the paired-run tolerances.",
        "Lean 4 proof (exact arithmetic, modular index algebra) + paired differential runs",
        "DESIGN.md §7 C14"),
    "C15": (
        "Partial proof (integer-range logic): frames are promoted to float32/float64 before x - min + 1 is formed (source "
        "pinned), and for every value of an 8/16-bit dtype (and up to 2^24 for wider ones) the log argument is an integer "
        "exactly representable in the promoted dtype, so nothing wraps or rounds before the logarithm; uint8/int8 "
        "counterexamples for in-dtype arithmetic. Float32 crop buffers: with float32 rounding of integers modelled up to 2^25 "
        "(Model.f32int, compared with numpy's conversion on every run) the argument (x - m) + 1 is exact in the order written "
        "for all integer values of magnitude <= 2^24 whose difference stays below 2^24 (cropbuf_arg_exact_f32), and it is not "
        "with the 1 added first (plus_one_first_inexact: 2^24 on a minimum 2^24 - 4 gives 4, not 5); the real "
        "log_scale_cropbufs_inplace on float32 buffers is compared with that model. Equality 'to float32 rounding' of the "
        "final results is oracle-only; exhaustive over the ten dtypes.",
        "Lean kernel + standard axioms; translator; promotion table compared with the live NumPy; A-FLOAT.",
        "Lean 4 proof (finite dtype table + omega) + exhaustive dtype correspondence",
        "DESIGN.md §7 C15"),
    "C01": (
        "Partial proof: the index / centring chain for every size parity (mask, user template, RGBS geometry centred on "
        "shape//2; ifftshift centres the mask on the evaluated pixel; the upsampling centre ceil(n/2) undoes that shift); "
        "on the circular frame (any finite abelian group of positions) symmetric mask x symmetric data gives a map "
        "symmetric about the disk, the correlation with a translate of the mask itself is maximal at the true shift, and the "
        "centre of mass of a point-symmetric (2r+1)^2 neighbourhood is its centre (refined = centre exactly). End to end for "
        "hard-edged flat disks: for every symmetric sign-matched template (>0 on the disk, <=0 off it: circular, radial "
        "gradient, background subtraction, user templates of that kind) the model's correlation map (= the group correlation "
        "on ZMod H x ZMod W, corrMap_eq_gcorr) has its unique strict maximum on the disk centre and both composed pipelines "
        "return centre and refined position exactly (flat_disk_exact, fastPeak_/fullPeak_flat_disk_exact); instances are run on "
        "the implementation. NOT proved: the same for the library's antialiased disks with non-matching masks, the 0.01 px and "
        "1.5/upsample float bounds (oracle). Known finding D15.",
        "Lean kernel + standard axioms (Mathlib finite sums over groups); translator; A-FFT; the quantitative bounds are "
        "decided by the oracle search only.",
        "Lean 4 proof (partial: group-sum reindexing, reflection of finite sums) + synthetic-disk oracle",
        "DESIGN.md §7 C01"),
    "C02": (
        "Partial proof (logical core only): triangle-inequality bound and maximality at vanishing phases of the phasor sum "
        "the upsampled DFT maximises; the candidate grid (generated constants) has spacing 1/us and covers at least "
        "[-1/2, 1/2 - 1/us] for every us >= 2; COM refinement bounded by the clipped radius. The accuracy constants 1 px / "
        "0.5 px / 1/us + 0.03 px are NOT proved and not provable with what is here; decided by the oracle search only.",
        "Lean kernel + standard axioms (Mathlib complex norm); translator; empirical constants are oracle-only.",
        "Lean 4 proof (partial) + rendered-disk oracle with sequences of upsampling factors",
        "DESIGN.md §7 C02"),
    "C07": (
        "Partial proof: get_correlation inverts with the frame's shape and uses ifftshift (source pinned), hence a "
        "pixel-centred feature is read with the mask centre on that pixel for even, odd and non-square shapes; on the "
        "circular frame separated disks give centre values linear in brightness with one common slope (brightness order = "
        "height order); the map of get_correlation is the inverse 2-D DFT of the product of the DFTs at the ifftshift index "
        "for every shape (convolution theorem); for sign-matched templates and disks separated by more than twice the "
        "template support every disk centre is a strict maximum of its neighbourhood and the background between disks is "
        "no higher than any centre (separated_disks_local, separated_background, separated_disk_is_strict_peak). "
        "peak_local_max itself and strict local maximality for non-matching templates are oracle-only. Known finding D18 "
        "(RadialGradient(3.11): side lobes of 0.24 % outrank disks fainter than 1/420 of another disk) is classified with an "
        "independently computed float64 correlation map and reported as KNOWN-FINDING.",
        "Lean kernel + standard axioms; translator; A-FFT, A-EXT (skimage).",
        "Lean 4 proof (partial) + exact small-shape correspondence + disk-field oracle",
        "DESIGN.md §7 C07"),
    "C10": (
        "Partial proof, against the UDF protocol stand-in (LiberTEM is absent): for every schedule (grouping into partitions, "
        "order inside and between partitions) the stored result of a frame is its stand-alone per-frame result, given that a "
        "frame's output does not depend on task data left by earlier frames - which is C09's theorem; what the UDFs pass to "
        "the frame routines (rounded peaks + rounded zero shift, buffers, limit, crop function) is pinned to the source; "
        "buffer count and crop back-end are irrelevant by C08 / C13; concretely (fast_udf_schedule_result): for the composed "
        "crop-based pipeline, any schedule, any defining crop back-end, any buffer count and any buffer residue the stored "
        "result of a frame is the stand-alone pipeline on that frame with peaks round(peaks) + round(zero shift). Sparse UDF: tile sums decompose exactly when every "
        "tile sees the frame minimum; otherwise the result depends on the tiling (machine-checked counterexample = known "
        "finding D10); mask centre lands on peak + step offset; zero_shift rejected (source pinned).",
        "Lean kernel + standard axioms; translator; A-LT (protocol stand-in), A-FFT/A-FLOAT; D10 is a known finding.",
        "Lean 4 proof (induction over schedules, reduction to C08/C09/C13) + protocol-runner oracle",
        "DESIGN.md §7 C10"),
    "C11": (
        "Partial proof, against the UDF protocol stand-in: per-frame refinement results are independent of the partitioning "
        "(instance of the C10 schedule theorem); the zero shift of a frame is none / the constant vector / the frame's AUX "
        "value (repair of D11, source pinned); run_refine accepts exactly fast/sparse/fullframe x fast/affine (generated "
        "dispatch tables) and selects the lattice positions with margin pattern.search (C17); the integration value equals "
        "the sum of the frame over the mask centred on the peak with zero outside (C13). Matcher numerics inherit C05's "
        "residual.",
        "Lean kernel + standard axioms; translator; A-LT; matcher numerics (C05 residual).",
        "Lean 4 proof (partial) + protocol-runner oracle comparing with the matcher per frame",
        "DESIGN.md §7 C11"),
    "C12": (
        "Partial proof of the control skeleton of full_match for any oracle of the best-match search and any number of "
        "iterations: weak set = complement of the weight filter; every non-weak non-zero peak is unmatched or in exactly one "
        "match, never both; weak non-zero peaks are in neither; the zero point is not reported unmatched once a match "
        "exists; progress measure of a matching step; post-conditions of returned matches from the final check after the "
        "final weighted optimise (source pinned) with C06. One candidate pair of _do_match (_match_all + _tumble with its four "
        "checks and two fits) is modelled in exact rational arithmetic (Model.tumble; lengths as squares, the angle test as "
        "sin^2(min_angle)|a|^2|b|^2 < det^2) and compared with the real _tumble on every run; proved for it: every returned "
        "match passes check (>= min_match peaks, lengths and angle in range), consists of working-set peaks, has one integer "
        "index pair per peak and satisfies the weighted normal equations of its own peaks (tumble_post); from a candidate "
        "pair whose first round catches only node peaks of a noise-free lattice it returns the EXACT lattice with all strong "
        "node peaks and their true indices (tumble_exact, shares exact_stages with C05). The ranking of candidate matches is "
        "modelled over the reals (Model.fomWritten = the pinned text of fom with square roots): closed form "
        "(sum elev)^2 |det|/(|a|^2+|b|^2) (fom_ranking_closed_form), the full lattice outranks its index-2 sublattice whenever "
        "that holds at most 1/sqrt2 of the elevation (full_lattice_outranks_sublattice), and a witness that it can be outranked "
        "otherwise (known finding D20: noise-free 3x3 block, |a| = 0.21 |b|, elevations heavy on the even columns - the first "
        "match is the sublattice (2a, b)); every observed _find_best_vector_match call is compared with the closed form. NOT "
        "proved: completeness of the FIRST match on noise-free lattices in general (which candidates exist) - oracle only. "
        "hdbscan replaced by a deterministic stand-in.",
        "Lean kernel + standard axioms; translator; A-CL (clusterer stand-in); oracle answers are recorded from the real run.",
        "Lean 4 proof (loop invariant by induction over recorded oracle answers) + replay correspondence + cloud oracle",
        "DESIGN.md §7 C12"),
}

NOT_YET = {}

ALL = [f"C{i:02d}" for i in range(1, 21)]


def main():
    props = {}
    with open(os.path.join(VERIF, "properties.jsonl")) as f:
        for line in f:
            p = json.loads(line)
            props[p["id"]] = p
    try:
        hooks = subprocess.run(["git", "-C", "/repo", "log", "--format=%H %s", "ba6c5ac..HEAD"],
                               capture_output=True, text=True).stdout.splitlines()
    except Exception:
        hooks = []
    checks = []
    for pid in ALL:
        if pid not in CLAIMED:
            continue
        text, note, tech, ref = CLAIMED[pid]
        checks.append({
            "property_id": pid,
            "quick_cmd": f"./check {pid} --tier quick",
            "thorough_cmd": f"./check {pid} --tier thorough",
            "evidence_file": f"evidence/{pid}.json",
            "replay_cmd_template": f"./check {pid} --replay {{path}}",
            "engine": "lean4-model",
            "level_claimed": {"category": "proof", "text": text, "design_ref": ref},
            "level_note": note,
            "technique": tech,
        })
    na = [{"property_id": pid, "reason": NOT_YET.get(pid, "check not built yet in this round; see DESIGN.md §7 for the plan")}
          for pid in ALL if pid not in CLAIMED]
    man = {
        "version": 1,
        "setup_cmd": "./setup.sh",
        "hooks": {
            "guard": "LIBERTEM_BLOBFINDER_VERIF",
            "enable": "no hooks in /repo are needed: the harness wraps functions from outside (monkeypatching) "
                      "and puts harness/stubs (libertem, hdbscan stand-ins) first on sys.path",
            "baseline_off_cmd": "cd /repo && /venv/bin/python -m pytest -ra -q -p no:cacheprovider --timeout=900 "
                                "--continue-on-collection-errors",
            "source_commits": [],
            "add_only": True,
        },
        "engines": [{
            "name": "lean4-model", "path": "lean/",
            "serves_properties": [c["property_id"] for c in checks],
            "kind_free_text": "Lean 4 executable model + theorems; Gen/ regenerated from /repo by harness/translate.py; "
                              "compiled Mathlib-free drivers compared with the real code by harness/check.py",
        }],
        "checks": checks,
        "not_applicable": na,
        "notes": "fix: commits in /repo (defects found by the checks, see known_findings.json 'fixed' entries): "
                 + "; ".join(h for h in hooks if " fix:" in h),
    }
    with open(os.path.join(VERIF, "MANIFEST.json"), "w") as f:
        json.dump(man, f, indent=1)
    print(f"{len(checks)} checks, {len(na)} not claimed")


if __name__ == "__main__":
    main()
