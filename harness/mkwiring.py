"""authoring helper: print a Lean theorem pinning the *current* values of generated String constants
usage: mkwiring.py <GenFile> <theorem_name> <const> [<const> ...]"""
import re
import sys

gen = open(f"/verif/lean/BlobfinderModel/Gen/{sys.argv[1]}.lean").read()
names = sys.argv[3:]
parts = []
for n in names:
    m = re.search(r"def " + re.escape(n) + r" : String := (\".*\")\n", gen)
    assert m, n
    parts.append(f"Gen.{n} = {m.group(1)}")
print(f"theorem {sys.argv[2]} :\n    " + "\n    ∧ ".join(parts) + " := by\n  refine ⟨" + ", ".join(["rfl"] * len(parts)) + "⟩\n")
