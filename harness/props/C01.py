"""C01 — pixel-centred matched disk is located exactly, for every pattern and shape."""
import numpy as np

import impl
from libertem_blobfinder.base import masks

PROP = "C01"
LEAN_MODULE = "BlobfinderModel.Properties.C01"
GEN_FILES = ["Eval", "Patterns", "Masks"]
FRAGMENTS = ["upsampling", "correlation_fft", "shift", "mask_center", "user_template", "rgbs_geometry", "log_scale", "wrappers_text"]
DRIVER = "drvcorr"
RULE = ("correspondence: the correlation-map centre used by the upsampling and the origin shift of both pipelines for "
        "every axis length 1..160 vs np.ceil(n/2) / the roll of np.fft.ifftshift; oracle: frames whose log-scaled intensity "
        "is a flat antialiased disk of the pattern's radius on pixel p; every built-in pattern and user templates of odd "
        "and even size; fractional radii 2..14, search 1.2..2.5 r, outer radii; even / odd / non-square frames; all start "
        "positions whose (asymmetric) window [s-c, s+c-1] contains the disk incl. the antialiasing margin; amplitudes / "
        "backgrounds; upsample 2..50 (several factors per frame shape, in sequence); buffer counts; both pipelines. "
        "Non-trivial: odd or non-square shape or start offset != 0 (distinct = case hashes).")
ASSUMPTIONS = [
    "proved for hard-edged disks and sign-matched symmetric templates (flat_disk_exact; its instances are run on the "
    "implementation); NOT proved: that the library's antialiased radial-gradient / background-subtracting masks peak at the "
    "centre of an antialiased disk, the 0.01 px float bound and the 1.5/upsample bound (oracle only)",
]


def corr(ctx, drv):
    lines = [f"uscenter {n}" for n in range(1, 161)]
    for n, mo in zip(range(1, 161), drv.ask_many(lines)):
        cen, s1, s2 = (int(v) for v in mo.split())
        msgs = []
        if cen != int(np.ceil(n / 2)):
            msgs.append(f"n={n}: generated correlation centre {cen} != ceil(n/2)")
        roll = int(np.fft.ifftshift(np.arange(n))[0])
        if s1 != roll or s2 != roll:
            msgs.append(f"n={n}: model origin shift {s1}/{s2}, np.fft.ifftshift moves index {roll} to 0")
        if (n - cen) % n != roll % n:
            msgs.append(f"n={n}: upsampling centre {cen} does not undo the shift {roll}")
        ctx.corr_case("centres", {"n": n}, msgs, nontrivial=(n % 2 == 1), hkey=("cen", n))
    ctx.exhaustive_range = {"axis_length": "1..160"}
    # the end-to-end theorem on the implementation: hypotheses by construction, conclusion observed
    rng = np.random.default_rng(ctx.seed + 101)
    for k in range(36 if ctx.tier == "thorough" else 9):
        q = gen_sign_matched(rng, k)
        ctx.corr_case("sign_matched", q, sign_matched(q), nontrivial=(q["shape"][0] != q["shape"][1] or q["size"] % 2 == 0))
        ctx.count("sign_matched_" + q["weights"])


def sign_matched(q):
    """instance of the theorem C01.flat_disk_exact on the real code: hard-edged flat disk S on pixel p (log intensity
    amp * 1_S), user template that is point-symmetric, positive on S and not positive off S"""
    from libertem_blobfinder.common import patterns as pt
    r, size = q["r"], q["size"]
    yy, xx = np.mgrid[0:size, 0:size] - size // 2
    d2 = yy ** 2 + xx ** 2
    S = d2 <= r * r
    if q["weights"] == "flat":
        pos = np.ones(d2.shape)
    elif q["weights"] == "gradient":            # larger on the rim than in the centre
        pos = 0.2 + np.sqrt(d2) / r
    else:                                       # irregular but point-symmetric
        pos = 0.3 + 0.1 * (((yy * 3 + xx * 5) ** 2) % 7)
    ring = (d2 > r * r) & (d2 <= (r + q["ring"]) ** 2)
    tmpl = np.where(S, pos, np.where(ring, -q["neg"], 0.0))
    pattern = pt.UserTemplate(tmpl, search=q["search"])
    c = pattern.get_crop_size()
    shape, p = tuple(q["shape"]), np.array(q["p"])
    fy, fx = np.mgrid[0:shape[0], 0:shape[1]]
    disk = ((fy - p[0]) ** 2 + (fx - p[1]) ** 2 <= r * r).astype(np.float64)
    frame = (np.exp(q["amp"] * disk) - 1 + q["bg"]).astype(np.float32)
    if q.get("int_levels"):
        # the same flat disk as detector counts in an integer dtype: two levels (log intensity = log(hi - lo + 1) * disk), the
        # levels may lie anywhere in the range of the dtype
        dt_, lo_, hi_ = q["int_levels"]
        frame = np.where(disk > 0, hi_, lo_).astype(dt_)
    msgs = []
    if not np.array_equal(tmpl, tmpl[::-1, ::-1]) and size % 2 == 1:
        msgs.append("harness: template not point-symmetric")
    starts = np.array(q["starts"])
    for pipeline, runner in (("fast", impl.run_fast), ("full", impl.run_full)):
        try:
            # (crop buffers as the library allocates them for this frame dtype: float32 cannot tell neighbouring int32 / int64 counts
            # apart -- float32 buffers for such frames are a choice of the caller, not of the code under test)
            kw_ = {"buf_dtype": np.result_type(frame.dtype, np.float32)} if pipeline == "fast" else {}
            outs = runner(frame, pattern, starts, b=q["b"], **kw_)
        except Exception as e:
            msgs.append(f"{pipeline} raised {type(e).__name__}: {e}")
            continue
        cen, ref = np.asarray(outs[0]), np.asarray(outs[1], dtype=np.float64)
        if np.any(cen != p):
            msgs.append(f"{pipeline}: sign-matched template ({q['weights']}, r={r}, size {size}) on a flat disk at {p.tolist()}: "
                        f"centres {cen.tolist()} (theorem flat_disk_exact: exactly the disk centre)")
        elif np.abs(ref - p).max() > 1e-3:
            msgs.append(f"{pipeline}: refined {ref.tolist()} differs from the disk centre {p.tolist()} by "
                        f"{np.abs(ref - p).max():.2e} (theorem flat_disk_exact: exactly the disk centre)")
    return msgs


def gen_sign_matched(rng, k):
    r = float(np.round(rng.uniform(2, 6), 2))
    size = 2 * (int(np.ceil(r)) + 3) + (k % 2)          # odd and even template sizes
    search = float(np.round(r + rng.uniform(3.2, 6), 2))
    c = int(np.ceil(search))
    shape = [int(rng.integers(2 * c + 6, 2 * c + 40)), int(rng.integers(2 * c + 6, 2 * c + 40))]
    p = [int(rng.integers(c + 2, shape[0] - c - 2)), int(rng.integers(c + 2, shape[1] - c - 2))]
    ext = int(np.ceil(r)) + 2
    starts = [p] + [[p[0] + int(rng.integers(-(c - ext - 1), c - ext)), p[1] + int(rng.integers(-(c - ext - 1), c - ext))]
                    for _ in range(3) if c - ext - 1 > 0]
    starts = [s for s in starts if min(s) - c >= 0 and s[0] + c <= shape[0] and s[1] + c <= shape[1]]
    return {"r": r, "size": size, "weights": ("flat", "gradient", "irregular")[k % 3], "ring": float(rng.uniform(0, 2.5)),
            "neg": float(rng.uniform(0, 1.5)), "search": search, "shape": shape, "p": p, "starts": starts,
            "amp": float(rng.uniform(0.5, 6)), "bg": float(rng.integers(0, 100)), "b": int(rng.integers(1, 5))}


def disk_frame(shape, p, radius, amp, bg):
    d = masks.circular(centerX=p[1], centerY=p[0], imageSizeX=shape[1], imageSizeY=shape[0], radius=radius,
                       antialiased=True)
    return (np.exp(amp * d) - 1 + bg).astype(np.float32)


def gen_case(rng, k):
    kinds = ("circular", "radial_gradient", "background_subtraction", "rgbs", "user", "user_even")
    kind = kinds[k % len(kinds)]
    radius = float(np.round(rng.uniform(2, 14), 2)) if k % 3 else float(rng.integers(2, 15))
    pat = {"kind": "user" if kind.startswith("user") else kind, "radius": radius}
    if kind in ("background_subtraction", "rgbs"):
        pat["radius_outer"] = float(np.round(radius * rng.uniform(1.2, 1.8), 2))
        pat["search"] = float(np.round(max(pat["radius_outer"] + 1.5, radius * rng.uniform(1.3, 2.5)), 2))
    else:
        pat["search"] = float(np.round(max(radius + 2.0, radius * rng.uniform(1.2, 2.5)), 2))
    if kind == "user":
        s = 2 * int(np.ceil(radius)) + 3
        pat["user_shape"] = [s, s + 2 * int(rng.integers(0, 2))]
    if kind == "user_even":
        s = 2 * int(np.ceil(radius)) + 4
        pat["user_shape"] = [s, s]
    c = int(np.ceil(pat["search"]))
    shape = [int(rng.integers(2 * c + 4, 2 * c + 50)), int(rng.integers(2 * c + 4, 2 * c + 50))]
    if k % 4 == 0:
        shape[1] = shape[0]
    if kind.startswith("user") and (k // 6) % 2 == 1:
        # a user template that is larger than the frame along one axis (a template cut out of a big reference image, used on
        # a strip-shaped frame): every parity combination of template size and frame size
        ax = int(rng.integers(2))
        shape[ax] = 2 * c + 4 + int(rng.integers(0, 8))
        pat["user_shape"] = list(pat["user_shape"])
        pat["user_shape"][ax] = shape[ax] + int(rng.integers(1, 12))
    p = [int(rng.integers(c + 1, shape[0] - c)), int(rng.integers(c + 1, shape[1] - c))]
    q = {"pattern": pat, "shape": shape, "p": p, "amp": float(rng.uniform(0.5, 8)), "bg": float(rng.integers(0, 200)),
         "seed": int(rng.integers(1 << 30)), "upsample": sorted({int(rng.integers(2, 51)), int(rng.integers(2, 51)), 20})}
    if (k // 6) % 3 == 1:     # (decorrelated from the pattern kind, which cycles with k % 6) earlier use for a frame whose rfft2 spectrum has the same shape (width 2n <-> 2n+1)
        q["prior_shapes"] = [[shape[0], shape[1] + 1 if shape[1] % 2 == 0 else shape[1] - 1]]
    elif (k // 6) % 3 == 2:   # earlier use for a larger frame
        q["prior_shapes"] = [[shape[0] + 2 * int(rng.integers(1, 5)) + int(rng.integers(0, 2)),
                              shape[1] + 2 * int(rng.integers(1, 5)) + int(rng.integers(0, 2))]]
    if (k // 6) % 4 == 1:
        q["wide_level"] = float(rng.choice([2.0 ** 30, 1e9, 2.0 ** 26]))
    q["moving"] = (k // 3) % 2 == 1
    if (k // 6) % 4 == 3:     # a run on a frame whose spectrum has the same shape (same height, width 2n <-> 2n+1) right before
        q["prior_runs"] = [[shape[0], shape[1] + 1 if shape[1] % 2 == 0 else shape[1] - 1]]
    return q


def run_case(kind, q):
    if kind == "sign_matched":
        return sign_matched(q)
    rng = np.random.default_rng(q["seed"])
    pattern = impl.pattern_from(q["pattern"])
    for s_ in q.get("prior_shapes", []):   # the pattern object has been used for frames of other shapes before
        pattern.get_template(tuple(s_))
    c = pattern.get_crop_size()
    radius = q["pattern"]["radius"]
    shape, p = tuple(q["shape"]), np.array(q["p"])
    frame = disk_frame(shape, p, radius, q["amp"], q["bg"])
    msgs = []
    # all start positions s whose window [s - c, s + c - 1] contains the disk incl. antialiasing margin
    ext = int(np.ceil(radius + 0.5))
    lo, hi = p + ext + 1 - c, p - ext - 1 + c          # s - c <= p - ext - 1  and  p + ext + 1 <= s + c - 1  (conservative)
    cand = []
    for _ in range(6):
        s = np.array([rng.integers(lo[0], hi[0] + 1), rng.integers(lo[1], hi[1] + 1)]) if np.all(hi >= lo) else p
        # the window has to fit into the frame (zero padding would be another feature)
        if np.all(s - c >= 0) and np.all(s + c <= np.array(shape)):
            cand.append(s)
    cand.append(p)
    starts = np.unique(np.array(cand), axis=0)
    for pipeline, runner in (("fast", impl.run_fast), ("full", impl.run_full)):
        for us in [False] + q["upsample"]:
            try:
                for s_ in q.get("prior_runs", []):
                    # the same process has just handled a frame of another shape with the same settings
                    pf = disk_frame(tuple(s_), np.array([s_[0] // 2, s_[1] // 2]), radius, q["amp"], q["bg"])
                    runner(pf, pattern, np.array([[s_[0] // 2, s_[1] // 2]]), upsample=us)
                kw_ = {}
                st_ = starts
                if q.get("pos_dtypes"):
                    # the containers the positions travel in: start positions and the centre buffer in other integer dtypes,
                    # unsigned ones included (all positions are inside the frame, hence non-negative)
                    st_ = starts.astype(q["pos_dtypes"][0])
                    kw_["outs"] = impl.alloc_out(len(starts), center_dtype=np.dtype(q["pos_dtypes"][1]))
                outs = runner(frame, pattern, st_, b=int(rng.integers(1, len(starts) + 2)), upsample=us, **kw_)
            except Exception as e:
                msgs.append(f"{pipeline}(upsample={us}) raised {type(e).__name__}: {e}")
                continue
            cen, ref = np.asarray(outs[0]).astype(np.int64), np.asarray(outs[1], dtype=np.float64)
            bad = np.any(cen != p, axis=1)
            if bad.any():
                i = int(np.argmax(bad))
                msgs.append(f"{pipeline}(upsample={us}) {q['pattern']['kind']} r={radius} shape {shape}: disk on pixel "
                            f"{p.tolist()}, start {starts[i].tolist()}: centre {cen[i].tolist()}")
                continue
            tol = 0.01 if not us else 1.5 / us
            err = np.abs(ref - p).max(axis=1)
            if err.max() > tol + 1e-6:
                i = int(np.argmax(err))
                msgs.append(f"{pipeline}(upsample={us}) {q['pattern']['kind']} r={radius} shape {shape}: disk on pixel "
                            f"{p.tolist()}, start {starts[i].tolist()}: refined {ref[i].tolist()} off by {err[i]:.4f} > {tol:.4f}")
    if q.get("moving") and c - ext - 2 >= 1:
        # a stack of frames through the batch helpers (frame buffer and crop buffers are reused from frame to frame): the disk sits
        # on another pixel in every frame (sample drift), all inside the search window of the same start position
        from libertem_blobfinder.common import correlation as cc
        dmax = min(3, c - ext - 2)
        rs = np.random.default_rng(q["seed"] + 3)
        ps = [p] + [p + rs.integers(-dmax, dmax + 1, 2) for _ in range(3)]
        ps = [pp_ for pp_ in ps if np.all(pp_ - ext - 1 >= 0) and np.all(pp_ + ext + 1 < np.array(shape))]
        if np.all(p - c >= 0) and np.all(p + c <= np.array(shape)) and len(ps) >= 2:
            stack = np.stack([disk_frame(shape, pp_, radius, q["amp"], q["bg"]) for pp_ in ps])
            for nm, fn in (("process_frames_full", cc.process_frames_full), ("process_frames_fast", cc.process_frames_fast)):
                try:
                    outs = fn(pattern, stack, p[np.newaxis])
                except Exception as e:
                    msgs.append(f"{nm} on a stack raised {type(e).__name__}: {e}")
                    continue
                for fi, pp_ in enumerate(ps):
                    cen, ref = np.asarray(outs[0][fi][0]), np.asarray(outs[1][fi][0], dtype=np.float64)
                    if np.any(cen != pp_) or np.abs(ref - pp_).max() > 0.01 + 1e-6:
                        msgs.append(f"{nm} {q['pattern']['kind']} r={radius} shape {shape}: frame {fi} of a stack, disk on pixel "
                                    f"{pp_.tolist()} (frame before: {ps[fi - 1].tolist() if fi else None}): centre {cen.tolist()} "
                                    f"refined {ref.tolist()}")
                        break
    if q.get("wrappers"):
        # the batch helpers (their own output arrays: narrow integer centres) with upsampling, for disks far from the origin of a
        # long frame: coordinate x upsampling factor goes beyond 2**15
        from libertem_blobfinder.common import correlation as cc
        for nm, fn in (("process_frames_fast", cc.process_frames_fast), ("process_frames_full", cc.process_frames_full)):
            for us in q["upsample"]:
                try:
                    outs = fn(pattern, frame[np.newaxis], starts, upsample=us)
                except Exception as e:
                    msgs.append(f"{nm}(upsample={us}) raised {type(e).__name__}: {e}")
                    continue
                cen, ref = np.asarray(outs[0][0]), np.asarray(outs[1][0], dtype=np.float64)
                if np.any(cen != p):
                    msgs.append(f"{nm}(upsample={us}) {q['pattern']['kind']} r={radius} shape {shape}: disk on pixel {p.tolist()}: "
                                f"centres {cen.tolist()}")
                elif np.abs(ref - p).max() > 1.5 / us + 1e-6:
                    msgs.append(f"{nm}(upsample={us}) {q['pattern']['kind']} r={radius} shape {shape}: disk on pixel {p.tolist()}: "
                                f"refined {ref.tolist()} off by {np.abs(ref - p).max():.4f} > {1.5 / us:.4f}")
    if q.get("wide_level"):
        # the same disk as float64 data on a large constant level (a faint disk on a high pedestal), through the batch helpers
        from libertem_blobfinder.common import correlation as cc
        d = masks.circular(centerX=p[1], centerY=p[0], imageSizeX=shape[1], imageSizeY=shape[0], radius=radius, antialiased=True)
        f64 = np.exp(q["amp"] * d.astype(np.float64)) - 1 + float(q["wide_level"])
        for nm, fn in (("process_frames_fast", cc.process_frames_fast), ("process_frames_full", cc.process_frames_full)):
            try:
                outs = fn(pattern, f64[np.newaxis], starts)
            except Exception as e:
                msgs.append(f"{nm} on float64 data raised {type(e).__name__}: {e}")
                continue
            cen, ref = np.asarray(outs[0][0]), np.asarray(outs[1][0], dtype=np.float64)
            if np.any(cen != p):
                msgs.append(f"{nm} {q['pattern']['kind']} r={radius}: float64 frame on a level of {q['wide_level']:.3g}, disk on "
                            f"pixel {p.tolist()}: centres {cen.tolist()}")
            elif np.abs(ref - p).max() > 0.01 + 1e-6:
                msgs.append(f"{nm} {q['pattern']['kind']} r={radius}: float64 frame on a level of {q['wide_level']:.3g}: refined "
                            f"{ref.tolist()} off by {np.abs(ref - p).max():.4f}")
    return msgs[:6]


def interpolated_peak_offset(q):
    """Diagnostic for known finding D15, independent of the implementation: on a 1/8 px grid within +-0.75 px of the
    true centre evaluate (a) the band-limited interpolation of the documented correlation map of the crop centred on
    p (full spectrum) and (b) the modulus of the *half-spectrum* (rfft) sum that refine_center_upsampling maximises.
    Returns (excess of (a) off-centre, excess of (b) off-centre), relative to the value at the true centre."""
    pattern = impl.pattern_from(q["pattern"])
    c = pattern.get_crop_size()
    p = np.array(q["p"])
    frame = disk_frame(tuple(q["shape"]), p, q["pattern"]["radius"], q["amp"], q["bg"]).astype(np.float64)
    win = frame[p[0] - c:p[0] + c, p[1] - c:p[1] + c]
    data = np.log(win - win.min() + 1)
    mask = np.asarray(pattern.get_mask((2 * c, 2 * c)), dtype=np.float64)
    n = 2 * c
    F = np.fft.fft2(mask) * np.fft.fft2(data)
    H = np.fft.rfft2(mask) * np.fft.rfft2(data)
    fy = np.fft.fftfreq(n)[:, None]
    fx, hx = np.fft.fftfreq(n)[None, :], np.fft.rfftfreq(n)[None, :]

    def full(ty, tx):   # the unshifted convolution of a centred disk peaks at index (c + c) % n = 0
        return abs((F * np.exp(2j * np.pi * (fy * ty + fx * tx))).sum())

    def half(ty, tx):
        return abs((H * np.exp(2j * np.pi * (fy * ty + hx * tx))).sum())
    a = b = 0.0
    for ty in np.arange(-0.75, 0.751, 0.125):
        for tx in np.arange(-0.75, 0.751, 0.125):
            a = max(a, full(ty, tx) / full(0.0, 0.0) - 1)
            b = max(b, half(ty, tx) / half(0.0, 0.0) - 1)
    return a, b


def classify(kind, q, msgs):
    """D15: refine_center_upsampling maximises the modulus of the half-spectrum (rfft) sum; for templates whose
    cross-spectrum with the disk has negative components (small RadialGradientBackgroundSubtraction patterns) that
    modulus peaks off the true centre although the correlation itself (full spectrum) peaks on it."""
    if q["pattern"]["kind"] != "rgbs":
        return None
    if not all("upsample=" in m and "upsample=False" not in m and "refined" in m for m in msgs):
        return None
    full_excess, half_excess = interpolated_peak_offset(q)
    if full_excess <= 1e-9 and half_excess > 1e-6:
        return "D15"
    return None


def search(ctx, boost=1, focus=()):
    rng = np.random.default_rng(ctx.seed + 1001)
    n = (180 if ctx.tier == "thorough" else 36) * boost
    # known finding D15, pinned (the input it was first seen on)
    q = {"pattern": {"kind": "rgbs", "radius": 2.0, "radius_outer": 3.25, "search": 4.75}, "shape": [44, 29], "p": [16, 12],
         "amp": 3.0, "bg": 20.0, "seed": 15, "upsample": [20]}
    msgs = run_case("disk", q)
    ctx.oracle_case("disk", q, msgs, key=classify("disk", q, msgs) if msgs else None, nontrivial=True)
    for k in range(n):
        q = gen_case(rng, k)
        if k % 5 == 2:
            q["pos_dtypes"] = [("uint16", "uint16"), ("uint32", "uint32"), ("uint16", "int32"), ("int64", "uint16"), ("uint8", "uint8"),
                               ("int16", "int16")][(k // 5) % 6]
            if "uint8" in q["pos_dtypes"] and max(q["shape"]) > 250:
                q["pos_dtypes"] = ("uint16", "uint16")
            ctx.count("position_containers_%s_%s" % tuple(q["pos_dtypes"]))
        msgs = run_case("disk", q)
        ctx.oracle_case("disk", q, msgs, key=classify("disk", q, msgs) if msgs else None,
                        nontrivial=(q["shape"][0] % 2 == 1 or q["shape"][1] % 2 == 1 or q["shape"][0] != q["shape"][1]))
        ctx.count("pattern_" + q["pattern"]["kind"])
    # long frames (strips of a large detector), the disk far from the origin along the long axis, high upsampling factors
    for k in range(2 * boost):
        kind_ = ("circular", "radial_gradient", "background_subtraction")[int(rng.integers(3))]
        r_ = float(rng.integers(3, 7))
        pat = {"kind": kind_, "radius": r_, "search": float(2 * r_ + 1)}
        if kind_ == "background_subtraction":
            pat["radius_outer"] = float(r_ * 1.5)
        c_ = int(np.ceil(pat["search"]))
        long_ = int(rng.integers(700, 1400))
        short_ = 2 * c_ + int(rng.integers(6, 20))
        shape = [long_, short_] if k % 2 == 0 else [short_, long_]
        p_ = [int(rng.integers(c_ + 1, s_ - c_)) for s_ in shape]
        p_[k % 2] = long_ - c_ - 1 - int(rng.integers(0, 20))
        q = {"pattern": pat, "shape": shape, "p": p_, "amp": float(rng.uniform(0.5, 8)), "bg": float(rng.integers(0, 200)),
             "seed": int(rng.integers(1 << 30)), "upsample": [50, int(rng.integers(25, 50))], "wrappers": True}
        msgs = run_case("disk", q)
        ctx.oracle_case("disk", q, msgs, key=classify("disk", q, msgs) if msgs else None, nontrivial=True)
        ctx.count("long_frame")
    # hard-edged disks with sign-matched user templates (the family of theorem flat_disk_exact), other seeds than in corr()
    for k in range(n // 4):
        q = gen_sign_matched(rng, k)
        if k % 3 == 1:
            dt_ = ("int16", "int8", "int32", "uint16", "uint8", "int64")[(k // 3) % 6]
            info_ = np.iinfo(dt_)
            lo_ = int(info_.min) + int(rng.integers(0, 20))
            hi_ = int(info_.max) - int(rng.integers(0, 20)) if (k // 18) % 2 == 0 else lo_ + int(rng.integers(2, 100))
            if dt_ == "int64":
                lo_, hi_ = -2 ** 40, 2 ** 40
            q["int_levels"] = [dt_, lo_, hi_]
            ctx.count("sign_matched_integer_levels_" + dt_)
        ctx.oracle_case("sign_matched", q, run_case("sign_matched", q),
                        nontrivial=(q["shape"][0] != q["shape"][1] or q["size"] % 2 == 0))
        ctx.count("sign_matched_" + q["weights"])


def extra_coverage(ctx):
    return {"exhaustive_range": getattr(ctx, "exhaustive_range", None)}
