"""C02 — sub-pixel accuracy bound for refined positions."""
import numpy as np
from scipy.ndimage import fourier_shift

import impl
from libertem_blobfinder.base import correlation as bc
from libertem_blobfinder.base import masks

PROP = "C02"
LEAN_MODULE = "BlobfinderModel.Properties.C02"
GEN_FILES = ["Eval", "Blocks"]
FRAGMENTS = ["upsampling", "correlation_fft", "log_scale", "kernels", "evaluate", "wrappers_text", "upsample_switch"]
DRIVER = "drvcorr"
RULE = ("correspondence: candidate grid of the upsampling (region size, dftshift -> offsets) for factors 2..50 vs the "
        "offsets the real refine_center_upsampling can return for a single-frequency spectrum; oracle: (a) linearly "
        "rendered disks at random sub-pixel positions, radii, contrasts 1..1000, all built-in patterns, both pipelines, "
        "start offsets within the capture range, single frames and stacks of three frames through the batch helpers (disk at "
        "another position in every frame): centre within 1 px, COM refined within 0.5 px; (b) band-limited "
        "Fourier-shifted disks, shifts in [-10,10]^2, frame shapes 40..90 of both parities, several upsample factors per "
        "shape *in sequence* through evaluate_upsampling: within 1/upsample + 0.03 px. Non-trivial: fractional shift / "
        "position in both axes (distinct = case hashes).")
ASSUMPTIONS = [
    "the accuracy constants of the statement (1 px, 0.5 px, 1/upsample + 0.03 px) are NOT proved and not provable with what "
    "is here; they are decided by this oracle search only",
]


def corr(ctx, drv):
    for us in range(2, 51):
        reg, dft = (int(v) for v in drv.ask(f"usgeom {us}").split())
        model_offsets = {(k - dft) / us for k in range(reg)}
        # real function on a spectrum concentrated at zero frequency: every candidate is tied -> first one is returned;
        # on a spectrum of a delta at (0,0) the maximum is at offset 0.  Use a delta shifted by a multiple of 1/us instead.
        n = 16
        msgs = []
        freq = (np.fft.fftfreq(n, us), np.fft.rfftfreq(n, us))
        for k in (0, reg - 1, dft):
            off = (k - dft) / us
            delta_spec = np.exp(-2j * np.pi * (np.fft.fftfreq(n)[:, None] * off + np.fft.rfftfreq(n)[None, :] * 0.0))
            r = bc.refine_center_upsampling(np.array([8., 8.], np.float32), np.array([8, 8]), delta_spec.astype(np.complex64),
                                            freq, us)
            got = float(r[0]) - 8.0
            if min(abs(got - o) for o in model_offsets) > 1e-4 or abs(got - off) > 1.0 / us + 1e-4:
                msgs.append(f"upsample={us}: delta at offset {off:.4f} refined to {got:.4f}; model grid "
                            f"{sorted(model_offsets)[:2]}..{sorted(model_offsets)[-1]:.3f}")
        ctx.corr_case("grid", {"us": us}, msgs, hkey=("grid", us))


def run_case(kind, q):
    rng = np.random.default_rng(q["seed"])
    msgs = []
    if kind == "linear":
        pattern = impl.pattern_from(q["pattern"])
        c = pattern.get_crop_size()
        shape = tuple(q["shape"])
        pos = np.array(q["pos"])
        radius = q["pattern"]["radius"]
        frame = (q["bg"] + q["contrast"] * masks.circular(centerX=pos[1], centerY=pos[0], imageSizeX=shape[1],
                                                         imageSizeY=shape[0], radius=radius, antialiased=True)).astype(np.float32)
        start = np.array(q["start"])
        runs = [("fast", impl.run_fast, start, False), ("full", impl.run_full, start, False)]
        if "start_full" in q:
            # the full-frame method correlates the whole frame: its capture range is the whole search window, up to one pixel
            # inside its border.  "Captured" means that the maximum of the correlation inside the window is not ON the border of
            # the window (where there is no neighbourhood to take a centre of mass of): such a start carries the 1 px clause
            # only (false alarm of soak 8, DESIGN 13.17)
            runs.append(("full", impl.run_full, np.array(q["start_full"]), True))
        for pipeline, runner, st_, edge in runs:
            try:
                outs = runner(frame, pattern, st_[np.newaxis])
            except Exception as e:
                msgs.append(f"{pipeline} raised {type(e).__name__}: {e}")
                continue
            cen, ref = np.asarray(outs[0][0], dtype=float), np.asarray(outs[1][0], dtype=float)
            if np.abs(cen - pos).max() > 1.0 + 1e-6:
                msgs.append(f"{pipeline} {q['pattern']['kind']} r={radius} contrast {q['contrast']:.1f}: true centre "
                            f"{pos.tolist()}, start {st_.tolist()}: integer centre {cen.tolist()} off by more than 1 px")
            elif edge and (np.any(cen - (st_ - c) <= 0) or np.any(cen - (st_ - c) >= 2 * c - 1)):
                pass      # the maximum lies on the border of the search window: not captured, no refinement to speak of
            elif np.abs(ref - pos).max() > 0.5 + 1e-6:
                msgs.append(f"{pipeline} {q['pattern']['kind']} r={radius} contrast {q['contrast']:.1f}: true centre "
                            f"{pos.tolist()}, start {st_.tolist()}: refined {ref.tolist()} off by {np.abs(ref - pos).max():.3f} px")
        # the batch helpers on a stack of frames (the documented way of processing many frames: buffers are allocated once and
        # reused): the disk sits at another sub-pixel position in every frame, all within the capture range of the same start
        if q.get("stack"):
            from libertem_blobfinder.common import correlation as cc
            poss = [pos + np.array(o) for o in q["stack"]]
            frames = np.stack([(q["bg"] + q["contrast"] * masks.circular(centerX=p_[1], centerY=p_[0], imageSizeX=shape[1],
                                                                         imageSizeY=shape[0], radius=radius, antialiased=True)
                                ).astype(np.float32) for p_ in poss])
            if q.get("wide"):
                # the same disks as 64-bit data (float64 / int32 / int64) on a large constant level: exactly representable in the
                # frame dtype, not in single precision
                lev, dt_ = q["wide"]
                frames = np.stack([np.round(lev + q["contrast"] * masks.circular(
                    centerX=p_[1], centerY=p_[0], imageSizeX=shape[1], imageSizeY=shape[0], radius=radius, antialiased=True) * 8) / 8
                    for p_ in poss])
                frames = (np.round(frames) if dt_ != "float64" else frames).astype(dt_)
            for nm, fn in (("process_frames_fast", cc.process_frames_fast), ("process_frames_full", cc.process_frames_full)):
                try:
                    outs = fn(pattern, frames, start[np.newaxis])
                except Exception as e:
                    msgs.append(f"{nm} raised {type(e).__name__}: {e}")
                    continue
                for i, p_ in enumerate(poss):
                    cen, ref = np.asarray(outs[0][i][0], dtype=float), np.asarray(outs[1][i][0], dtype=float)
                    if np.abs(cen - p_).max() > 1.0 + 1e-6 or np.abs(ref - p_).max() > 0.5 + 1e-6:
                        msgs.append(f"{nm} {q['pattern']['kind']} r={radius}: frame {i} of a stack of {len(poss)}, true centre "
                                    f"{p_.tolist()}, start {start.tolist()}: centre {cen.tolist()} refined {ref.tolist()}")
                        break
    else:
        shape = tuple(q["shape"])
        radius = q["radius"]
        pattern = impl.make_pattern("circular", radius)
        base = pattern.get_mask(shape).astype(np.float64)
        shift = np.array(q["shift"])
        frame = np.fft.ifft2(fourier_shift(np.fft.fft2(base), shift=shift)).real
        true = np.array([shape[0] // 2, shape[1] // 2]) + shift
        template = pattern.get_template(shape)
        corrs, specs = bc.do_correlations(template[np.newaxis], frame[np.newaxis], with_specs=True)
        pos = np.array(np.unravel_index(np.argmax(corrs[0]), shape))
        for us in q["upsample"]:
            # the same peak three times in one call (full-frame layout: one spectrum, several centres; crop layout: a stack
            # of spectra): every entry must meet the bound, not only the first of the call
            for layout in ("full", "stack"):
                out_c = np.repeat(pos[np.newaxis].astype(np.int32), 3, axis=0)
                out_r = np.zeros((3, 2), np.float32)
                try:
                    if layout == "full":
                        bc.evaluate_upsampling(corrspecs=specs[0], corrs=np.zeros((3, 2, 2)), peaks=np.zeros((3, 2), int),
                                               crop_size=1, sig_shape=shape, upsample_factor=us, out_centers=out_c,
                                               out_refineds=out_r)
                    else:
                        bc.evaluate_upsampling(corrspecs=np.repeat(specs[:1], 3, axis=0), corrs=np.repeat(corrs[:1], 3, axis=0),
                                               peaks=np.zeros((3, 2), int), crop_size=0, sig_shape=shape, upsample_factor=us,
                                               out_centers=out_c, out_refineds=out_r)
                except Exception as e:
                    msgs.append(f"evaluate_upsampling(upsample={us}, {layout}) raised {type(e).__name__}: {e}")
                    continue
                for row in range(3):
                    err = np.abs(out_r[row].astype(float) - true).max()
                    if err > 1.0 / us + 0.03:
                        msgs.append(f"shape {shape} shift {shift.tolist()} upsample={us} ({layout} layout, entry {row} of the "
                                    f"call): refined {out_r[row].tolist()} true {true.tolist()} error {err:.3f} > {1.0 / us + 0.03:.3f}")
                        break
        if q.get("starts"):
            # the same through the crop-based pipeline: several start positions in one call, fewer crop buffers than starts
            starts = np.asarray(q["starts"], dtype=np.int64)
            fpos = (frame - frame.min()).astype(np.float32)
            for us in q["upsample"][:2]:
                try:
                    outs = impl.run_fast(fpos, pattern, starts, b=q["b"], upsample=us)
                except Exception as e:
                    msgs.append(f"process_frame_fast(upsample={us}) raised {type(e).__name__}: {e}")
                    continue
                ref = np.asarray(outs[1], dtype=np.float64)
                one = np.asarray(impl.run_fast(fpos, pattern, starts[:1], b=1, upsample=us)[1], dtype=np.float64)[0]
                # every start sees the same disk: all refined positions agree with the single-start result to a grid step
                err = np.abs(ref - one).max(axis=1)
                if err.max() > 1.0 / us + 1e-3:
                    i = int(np.argmax(err))
                    msgs.append(f"process_frame_fast(upsample={us}, {q['b']} buffers for {len(starts)} starts): start "
                                f"{starts[i].tolist()} refined {ref[i].tolist()}, the first start alone gives {one.tolist()} "
                                f"(true {true.tolist()})")
            # the documented boolean form: upsample=True is the factor 20, in both pipelines -- where the factor 20 meets the
            # bound, True meets it, too
            for nm, fn in (("process_frame_fast", impl.run_fast), ("process_frame_full", impl.run_full)):
                try:
                    r20 = np.asarray(fn(fpos, pattern, starts[:2], upsample=20)[1], dtype=np.float64)
                    rt = np.asarray(fn(fpos, pattern, starts[:2], upsample=True)[1], dtype=np.float64)
                except Exception as e:
                    msgs.append(f"{nm}(upsample=True) raised {type(e).__name__}: {e}")
                    continue
                e20, et = np.abs(r20 - true).max(), np.abs(rt - true).max()
                if e20 <= 1 / 20 + 0.03 < et:
                    msgs.append(f"{nm}(upsample=True) shape {shape} shift {shift.tolist()}: refined {rt[0].tolist()}, true "
                                f"{true.tolist()}, error {et:.3f} > 1/20 + 0.03; the factor 20 gives {r20[0].tolist()}")
    return msgs[:6]


def search(ctx, boost=1, focus=()):
    rng = np.random.default_rng(ctx.seed + 1002)
    n = (300 if ctx.tier == "thorough" else 60) * boost
    for k in range(n):
        pat = impl.pattern_params(rng, kinds=("circular", "radial_gradient", "background_subtraction", "rgbs"),
                                  rmin=3.0, rmax=10.0)
        pat["search"] = float(max(pat["search"], pat["radius"] + 3))
        c = int(np.ceil(pat["search"]))
        shape = [int(rng.integers(2 * c + 6, 2 * c + 40)), int(rng.integers(2 * c + 6, 2 * c + 40))]
        pos = [float(rng.uniform(c + 2, shape[0] - c - 2)), float(rng.uniform(c + 2, shape[1] - c - 2))]
        cap = max(0, c - int(np.ceil(pat.get("radius_outer", pat["radius"]))) - 2)
        start = [int(np.round(pos[0])) + int(rng.integers(-cap, cap + 1)), int(np.round(pos[1])) + int(rng.integers(-cap, cap + 1))]
        start = [int(np.clip(start[0], c, shape[0] - c)), int(np.clip(start[1], c, shape[1] - c))]
        q = {"seed": int(rng.integers(1 << 30)), "pattern": pat, "shape": shape, "pos": pos, "start": start,
             "bg": float(rng.uniform(0, 50)), "contrast": float(10 ** rng.uniform(0, 3))}
        if k % 4 == 2:
            rp = [int(np.round(pos[0])), int(np.round(pos[1]))]
            sf = [rp[i] + c - int(rng.choice([1, 2, 2 * c - 2, 2 * c - 3, c])) for i in range(2)]   # window index of the centre
            q["start_full"] = sf
        if k % 6 == 5 and c - 3 > pat.get("radius_outer", pat["radius"]) + 1.5:
            # a disk close to a frame edge (completely inside the frame) and a start position OUTSIDE the frame whose search window
            # still holds the disk, at least two pixels inside its border (full-frame method)
            ax = int(rng.integers(2))
            near = float(rng.uniform(pat.get("radius_outer", pat["radius"]) + 1.5, c - 3))
            pos[ax] = near if k % 12 == 5 else shape[ax] - 1 - near
            q["pos"] = pos
            rp = [int(np.round(pos[0])), int(np.round(pos[1]))]
            sf = [rp[0] + int(rng.integers(-1, 2)), rp[1] + int(rng.integers(-1, 2))]
            sf[ax] = -int(rng.integers(1, 3)) if k % 12 == 5 else shape[ax] - 1 + int(rng.integers(1, 3))
            q["start_full"] = sf
            q["start"] = [int(np.clip(rp[0], c, shape[0] - c)), int(np.clip(rp[1], c, shape[1] - c))]
            ctx.count("start_outside_frame")
        if (k // 4) % 2 == 1:
            room = max(0.0, cap - max(abs(int(np.round(pos[0])) - start[0]), abs(int(np.round(pos[1])) - start[1])) - 0.5)
            room = min(room, pos[0] - c - 2, pos[1] - c - 2, shape[0] - c - 2 - pos[0], shape[1] - c - 2 - pos[1])
            q["stack"] = [[0.0, 0.0]] + [[float(rng.uniform(-room, room)), float(rng.uniform(-room, room))] for _ in range(2)] \
                if room > 0 else [[0.0, 0.0]] * 2
            if (k // 4) % 4 == 3 and cap >= 3 and "start_full" not in q and all(
                    c <= int(np.round(pos[i_])) <= shape[i_] - c for i_ in range(2)):
                # sample drift: the disk moves by whole pixels between the frames of the stack (2 .. cap - 1 px), the start position is
                # the first frame's; every frame's disk stays within the capture range
                q["start"] = [int(np.round(pos[0])), int(np.round(pos[1]))]
                mv = min(cap - 1, 4)
                q["stack"] = [[0.0, 0.0]] + [[float(rng.integers(-mv, mv + 1)) + float(rng.uniform(-0.3, 0.3)),
                                              float(rng.integers(-mv, mv + 1)) + float(rng.uniform(-0.3, 0.3))] for _ in range(3)]
                ctx.count("drifting_stacks")
            ctx.count("stacks")
            if (k // 8) % 2 == 1 and q["contrast"] >= 4:
                q["wide"] = [float(rng.choice([2.0 ** 26, 2.0 ** 30, 2.0 ** 31 - 4096])), ("float64", "int32", "int64", "float64")[(k // 16) % 4]]
                ctx.count("wide_stacks")
        ctx.oracle_case("linear", q, run_case("linear", q))
        ctx.count("linear_" + pat["kind"])
    for k in range(n // 3):
        shape = [int(rng.integers(40, 91)), int(rng.integers(40, 91))]
        q = {"seed": 0, "shape": shape, "radius": float(rng.integers(6, 14)),
             "shift": [float(np.round(rng.uniform(-10, 10), 2)), float(np.round(rng.uniform(-10, 10), 2))],
             "upsample": [int(v) for v in rng.permutation([int(rng.integers(2, 51)), int(rng.integers(2, 51)), 10, 25])]}
        if k % 6 == 1:
            # a frame exactly as large as the pattern's search window (2 * crop_size on both axes): crop and frame have the same shape
            r_ = float(rng.integers(10, 23))
            q["radius"] = r_
            shape = [int(4 * r_), int(4 * r_)]
            q["shape"] = shape
            q["shift"] = [float(np.round(rng.uniform(-6, 6), 2)), float(np.round(rng.uniform(-6, 6), 2))]
            ctx.count("frame_equals_window")
        if k % 2:
            cen = [shape[0] // 2 + int(np.round(q["shift"][0])), shape[1] // 2 + int(np.round(q["shift"][1]))]
            q["starts"] = [[cen[0] + int(rng.integers(-2, 3)), cen[1] + int(rng.integers(-2, 3))] for _ in range(int(rng.integers(3, 7)))]
            q["b"] = int(rng.integers(1, 3))
        ctx.oracle_case("bandlimited", q, run_case("bandlimited", q))
        ctx.count("bandlimited")
