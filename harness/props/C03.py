"""C03 — outputs equal their documented definitions on a direct correlation."""
from fractions import Fraction

import numpy as np

import impl
import refimpl
from common import rat
from libertem_blobfinder.base import correlation as bc

PROP = "C03"
LEAN_MODULE = "BlobfinderModel.Properties.C03"
GEN_FILES = ["Eval", "Crop", "Blocks"]
FRAGMENTS = ["kernels", "evaluate", "evaluate_loop", "shift", "correlation_fft", "log_scale", "fast_blocks", "full_blocks"]
DRIVER = "drvcorr"
RULE = ("correspondence (stage-wise, exact inputs): the real intermediate arrays of process_frame_fast / _full are captured "
        "by wrapping the stage functions; log-scaled buffers vs log of the model's exact argument; correlation maps vs the "
        "model's exact direct circular sum (2^-16 relative); evaluation of the real maps by the model (centre exact, height "
        "exact, refined 1e-4 px, elevation 1e-4 relative); wiring between the stages; end to end: the composed model functions processFrameFast / processFrameFull "
        "(the ones the pipeline theorems of C04 are about) on integer-valued frames with the float32 logarithm as a table vs the "
        "real process_frame_fast / _full (centre exact, height 2e-5 relative, refined 5e-3 px); oracle: independent float64 brute-force "
        "of the documented definitions (no FFT) on random frames / patterns / peaks inside, on the border and outside, odd "
        "shapes, buffer counts, upsample off. Non-trivial: a peak whose maximum lies within 2 px of the window border or a "
        "window partly outside the frame (distinct = case hashes).")
ASSUMPTIONS = [
    "A-FFT: numpy.fft.rfft2 / irfft2(., s) have their documented meaning (half spectrum of the 2-D DFT / inverse of its Hermitian extension) up to rounding; that the route then equals the direct circular sum is proved (corr_is_rfft_route) and compared on every run",
    "A-FLOAT: float32 kernels vs exact rational arithmetic within the stated tolerances",
]


def frl(s):
    return [float(Fraction(v)) for v in s.split()]


def check_eval_block(drv, corrs, peaks, c, outs, msgs, tag):
    """model evaluation of the real correlation maps vs the real kernel outputs"""
    cen, ref, hgt, elv = outs
    lines = [f"evaluate {m.shape[0]} {m.shape[1]} " + " ".join(rat(float(v)) for v in m.ravel()) for m in corrs]
    for i, (m, out) in enumerate(zip(corrs, drv.ask_many(lines))):
        f = out.split()
        cy, cx = int(f[0]), int(f[1])
        want_c = [cy + int(peaks[i][0]) - c, cx + int(peaks[i][1]) - c]
        if not np.isfinite(m).all():
            continue
        if cen[i].tolist() != want_c:
            msgs.append(f"{tag} peak {peaks[i].tolist()}: centre impl {cen[i].tolist()} model {want_c}")
            continue
        if float(hgt[i]) != float(np.float32(float(Fraction(f[2])))):
            msgs.append(f"{tag} peak {peaks[i].tolist()}: height impl {hgt[i]!r} model {float(Fraction(f[2]))!r}")
        ry = float(Fraction(f[3])) + peaks[i][0] - c
        rx = float(Fraction(f[4])) + peaks[i][1] - c
        span = float(np.ptp(m))
        if span > 1e-6 * max(1.0, np.abs(m).max()):
            if abs(ref[i][0] - ry) > 2e-4 or abs(ref[i][1] - rx) > 2e-4:
                msgs.append(f"{tag} peak {peaks[i].tolist()}: refined impl {ref[i].tolist()} model {[ry, rx]}")
            elif f[5] != "inf":
                e = float(Fraction(f[5])) ** 0.5
                if abs(elv[i] - e) > 2e-4 * max(e, 1e-3 * max(1.0, np.abs(m).max())):
                    msgs.append(f"{tag} peak {peaks[i].tolist()}: elevation impl {elv[i]!r} model {e!r}")


def corr(ctx, drv):
    rng = np.random.default_rng(ctx.seed + 3)
    thorough = ctx.tier == "thorough"
    kinds = ("circular", "radial_gradient", "background_subtraction", "user")
    for k in range(24 if thorough else 8):
        kind = kinds[k % len(kinds)]
        c = int(rng.integers(2, 4))
        radius = float(np.round(rng.uniform(1.2, c - 0.3), 2))
        pattern = impl.make_pattern(kind, radius, search=c, radius_outer=min(c, radius * 1.4) if kind == "background_subtraction" else None,
                                    user_shape=(2 * c - 1, 2 * c - 1) if kind == "user" else None)
        fy, fx = int(rng.integers(5, 11)), int(rng.integers(5, 11))
        frame = impl.noise_frame(rng, (fy, fx), ("poisson", "gauss", "disks")[k % 3])
        n = int(rng.integers(1, 5))
        peaks = np.stack([rng.integers(-c, fy + c, n), rng.integers(-c, fx + c, n)], axis=1).astype(np.int64)
        b = int(rng.integers(1, n + 2))
        p = {"pattern": kind, "radius": radius, "c": c, "frame": frame, "peaks": peaks, "b": b}
        # ---------------- crop based -------------------------------------------------------
        msgs = []
        st = refimpl.Stages()
        try:
            outs = st.run_fast(lambda: impl.run_fast(frame, pattern, peaks, b=b))
        except Exception as e:
            ctx.corr_case("fast_stages", p, [f"process_frame_fast raised {type(e).__name__}: {e}"])
            continue
        mask = np.asarray(pattern.get_mask((2 * c, 2 * c)), dtype=np.float64)
        mtxt = " ".join(rat(float(v)) for v in mask.ravel())
        kshift = "fft.ifftshift"
        done = 0
        for blk in st.blocks:
            for j in range(len(blk["cropped"])):
                arg = np.array(frl(drv.ask("logarg crop " + " ".join(rat(float(v)) for v in blk["cropped"][j].ravel()))))
                if np.abs(np.log(arg) - blk["logged"][j].ravel()).max() > 1e-5 * max(1.0, np.log(arg).max()):
                    msgs.append(f"log scaling of crop differs from log(x - min + 1): max diff "
                                f"{np.abs(np.log(arg) - blk['logged'][j].ravel()).max()}")
                mo = np.array(frl(drv.ask(f"conv {kshift} {2 * c} {2 * c} {mtxt} " +
                                          " ".join(rat(float(v)) for v in blk["logged"][j].ravel()))))
                got = blk["corrs"][j].ravel()
                if np.abs(mo - got).max() > 2 ** -16 * max(1.0, np.abs(mo).max()):
                    i = int(np.argmax(np.abs(mo - got)))
                    msgs.append(f"correlation map differs from the direct circular sum at {divmod(i, 2 * c)}: "
                                f"impl {got[i]!r} model {mo[i]!r}")
            if not np.array_equal(blk["corr_in"], blk["logged"]):
                msgs.append("do_correlations did not receive the log-scaled crops")
            if not np.array_equal(blk["eval_in"], blk["corrs"], equal_nan=True):
                msgs.append("evaluate_correlations did not receive the correlation maps")
            check_eval_block(drv, blk["eval_in"], blk["peaks"], c, blk["outs"], msgs, "fast")
            for a, o in zip(blk["outs"], outs):
                if not np.array_equal(a, o[done:done + len(a)], equal_nan=True):
                    msgs.append("outputs of the block are not what the caller sees in out[start:stop]")
            if not np.array_equal(blk["peaks"], peaks[done:done + len(blk["peaks"])]):
                msgs.append("block received the wrong slice of the peak list")
            done += len(blk["peaks"])
        if done != n:
            msgs.append(f"{done} of {n} peaks were evaluated")
        border = bool(np.any(peaks - c < 0) or np.any(peaks[:, 0] + c > fy) or np.any(peaks[:, 1] + c > fx))
        ctx.corr_case("fast_stages", p, msgs[:5], nontrivial=border)
        # ---------------- full frame ----------------------------------------------------------
        msgs = []
        st = refimpl.Stages()
        frame_buf = np.zeros(frame.shape, np.float32)
        try:
            outs = st.run_full(lambda crop: impl.run_full(frame, pattern, peaks, b=b, crop_function=crop, frame_buf=frame_buf))
        except Exception as e:
            ctx.corr_case("full_stages", p, [f"process_frame_full raised {type(e).__name__}: {e}"])
            continue
        arg = np.array(frl(drv.ask("logarg frame " + " ".join(rat(float(v)) for v in frame.ravel()))))
        if np.abs(np.log(arg) - frame_buf.ravel()).max() > 1e-5 * max(1.0, np.log(arg).max()):
            msgs.append("frame_buf is not log(frame - min + 1)")
        fmask = np.asarray(pattern.get_mask(frame.shape), dtype=np.float64)
        mo = np.array(frl(drv.ask(f"conv {kshift} {fy} {fx} " + " ".join(rat(float(v)) for v in fmask.ravel()) + " " +
                                  " ".join(rat(float(v)) for v in frame_buf.ravel()))))
        if np.abs(mo - st.corr.ravel()).max() > 2 ** -16 * max(1.0, np.abs(mo).max()):
            i = int(np.argmax(np.abs(mo - st.corr.ravel())))
            msgs.append(f"full-frame correlation map differs from the direct circular sum at {divmod(i, fx)}: "
                        f"impl {st.corr.ravel()[i]!r} model {mo[i]!r}")
        done = 0
        for blk in st.blocks:
            check_eval_block(drv, blk["eval_in"], blk["peaks"], c, blk["outs"], msgs, "full")
            for a, o in zip(blk["outs"], outs):
                if not np.array_equal(a, o[done:done + len(a)], equal_nan=True):
                    msgs.append("outputs of the block are not what the caller sees in out[start:stop]")
            done += len(blk["peaks"])
        ctx.corr_case("full_stages", p, msgs[:5], nontrivial=border)
        ctx.count("stages_" + kind)
    for k in range(16 if thorough else 6):
        composed(ctx, drv, rng, k)
    # unravel_index (its loop over dimensions is not translated): exhaustive against (idx // w, idx % w), the form the
    # generated evaluate_one and the model use
    msgs = []
    for h_ in range(1, 8 if thorough else 6):
        for w_ in range(1, 10 if thorough else 7):
            for idx in range(h_ * w_):
                got = tuple(int(v) for v in bc.unravel_index(idx, (h_, w_)))
                if got != (idx // w_, idx % w_):
                    msgs.append(f"unravel_index({idx}, {(h_, w_)}) = {got}, expected {(idx // w_, idx % w_)}")
    ctx.corr_case("unravel_index", {"max_shape": [7, 9] if thorough else [5, 6]}, msgs[:3], hkey=("unravel",))


def composed(ctx, drv, rng, k):
    """end to end: Model.processFrameFast / processFrameFull (the composed definitions the pipeline theorems are about)
    vs the real process_frame_fast / _full on integer-valued frames; the logarithm is a table of the float32 logs"""
    kinds = ("circular", "radial_gradient", "background_subtraction", "user")
    kind = kinds[k % len(kinds)]
    c = 2 + (k % 2)
    radius = float(np.round(rng.uniform(1.2, c - 0.3), 2))
    pattern = impl.make_pattern(kind, radius, search=c, radius_outer=min(c, radius * 1.4) if kind == "background_subtraction" else None,
                                user_shape=(2 * c - 1, 2 * c - 1) if kind == "user" else None)
    fy, fx = int(rng.integers(6, 11)), int(rng.integers(6, 11))
    frame = rng.poisson(4, (fy, fx)).astype(np.float32)
    n = int(rng.integers(1, 4))
    peaks = np.stack([rng.integers(-c, fy + c, n), rng.integers(-c, fx + c, n)], axis=1).astype(np.int64)
    for q in peaks[:2]:   # a bright antialiasing-free blob near the first peaks: a clear unique maximum
        yy, xx = np.mgrid[0:fy, 0:fx]
        frame += (((yy - q[0] - int(rng.integers(-1, 2))) ** 2 + (xx - q[1] - int(rng.integers(-1, 2))) ** 2) <= radius ** 2) * float(rng.integers(40, 90))
    b = int(rng.integers(1, n + 2))
    top = int(frame.max() - min(frame.min(), 0) + 2)
    table = [0.0] + [float(np.log(np.float32(v))) for v in range(1, top + 1)]
    p = {"pattern": kind, "radius": radius, "c": c, "frame": frame, "peaks": peaks, "b": b}
    for which, runner in (("fast", impl.run_fast), ("full", impl.run_full)):
        msgs = []
        mshape = (2 * c, 2 * c) if which == "fast" else (fy, fx)
        mask = np.asarray(pattern.get_mask(mshape), dtype=np.float64)
        line = (f"frame {which} {fy} {fx} {c} {b} {n} {len(table)} " + " ".join(str(int(v)) for v in frame.ravel()) + " "
                + " ".join(rat(float(v)) for v in mask.ravel()) + " " + " ".join(str(int(v)) for v in peaks.ravel()) + " "
                + " ".join(rat(v) for v in table))
        mo = drv.ask(line)
        try:
            cen, ref, hgt, elv = runner(frame, pattern, peaks, b=b)
        except Exception as e:
            ctx.corr_case("composed_" + which, p, [f"process_frame_{which} raised {type(e).__name__}: {e}; model: {mo[:60]}"])
            continue
        if mo == "bad-op":
            ctx.corr_case("composed_" + which, p, ["model driver rejected the operation"])
            continue
        scale = max(1.0, float(np.abs(mask).sum()) * float(np.log(top)))
        for i, rec in enumerate(mo.split(" ; ")):
            f = rec.split()
            mc = [int(f[0]), int(f[1])]
            mh = float(Fraction(f[2]))
            if abs(float(hgt[i]) - mh) > 2e-5 * scale:
                msgs.append(f"{which} peak {peaks[i].tolist()}: height impl {float(hgt[i])!r} composed model {mh!r}")
            elif cen[i].tolist() != mc:
                # tie guard: the statement asks for *a* position attaining the maximum; float round-off may break an exact
                # tie of the model differently.  Accept iff the model's map at the implementation's centre is within
                # tolerance of the model's maximum (and the centre is inside the window).
                win = np.array(frl(drv.ask(
                    f"framecorr {which} {fy} {fx} {c} {len(table)} " + " ".join(str(int(v)) for v in frame.ravel()) + " "
                    + " ".join(rat(float(v)) for v in mask.ravel()) + f" {int(peaks[i][0])} {int(peaks[i][1])} "
                    + " ".join(rat(v) for v in table)))).reshape(2 * c, 2 * c)
                ry_, rx_ = int(cen[i][0] - peaks[i][0] + c), int(cen[i][1] - peaks[i][1] + c)
                ok = 0 <= ry_ < 2 * c and 0 <= rx_ < 2 * c and win[ry_, rx_] >= win.max() - 2e-5 * scale
                if ok:
                    ctx.count("composed_tie_accepted")
                else:
                    msgs.append(f"{which} peak {peaks[i].tolist()}: centre impl {cen[i].tolist()} composed model {mc} "
                                f"(model map there {win[ry_, rx_] if 0 <= ry_ < 2 * c and 0 <= rx_ < 2 * c else None}, max {win.max()})")
            elif abs(float(ref[i][0]) - float(Fraction(f[3]))) > 5e-3 or abs(float(ref[i][1]) - float(Fraction(f[4]))) > 5e-3:
                msgs.append(f"{which} peak {peaks[i].tolist()}: refined impl {ref[i].tolist()} composed model "
                            f"{[float(Fraction(f[3])), float(Fraction(f[4]))]}")
            elif f[5] != "inf" and abs(float(elv[i]) - float(Fraction(f[5])) ** 0.5) > 2e-4 * scale:
                msgs.append(f"{which} peak {peaks[i].tolist()}: elevation impl {float(elv[i])!r} composed model "
                            f"{float(Fraction(f[5])) ** 0.5!r}")
        border = bool(np.any(peaks - c < 0) or np.any(peaks[:, 0] + c > fy) or np.any(peaks[:, 1] + c > fx))
        ctx.corr_case("composed_" + which, p, msgs[:4], nontrivial=border)
    ctx.count("composed")


def elevation_kernel_case(p):
    """peak_elevation on a small map with exactly representable values and a refined position on the quarter-pixel grid, so
    that some pixels are at distance exactly 1.5 (they belong to the cone: distance >= 1.5)"""
    from libertem_blobfinder.base import correlation as bc
    m = np.asarray(p["map"], dtype=p["dtype"])
    cy, cx = p["center"]
    height = float(m.max()) + p["above"]
    yy, xx = np.mgrid[0:m.shape[0], 0:m.shape[1]]
    dist = np.sqrt((yy - cy) ** 2.0 + (xx - cx) ** 2.0)
    sel = dist >= 1.5
    want = max(0.0, float(((height - m.astype(np.float64))[sel] / dist[sel]).min())) if sel.any() else np.inf
    try:
        got = float(bc.peak_elevation((np.float32(cy), np.float32(cx)), m, np.float32(height)))
    except Exception as e:
        return [f"peak_elevation raised {type(e).__name__}: {e}"]
    if not (abs(got - want) <= 1e-5 * max(1.0, abs(want)) or (np.isinf(got) and np.isinf(want))):
        return [f"peak_elevation at {(cy, cx)} on a {m.shape} map: {got!r}, smallest slope over pixels at distance >= 1.5 is {want!r}"]
    return []


def refine_kernel_case(p):
    """refine_center / center_of_mass on a small map at any intensity scale: the refined position is the centre plus the centre
    of mass of the minimum-subtracted (2r+1)^2 neighbourhood; the definition does not depend on the unit of the values"""
    from libertem_blobfinder.base import correlation as bc
    m64 = np.asarray(p["map"], dtype=np.float64) * p["scale"]
    m = m64.astype(p["dtype"])
    y, x = p["center"]
    r = min(2, y, x, m.shape[0] - y - 1, m.shape[1] - x - 1)
    try:
        got = bc.refine_center((y, x), 2, m)
    except Exception as e:
        return [f"refine_center raised {type(e).__name__}: {e}"]
    if r <= 0:
        want = (float(y), float(x))
    else:
        cut = m.astype(np.float64)[y - r:y + r + 1, x - r:x + r + 1]
        cut = cut - cut.min()
        if cut.sum() == 0:
            return []
        yy, xx = np.mgrid[0:2 * r + 1, 0:2 * r + 1]
        want = (y + float((cut * yy).sum() / cut.sum()) - r, x + float((cut * xx).sum() / cut.sum()) - r)
    if max(abs(float(got[0]) - want[0]), abs(float(got[1]) - want[1])) > 2e-4:
        return [f"refine_center at {(y, x)} on a {m.shape} {p['dtype']} map scaled by {p['scale']:g}: {tuple(float(v) for v in got)}, "
                f"centre + centre of mass of the minimum-subtracted neighbourhood is {want}"]
    if r > 0:
        try:
            cm = bc.center_of_mass((m[y - r:y + r + 1, x - r:x + r + 1] - m[y - r:y + r + 1, x - r:x + r + 1].min()))
        except Exception as e:
            return [f"center_of_mass raised {type(e).__name__}: {e}"]
        if max(abs(float(cm[0]) - (want[0] - y + r)), abs(float(cm[1]) - (want[1] - x + r))) > 2e-4:
            return [f"center_of_mass of a {2 * r + 1}x{2 * r + 1} array scaled by {p['scale']:g}: {tuple(float(v) for v in cm)} "
                    f"expected {(want[0] - y + r, want[1] - x + r)}"]
    return []


def run_case(kind, p):
    if kind == "elevation_kernel":
        return elevation_kernel_case(p)
    if kind == "refine_kernel":
        return refine_kernel_case(p)
    rng = np.random.default_rng(p["seed"])
    pattern = impl.pattern_from(p["pattern"])
    if p.get("negate") and hasattr(pattern, "template"):
        # a user template with negative weights only (a "dark spot"): every correlation value is <= 0; the height is still the
        # maximum over the window and the centre the place where it is attained
        pattern.template = -np.abs(pattern.template) - np.float32(0.125)
    c = pattern.get_crop_size()
    frame = impl.noise_frame(rng, tuple(p["shape"]), p["frame_kind"])
    if p.get("pedestal"):
        # "any frame": a large constant level under the same signal (float32 frames, e.g. summed or offset detector data); the
        # definition log(x - min + 1) does not depend on it
        frame = (frame + np.float32(p["pedestal"])).astype(np.float32)
    peaks = np.asarray(p["peaks"], dtype=np.int64)
    peaks_arg = peaks
    if p.get("peaks_dtype"):
        # the peak list in an unsigned / narrow integer container (positions above / left of the frame are moved onto its first
        # row / column: windows still stick out at the top and on the left)
        info_ = np.iinfo(p["peaks_dtype"])
        peaks = np.clip(peaks, max(0, int(info_.min)), int(info_.max))
        peaks_arg = peaks.astype(p["peaks_dtype"])
    msgs = []
    for pipeline in p["pipelines"]:
        try:
            runner = impl.run_fast if pipeline == "fast" else impl.run_full
            kw_ = {}
            if pipeline == "fast" and p.get("buf_layout"):
                # caller-supplied crop buffers that are a window of a larger scratch array / a transposed stack: shape
                # (n, 2c, 2c) and float dtype as documented, just not contiguous in memory
                nb_ = int(p["b"])
                if p["buf_layout"] == "window":
                    kw_["crop_bufs"] = np.zeros((nb_ + 1, 2 * c + 3, 2 * c + 5), dtype=np.float32)[:nb_, 1:2 * c + 1, 2:2 * c + 2]
                else:
                    kw_["crop_bufs"] = np.zeros((2 * c, nb_, 2 * c), dtype=np.float32).transpose(1, 0, 2)
            if p.get("prefill") is not None:
                # output arrays that still hold the results of an earlier frame (the documented way of using them in a loop):
                # every entry is written
                kw_["outs"] = impl.alloc_out(len(peaks), prefill=float(p["prefill"]))
            outs = runner(frame, pattern, peaks_arg, b=p["b"], **kw_)
        except Exception as e:
            msgs.append(f"{pipeline}: raised {type(e).__name__}: {e}")
            continue
        maps = refimpl.ref_maps(frame, pattern, peaks, pipeline)
        msgs += [f"{pipeline}: {m}" for m in refimpl.check_outputs(maps, peaks, c, outs)]
    return msgs[:6]


def gen_case(rng, k):
    pat = impl.pattern_params(rng, rmin=2.0, rmax=6.0)
    if k % 10 == 7:
        pat = {"kind": "user", "radius": pat["radius"], "search": float(np.round(pat["radius"] * rng.uniform(1.3, 2.2), 2))}
    if pat["kind"] == "rgbs":
        pat["kind"] = "background_subtraction"   # RGBS is not centro-symmetric about shape//2 on odd shapes (C16 scope)
    c = int(np.ceil(pat["search"]))
    shape = [int(rng.integers(2 * c + 1, 48)), int(rng.integers(2 * c + 1, 48))]
    n = int(rng.integers(1, 8))
    peaks = np.stack([rng.integers(-2 * c, shape[0] + 2 * c, n), rng.integers(-2 * c, shape[1] + 2 * c, n)], axis=1)
    peaks[0] = (int(rng.integers(c, shape[0] - c + 1)), int(rng.integers(c, shape[1] - c + 1)))
    return {"seed": int(rng.integers(1 << 30)), "pattern": pat, "shape": shape,
            "frame_kind": ("poisson", "gauss", "disks", "hot")[k % 4], "prefill": [None, 1234.5, -77.25][(k // 4) % 3],
            "peaks_dtype": [None, "uint16", None, "uint32", None, "uint8", None, "uint64"][(k // 3) % 8], "peaks": peaks.tolist(),
            "b": int(rng.integers(1, n + 2)), "pipelines": ["fast", "full"],
            "buf_layout": [None, "window", None, "transposed"][(k // 3) % 4], "negate": (k // 2) % 3 == 1 or k % 10 == 7,
            "pedestal": (0.0, 0.0, 2.0 ** 24 + 2, 0.0, -3e9, 2.0 ** 25, 1e6, float(2 ** int(rng.integers(24, 31))))[(k // 4) % 8]
            if k % 4 != 3 else 0.0}


def search(ctx, boost=1, focus=()):
    rng = np.random.default_rng(ctx.seed + 1003)
    n = (200 if ctx.tier == "thorough" else 40) * boost
    for k in range(n):
        p = gen_case(rng, k)
        c = int(np.ceil(p["pattern"]["search"]))
        pk = np.asarray(p["peaks"])
        border = bool(np.any(pk - c < 0) or np.any(pk[:, 0] + c > p["shape"][0]) or np.any(pk[:, 1] + c > p["shape"][1]))
        ctx.oracle_case("definitions", p, run_case("definitions", p), nontrivial=border)
        ctx.count("oracle_" + p["pattern"]["kind"])
    for k in range(n):
        h, w = int(rng.integers(4, 10)), int(rng.integers(4, 10))
        m = rng.integers(0, 9, (h, w)).astype(np.float64)
        cy, cx = int(rng.integers(1, h - 1)), int(rng.integers(1, w - 1))
        m[cy, cx] = 9 + int(rng.integers(0, 4))
        if k % 2:      # a high shoulder 1.5 px away from a half-pixel position
            m[cy, min(cx + 1, w - 1)] = m[cy, cx]
            if cx + 2 < w:
                m[cy, cx + 2] = m[cy, cx] - 1
        off = [(0.0, 0.0), (0.0, 0.5), (0.5, 0.0), (0.5, 0.5), (0.25, 0.0), (0.0, -0.5)][k % 6]
        q = {"map": m, "dtype": ["float32", "float64"][(k // 6) % 2], "center": [cy + off[0], cx + off[1]],
             "above": float((0, 1, 2, -1, 0, -0.5)[k % 6 if (k // 6) % 2 else k % 3])}   # negative: a pixel lies above the height -> floor 0
        ctx.oracle_case("elevation_kernel", q, run_case("elevation_kernel", q), nontrivial=off != (0.0, 0.0))
        ctx.count("elevation_kernel")
    # the refinement kernels at every intensity scale (detector counts, normalised images, physical units such as ampere)
    for k in range(n):
        h, w = int(rng.integers(3, 10)), int(rng.integers(3, 10))
        m = rng.uniform(0, 1, (h, w)) + rng.uniform(0, 5)
        cy, cx = int(rng.integers(0, h)), int(rng.integers(0, w))
        m[cy, cx] = m.max() + rng.uniform(0.1, 3)
        q = {"map": m, "dtype": ["float32", "float64"][(k // 7) % 2], "center": [cy, cx],
             "scale": [1.0, 1e-3, 1e3, 1e-7, 1e-10, 1e6, 1e-12][k % 7]}
        ctx.oracle_case("refine_kernel", q, run_case("refine_kernel", q), nontrivial=q["scale"] != 1.0)
        ctx.count("refine_kernel")
