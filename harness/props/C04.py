"""C04 — results stay in the search window and are well-formed for arbitrary data."""
import warnings

import numpy as np

import common
import impl
from libertem_blobfinder.base import correlation as bc
from libertem_blobfinder.common import correlation as cc

PROP = "C04"
LEAN_MODULE = "BlobfinderModel.Properties.C04"
GEN_FILES = ["Eval", "Crop", "Blocks"]
FRAGMENTS = ["kernels", "evaluate", "evaluate_loop", "shift", "log_scale", "correlation_fft", "upsampling", "dtypes", "upsample_switch", "crop_cell", "fast_blocks", "full_blocks", "wrappers_text"]
DRIVER = "drvcorr"
RULE = ("correspondence: upsampling geometry (region size, dftshift) of refine_center_upsampling for factors 2..50 vs the "
        "generated definitions; the same oracle cases re-run in a worker process with NUMBA_BOUNDSCHECK=1 (an out-of-bounds "
        "index raises) [thorough: also NUMBA_DISABLE_JIT=1]; oracle: the statement on frames with |values| <= 1e6 (Poisson, "
        "Gaussian, constant, zero, hot pixel, negative), zero-sum patterns, peaks in [-2c, shape+2c], upsample in {False, "
        "True, 2..50}, low- and high-level entry points, outputs prefilled with sentinels. Non-trivial: a window partly or "
        "entirely outside the frame or a degenerate frame (distinct = case hashes).")
ASSUMPTIONS = ["A-FLOAT: finiteness of FFT/log for finite input is not proved (oracle only)"]


def corr(ctx, drv):
    # upsampling geometry
    for us in range(2, 51):
        reg = int(np.ceil(us * 1.5))
        dft = int(np.trunc(reg / 2.0))
        mo = drv.ask(f"usgeom {us}")
        msgs = [] if mo == f"{reg} {dft}" else [f"upsample={us}: numpy region/dftshift {reg} {dft}, model {mo}"]
        # the real function: a delta correlation spectrum => refined offset must be one of (k - dftshift)/us
        ctx.corr_case("usgeom", {"us": us}, msgs, hkey=("us", us))
    # oracle cases in bounds-checked mode
    rng = np.random.default_rng(ctx.seed + 4)
    n = 40 if ctx.tier == "thorough" else 10
    cases = [("wellformed", gen_case(rng, k)) for k in range(n)]
    modes = [{"NUMBA_BOUNDSCHECK": "1"}]
    if ctx.tier == "thorough":
        modes.append({"NUMBA_DISABLE_JIT": "1"})
    for env in modes:
        sub = cases if "NUMBA_BOUNDSCHECK" in env else cases[:6]
        res = common.run_in_mode(PROP, env, sub)
        for (k, p), msgs in zip(sub, res):
            key = classify("wellformed", p, msgs) if msgs else None
            if key:        # a listed finding (D13) also shows in the other execution modes: reported as such, not as a broken tie
                ctx.oracle_case("wellformed", p, msgs, key=key, nontrivial=True)
                continue
            ctx.corr_case("mode_" + "_".join(env), p, msgs, nontrivial=True)
        ctx.count("mode_" + "_".join(env), len(sub))


def gen_case(rng, k):
    pat = impl.pattern_params(rng, rmin=1.0, rmax=6.0)
    pat["search"] = max(pat["search"], 2.0)
    c = int(np.ceil(pat["search"]))
    shape = [int(rng.integers(3, 50)), int(rng.integers(3, 50))]
    n = int(rng.integers(1, 9))
    peaks = np.stack([rng.integers(-2 * c, shape[0] + 2 * c + 1, n), rng.integers(-2 * c, shape[1] + 2 * c + 1, n)], axis=1)
    if k % 3 == 0:
        peaks[0] = (-2 * c, int(rng.integers(0, shape[1])))          # entirely outside
    # windows that end (or start) exactly on a frame edge: the last / first window that is not clipped on that side
    peaks[-1] = (shape[0] - c, int(rng.integers(-c, shape[1] + c))) if k % 2 else (int(rng.integers(-c, shape[0] + c)), shape[1] - c)
    if n >= 3:
        peaks[1] = (c, shape[1] - c) if k % 4 < 2 else (shape[0] - c, c)
    fk = ("poisson", "gauss", "const", "zero", "hot", "negative", "disks", "huge")[k % 8]
    if k % 11 == 5:
        fk = ("int16_span", "int8_span")[(k // 11) % 2]
    pdt = "int64"
    if k % 4 == 2:
        # peak positions kept by the caller in an unsigned / narrow integer dtype (all inside the frame, some closer to the top or
        # left edge than the crop size: their windows start at negative coordinates)
        pdt = ("uint8", "uint16", "uint32", "int16", "uint64")[(k // 4) % 5]
        peaks = np.stack([rng.integers(0, shape[0], n), rng.integers(0, shape[1], n)], axis=1)
        peaks[0] = (int(rng.integers(0, min(c, shape[0]))), int(rng.integers(0, shape[1])))
        peaks[-1] = (int(rng.integers(0, shape[0])), int(rng.integers(0, min(c, shape[1]))))
    return {"seed": int(rng.integers(1 << 30)), "pattern": pat, "shape": shape, "frame_kind": fk, "peaks_dtype": pdt,
            "peaks": peaks.tolist(), "b": int(rng.integers(1, n + 3)),
            "upsample": [False, True, 2, 3, 7, 20, 50][k % 7], "backend": "slicing" if k % 5 in (0, 3) else "pixel"}


def make_frame(rng, shape, kind):
    if kind == "zero":
        return np.zeros(shape, np.float32)
    if kind == "negative":
        return (-rng.poisson(20, shape)).astype(np.float32) - 3
    if kind == "dip":
        # a constant level with one strongly negative pixel (a dead / over-subtracted pixel): after log(x - min + 1) a high,
        # flat pedestal with one dip -- the correlation is a flat plateau at a high level away from the dip
        f = np.full(shape, float(rng.integers(0, 200)), np.float32)
        f[int(rng.integers(shape[0])), int(rng.integers(shape[1]))] = -float(10 ** rng.uniform(3, 6))
        return f
    if kind == "huge":
        return (rng.uniform(-1e6, 1e6, shape)).astype(np.float32)
    if kind in ("int16_span", "int8_span"):
        # signed detector data (dark-subtracted) whose span max - min exceeds the positive range of the dtype
        dt = np.int16 if kind == "int16_span" else np.int8
        info = np.iinfo(dt)
        f = rng.integers(info.min // 16, info.max // 16, shape).astype(dt)
        f.flat[int(rng.integers(f.size))] = info.max - int(rng.integers(0, 5))
        f.flat[int(rng.integers(f.size))] = info.min + int(rng.integers(0, 5))
        return f
    return impl.noise_frame(rng, shape, kind)


def check_outputs(outs, peaks, c, us, tag, sentinel=True):
    msgs = []
    cen, ref, hgt, elv = (np.asarray(a) for a in outs)
    if sentinel:
        if np.any(hgt == -999) or np.any(elv == -999) or np.any(ref == -999) or np.any(cen == -999):
            msgs.append(f"{tag}: output entries were not written")
    if cen.dtype.kind != "i":
        msgs.append(f"{tag}: centres have dtype {cen.dtype}, not a signed integer type")
    d = cen.astype(np.int64) - np.asarray(peaks, dtype=np.int64)
    if np.any(d < -c) or np.any(d > c - 1):
        i = int(np.argmax(np.any((d < -c) | (d > c - 1), axis=1)))
        msgs.append(f"{tag}: centre {cen[i].tolist()} outside [peak - c, peak + c - 1] for peak {list(peaks[i])} (c={c})")
    for nm, a in (("refined", ref), ("height", hgt), ("elevation", elv)):
        if not np.isfinite(a).all():
            i = int(np.argmax(~np.isfinite(a).reshape(len(peaks), -1).all(axis=1)))
            msgs.append(f"{tag}: {nm} of peak {list(peaks[i])} is not finite ({np.asarray(a)[i].tolist()})")
    if np.isfinite(elv).all() and np.any(elv < 0):
        msgs.append(f"{tag}: negative elevation")
    lim = 2.0 if not us else 0.75 + 0.5 / us
    if np.isfinite(ref).all():
        dr = np.abs(ref.astype(np.float64) - cen)
        if dr.max() > lim + 1e-4:
            i = int(np.argmax(dr.max(axis=1)))
            msgs.append(f"{tag}: refined {ref[i].tolist()} is {dr[i].max():.4f} px from the centre {cen[i].tolist()} "
                        f"(limit {lim:.4f}, upsample={us})")
    return msgs


def run_case(kind, p):
    rng = np.random.default_rng(p["seed"])
    pattern = impl.pattern_from(p["pattern"])
    c = pattern.get_crop_size()
    frame = make_frame(rng, tuple(p["shape"]), p["frame_kind"])
    peaks = np.asarray(p["peaks"], dtype=p.get("peaks_dtype", "int64"))
    us = p["upsample"]
    usf = 20 if us is True else (int(us) if us else 0)
    cf = bc.crop_disks_from_frame_slicing if p["backend"] == "slicing" else bc.crop_disks_from_frame
    msgs = []
    with warnings.catch_warnings():
        warnings.simplefilter("ignore")
        res = {}
        for pipeline, runner in (("fast", impl.run_fast), ("full", impl.run_full)):
            for u in (False, us):
                try:
                    outs = impl.alloc_out(len(peaks), prefill=-999, center_dtype=np.int32)
                    runner(frame, pattern, peaks, b=p["b"], upsample=u, crop_function=cf, outs=outs)
                    res[(pipeline, bool(u))] = outs
                    msgs += check_outputs(outs, peaks, c, usf if u else 0, f"{pipeline}(upsample={u})")
                except Exception as e:
                    msgs.append(f"process_frame_{pipeline}(upsample={u}) raised {type(e).__name__}: {e}")
            if us and (pipeline, False) in res and (pipeline, True) in res:
                a, b2 = res[(pipeline, False)], res[(pipeline, True)]
                for nm, x, y in (("centres", a[0], b2[0]), ("heights", a[2], b2[2]), ("elevations", a[3], b2[3])):
                    if not np.array_equal(x, y, equal_nan=True):
                        msgs.append(f"{pipeline}: enabling upsampling changed the {nm}")
        # high-level entry points (stack of one frame): signed centres, same invariants
        for nm, fn in (("process_frames_fast", cc.process_frames_fast), ("process_frames_full", cc.process_frames_full)):
            try:
                r = fn(pattern, frame[np.newaxis], peaks, upsample=us)
                msgs += check_outputs(tuple(a[0] for a in r), peaks, c, usf, nm, sentinel=False)
                low = res.get(("fast" if "fast" in nm else "full", bool(us)))
                if low is not None and not np.array_equal(np.asarray(r[0][0], dtype=np.int64), low[0]):
                    msgs.append(f"{nm}: centres differ from the low-level call (wrap-around?): "
                                f"{np.asarray(r[0][0]).tolist()} vs {low[0].tolist()}")
            except Exception as e:
                msgs.append(f"{nm} raised {type(e).__name__}: {e}")
            # a stack of three frames (the same frame: every frame is then evaluated at the same positions) with the peak list in the
            # dtype the helpers use internally (int32): every frame's results obey the same bounds, the caller's list is not touched
            try:
                pk32 = np.asarray(peaks).astype(np.int32)
                keep32 = pk32.copy()
                r3 = fn(pattern, np.stack([frame, frame, frame]), pk32, upsample=us)
                if not np.array_equal(pk32, keep32):
                    msgs.append(f"{nm}: the peak list passed by the caller was modified ({keep32[:2].tolist()} -> {pk32[:2].tolist()})")
                for fi in (1, 2):
                    msgs += check_outputs(tuple(a[fi] for a in r3), keep32, c, usf, f"{nm} frame {fi} of 3", sentinel=False)
            except Exception as e:
                msgs.append(f"{nm} on a stack of three frames raised {type(e).__name__}: {e}")
    return msgs[:8]


def classify(kind, p, msgs):
    """known finding D13 seen through C04: BackgroundSubtraction.get_mask(frame.shape) is all-NaN when the negative ring has no
    pixel inside a very small frame; the full-frame method, which asks for a frame-sized mask, then reports NaN heights.
    Keyed to the cause: pattern kind, the ring really has no pixel inside this frame shape, and only full-frame outputs fail."""
    if p["pattern"]["kind"] != "background_subtraction" or not msgs:
        return None
    if not all(m.startswith("full(") or m.startswith("process_frames_full") for m in msgs):
        return None
    from libertem_blobfinder.base import masks
    shape = tuple(p["shape"])
    ring = masks.ring(centerX=shape[1] // 2, centerY=shape[0] // 2, imageSizeX=shape[1], imageSizeY=shape[0],
                      radius=p["pattern"]["radius_outer"], radius_inner=p["pattern"]["radius"], antialiased=True)
    return "D13" if ring.sum() == 0 else None


def search(ctx, boost=1, focus=()):
    rng = np.random.default_rng(ctx.seed + 1004)
    n = (240 if ctx.tier == "thorough" else 48) * boost
    # known finding D13, pinned: a frame so small that the negative ring of BackgroundSubtraction has no pixel inside it
    p = {"seed": 13, "pattern": {"kind": "background_subtraction", "radius": 6.0, "radius_outer": 10.14, "search": 12.0},
         "shape": [3, 9], "frame_kind": "poisson", "peaks": [[1, 4], [0, 8]], "b": 2, "upsample": False, "backend": "pixel"}
    msgs_ = run_case("wellformed", p)
    ctx.oracle_case("wellformed", p, msgs_, key=classify("wellformed", p, msgs_) if msgs_ else None, nontrivial=True)
    for k in range(n):
        p = gen_case(rng, k)
        c = int(np.ceil(p["pattern"]["search"]))
        pk = np.asarray(p["peaks"])
        border = bool(np.any(pk - c < 0) or np.any(pk[:, 0] + c > p["shape"][0]) or np.any(pk[:, 1] + c > p["shape"][1]))
        msgs_ = run_case("wellformed", p)
        ctx.oracle_case("wellformed", p, msgs_, key=classify("wellformed", p, msgs_) if msgs_ else None,
                        nontrivial=border or p["frame_kind"] in ("const", "zero", "hot"))
        ctx.count("frame_" + p["frame_kind"])
    # constant frames seen through windows that reach over the frame border: the log-scaled crop is a step (frame level inside,
    # zero padding outside) and the correlation with a small flat pattern has a wide flat plateau at a high level -- the centre
    # of mass of a flat neighbourhood is taken there
    for k in range(16 * boost):
        r_ = float(rng.choice([2.0, 2.5, 3.0]))
        pat = {"kind": ("circular", "user", "background_subtraction")[k % 3], "radius": r_, "search": float(rng.integers(7, 11))}
        if pat["kind"] == "background_subtraction":
            pat["radius_outer"] = r_ * 1.5
        c = int(np.ceil(pat["search"]))
        shape = [int(rng.integers(2 * c, 40)), int(rng.integers(2 * c, 40))]
        my, mx = shape[0] // 2, shape[1] // 2
        d = [int(rng.integers(-c // 2, c // 2 + 1)) for _ in range(6)]
        peaks = [[d[0], mx], [my, d[1]], [shape[0] - 1 + d[2], mx], [my, shape[1] - 1 + d[3]], [d[4], d[5]], [my, mx]]
        if k % 2:
            peaks = [[int(rng.integers(c, shape[0] - c + 1)), int(rng.integers(c, shape[1] - c + 1))] for _ in range(6)]
        p = {"seed": int(rng.integers(1 << 30)), "pattern": pat, "shape": shape, "frame_kind": ("const", "dip")[k % 2], "peaks": peaks,
             "b": int(rng.integers(1, 8)) if k < 8 else int(rng.integers(1, 4)), "upsample": [False, 5, 20, 50][(k // 2) % 4],
             "backend": ("pixel", "slicing")[(k // 4) % 2]}
        msgs_ = run_case("wellformed", p)
        ctx.oracle_case("wellformed", p, msgs_, key=classify("wellformed", p, msgs_) if msgs_ else None, nontrivial=True)
        ctx.count("const_over_border")
    # a single hot pixel seen through several windows, fewer crop buffers than peaks, upsampling on: the correlation map of each
    # window is the mask itself (flat top), every refined position is an upsampled one and stays within 0.75 + 0.5 / upsample
    for k in range(8 * boost):
        r_ = float(rng.choice([2.0, 3.0, 4.0]))
        c = int(rng.integers(int(r_) + 3, 11))
        pat = {"kind": ("circular", "radial_gradient")[k % 2], "radius": r_, "search": float(c)}
        shape = [int(rng.integers(2 * c, 40)), int(rng.integers(2 * c, 40))]
        peaks = np.stack([rng.integers(-c // 2, shape[0] + c // 2, 8), rng.integers(-c // 2, shape[1] + c // 2, 8)], axis=1)
        p = {"seed": int(rng.integers(1 << 30)), "pattern": pat, "shape": shape, "frame_kind": "hot", "peaks": peaks.tolist(),
             "b": int(rng.integers(1, 4)), "upsample": [20, 50, 7, True][k % 4], "backend": ("pixel", "slicing")[(k // 4) % 2]}
        msgs_ = run_case("wellformed", p)
        ctx.oracle_case("wellformed", p, msgs_, key=classify("wellformed", p, msgs_) if msgs_ else None, nontrivial=True)
        ctx.count("hot_pixel_few_buffers")
    # "crop sizes >= 2": one very large search window per run (a single crop is larger than the library's default buffer limit)
    c_big = int(rng.integers(182, 200))
    p = {"seed": int(rng.integers(1 << 30)), "pattern": {"kind": "circular", "radius": float(rng.integers(8, 30)), "search": float(c_big)},
         "shape": [int(rng.integers(20, 50)), int(rng.integers(20, 50))], "frame_kind": "poisson",
         "peaks": [[int(rng.integers(0, 20)), int(rng.integers(0, 20))], [-5, 30]], "b": 1, "upsample": False, "backend": "pixel"}
    msgs_ = run_case("wellformed", p)
    ctx.oracle_case("wellformed", p, msgs_, nontrivial=True)
    ctx.count("large_crop")
