"""C05 — fast matching keeps inliers, rejects outliers and weak peaks, never raises."""
import warnings
from fractions import Fraction

import numpy as np

from common import rat
from props.lat import rats, fr
from libertem_blobfinder.common import gridmatching as grm

PROP = "C05"
LEAN_MODULE = "BlobfinderModel.Properties.C05"
GEN_FILES = ["Lattice"]
FRAGMENTS = ["fastmatch", "optimize", "calc_coords", "containers_text"]
DRIVER = "drvlattice"
RULE = ("correspondence: Matcher.fastmatch on structured lattices (|a|,|b| 20..40 px, 60..120 deg, rank-3 index subsets, "
        "noise <= 0.3 px, outliers, weak peaks, permutations, perturbed start, tolerances, min_match) vs the exact "
        "rational model of both matching rounds (selector and indices exact, lattice within 1e-6; comparison suspended "
        "when a point is within 1e-6 of the tolerance or the selection is rank deficient); np.around vs the model's "
        "half-to-even rounding; oracle: the statement's clauses incl. the adversarial stream (empty, NaN, inf, "
        "duplicates, collinear, zero weights, parallel vectors). Non-trivial: outliers or weak peaks present and start "
        "perturbed (distinct = case hashes).")
ASSUMPTIONS = [
    "the robustness window of the statement is proved in exact arithmetic for ONE round against any lattice (inlier_matched: "
    "displacement eps with (8/3) eps^2 < tol^2 keeps the peak with its indices; half_cell_rejected) and END TO END for "
    "noise-free node peaks (fastmatch_exact_recovery: exact lattice, exactly the strong node peaks, true indices, from any "
    "start whose first round catches a rank-3 set of node peaks only; instances are run on the implementation and on the "
    "compiled model); for noisy peaks the composition of both rounds (how far the first fit moves the lattice) is NOT proved "
    "— decided by the oracle with preconditions derived from the selection formula",
    "A-LA: lstsq / solve; rank-deficient selections (minimum-norm lstsq solution) are not modelled",
]


def gen(rng, k, tight=False):
    """tight=True: orders up to +-5, tolerance 0.5..1.2 px, full start perturbation: round one misses far-out
    inliers which round two has to recover (no oracle precondition by construction; see reference_selection)"""
    na, nb = rng.uniform(20, 40, 2)
    ang0 = rng.uniform(0, 2 * np.pi)
    ang = np.deg2rad(rng.uniform(60, 120))
    a = na * np.array([np.sin(ang0), np.cos(ang0)])
    b = nb * np.array([np.sin(ang0 + ang), np.cos(ang0 + ang)])
    zero = rng.uniform(40, 90, 2)
    far = (not tight) and k % 6 == 5   # far-out half-cell outliers: the relaxation is sqrt(|index|), not |index|
    imax = 5 if tight else (6 if far else 3)
    grid = [(i, j) for i in range(-imax, imax + 1) for j in range(-imax, imax + 1)]
    while True:
        sel = rng.choice(len(grid), size=int(rng.integers(4, 25)), replace=False)
        idx = np.array([grid[s] for s in sel], dtype=np.float64)
        if np.linalg.matrix_rank(np.hstack([np.ones((len(idx), 1)), idx])) == 3:
            break
    noise = rng.uniform(-1, 1, (len(idx), 2))
    noise = noise / np.maximum(1, np.linalg.norm(noise, axis=1))[:, None] * rng.uniform(0, 0.3 / np.sqrt(2) / 1.2)
    pts = zero + idx @ np.array([a, b]) + noise
    elev = rng.uniform(0.5, 3, len(idx))
    tol = float(rng.uniform(0.5, 1.2)) if tight else float(rng.uniform(1.0, 3.0))
    if far:
        tol = 0.8 * 0.5 * min(na, nb) / np.sqrt(imax + 0.5)
    min_weight = 0.3
    if k % 4 == 1:
        elev[0] = min_weight   # "elevation >= min_weight": equality is still strong enough
    nout = int(rng.integers(0, 7)) if k % 2 else 0
    nweak = int(rng.integers(0, 4)) if k % 3 else 0
    if (k // 8) % 3 == 2:
        # min_weight = 0 (accept every peak): a peak of elevation exactly 0 is still "elevation >= min_weight"; it has no
        # weight in the fit but is matched and reported like any other
        min_weight, nweak = 0.0, 0
        # (the other inliers alone must pin the lattice down well: at least six of them, spread in both directions -- a lattice
        # drawn through three or four noisy points does not predict a far position to within the tolerance)
        rest = np.hstack([np.ones((len(idx) - 1, 1)), idx[1:]])
        if len(idx) >= 7 and np.linalg.svd(rest, compute_uv=False).min() > 1.5:
            elev[0] = 0.0
    out_idx = []
    free = [g for g in grid if g not in {tuple(x) for x in idx.astype(int).tolist()}]
    for _ in range(nout):
        i, j = free[int(rng.integers(len(free)))]
        off = [(0.5, 0.5), (0.5, 0.0), (0.0, 0.5)][int(rng.integers(3))]
        if far:
            j0 = int(rng.integers(-1, 2))
            (i, j), off = [((imax - 1, j0), (0.5, 0.0)), ((j0, imax - 1), (0.0, 0.5)),
                           ((-imax, j0), (0.5, 0.0)), ((j0, -imax), (0.0, 0.5))][int(rng.integers(4))]
        out_idx.append((i + off[0], j + off[1]))
    outl = zero + np.array(out_idx).reshape(-1, 2) @ np.array([a, b])
    weak_idx = np.array([grid[int(rng.integers(len(grid)))] for _ in range(nweak)], dtype=np.float64).reshape(-1, 2)
    weak = zero + weak_idx @ np.array([a, b])
    allp = np.vstack([pts, outl, weak])
    alle = np.concatenate([elev, rng.uniform(0.5, 3, nout), rng.uniform(0.0, 0.29, nweak)])
    kind = np.array([0] * len(pts) + [1] * nout + [2] * nweak)
    true_idx = np.vstack([idx, np.full((nout + nweak, 2), np.nan)])
    frac_idx = np.vstack([idx, np.array(out_idx, dtype=np.float64).reshape(-1, 2), np.full((nweak, 2), np.nan)])
    perm = rng.permutation(len(allp))
    # start perturbation scaled so that every inlier stays within 0.8 * tolerance in the first round
    budget = max(0.0, 0.8 * tol / 1.16 - 0.3)
    s = min(1.0, budget / (np.sqrt(2) + 2 * imax * 0.2 * np.sqrt(2))) if k % 4 else 0.0
    if tight:
        s = 1.0
    dz = rng.uniform(-1, 1, 2) * s * (0.3 if tight else 1.0)
    da, db = rng.uniform(-0.2, 0.2, 2) * s, rng.uniform(-0.2, 0.2, 2) * s
    return {"pts": allp[perm], "elev": alle[perm], "kind": kind[perm], "true_idx": true_idx[perm], "frac_idx": frac_idx[perm],
            "zero": zero, "a": a, "b": b, "start_zero": zero + dz, "start_a": a + da, "start_b": b + db,
            "tol": tol, "min_weight": min_weight, "min_match": int(rng.integers(2, 5))}


def call(p, pts=None, zero=None, a=None, b=None):
    m = grm.Matcher(tolerance=p["tol"], min_weight=p["min_weight"], min_match=p["min_match"])
    pts = np.asarray(p["pts"] if pts is None else pts, dtype=np.float64)
    return m.fastmatch(centers=pts.copy(), refineds=pts.copy(), peak_values=np.ones(len(pts)),
                       peak_elevations=np.asarray(p["elev"], dtype=np.float64).copy(),
                       zero=np.asarray(p["start_zero"] if zero is None else zero, dtype=np.float64).copy(),
                       a=np.asarray(p["start_a"] if a is None else a, dtype=np.float64).copy(),
                       b=np.asarray(p["start_b"] if b is None else b, dtype=np.float64).copy())



def gen_exact(rng, k):
    """an instance of theorem fastmatch_exact_recovery: every number is a multiple of 1/16 (exact in binary floating point
    and as a rational): noise-free node peaks, half-cell outliers, weak node peaks, a perturbed start"""
    q8 = lambda v: np.round(np.asarray(v, dtype=float) * 8) / 8
    while True:
        na, nb = rng.uniform(20, 40, 2)
        ang0, ang = rng.uniform(0, 2 * np.pi), np.deg2rad(rng.uniform(60, 120))
        a = q8(na * np.array([np.sin(ang0), np.cos(ang0)]))
        b = q8(nb * np.array([np.sin(ang0 + ang), np.cos(ang0 + ang)]))
        if 4 * float(a @ b) ** 2 <= float(a @ a) * float(b @ b):
            break
    zero = q8(rng.uniform(40, 90, 2))
    imax = 3
    grid = [(i, j) for i in range(-imax, imax + 1) for j in range(-imax, imax + 1)]
    while True:
        sel = rng.choice(len(grid), size=int(rng.integers(4, 16)), replace=False)
        idx = np.array([grid[s_] for s_ in sel], dtype=np.float64)
        if np.linalg.matrix_rank(np.hstack([np.ones((len(idx), 1)), idx])) == 3:
            break
    pts = zero + idx @ np.array([a, b])
    used = {tuple(x) for x in idx.astype(int).tolist()}
    free = [g for g in grid if g not in used]
    nout, nweak = int(rng.integers(0, 5)), int(rng.integers(0, 3))
    out_idx = []
    for _ in range(nout):
        i, j = free[int(rng.integers(len(free)))]
        off = [(0.5, 0.5), (0.5, 0.0), (0.0, 0.5)][int(rng.integers(3))]
        out_idx.append((i + off[0], j + off[1]))
    outl = zero + np.array(out_idx).reshape(-1, 2) @ np.array([a, b])
    weak_idx = np.array([free[int(rng.integers(len(free)))] for _ in range(nweak)], dtype=np.float64).reshape(-1, 2)
    weak = zero + weak_idx @ np.array([a, b])
    allp = np.vstack([pts, outl, weak])
    elev = np.concatenate([q8(rng.uniform(0.5, 3, len(pts))), q8(rng.uniform(0.5, 3, nout)), q8(rng.uniform(0, 0.25, nweak))])
    kind = np.array([0] * len(pts) + [1] * nout + [2] * nweak)
    true_idx = np.vstack([idx, np.full((nout, 2), np.nan), weak_idx])
    perm = rng.permutation(len(allp))
    s = [0.0, 0.25, 0.5, 1.0][k % 4]
    return {"pts": allp[perm], "elev": elev[perm], "kind": kind[perm], "true_idx": true_idx[perm],
            "zero": zero, "a": a, "b": b, "start_zero": zero + q8(rng.uniform(-1, 1, 2) * s),
            "start_a": a + q8(rng.uniform(-0.2, 0.2, 2) * s), "start_b": b + q8(rng.uniform(-0.2, 0.2, 2) * s),
            "tol": float(q8(rng.uniform(1.0, 3.0))), "min_weight": 0.375, "min_match": int(rng.integers(2, 5))}


def _F(v):
    return [Fraction(float(x)) for x in np.asarray(v, dtype=float).ravel()]


def _round_half_even(x):
    f = x.numerator // x.denominator
    d = x - f
    if d < Fraction(1, 2):
        return f
    if d > Fraction(1, 2):
        return f + 1
    return f if f % 2 == 0 else f + 1


def _exact_round(pts, zero, a, b, tol):
    """one round of the documented selection in exact rational arithmetic: (matched?, rounded index) per point"""
    det = a[0] * b[1] - b[0] * a[1]
    out = []
    for y, x in pts:
        t0, t1 = y - zero[0], x - zero[1]
        ij = ((t0 * b[1] - b[0] * t1) / det, (a[0] * t1 - t0 * a[1]) / det)
        r = (_round_half_even(ij[0]), _round_half_even(ij[1]))
        e2 = ((ij[0] - r[0]) ** 2 * (a[0] ** 2 + a[1] ** 2) / max(1, abs(ij[0]))
              + (ij[1] - r[1]) ** 2 * (b[0] ** 2 + b[1] ** 2) / max(1, abs(ij[1])))
        out.append((e2 < tol * tol, r))
    return out


def exact_hypotheses(p):
    """the hypotheses of fastmatch_exact_recovery, evaluated exactly; returns None when they hold, else which one fails"""
    pts = [tuple(_F(r)) for r in np.asarray(p["pts"], dtype=float)]
    elev, kinds, ti = _F(p["elev"]), np.asarray(p["kind"]), np.asarray(p["true_idx"])
    mw, tol = Fraction(float(p["min_weight"])), Fraction(float(p["tol"]))
    z, a, b = _F(p["zero"]), _F(p["a"]), _F(p["b"])
    z0, a0, b0 = _F(p["start_zero"]), _F(p["start_a"]), _F(p["start_b"])
    if a0[0] * b0[1] - b0[0] * a0[1] == 0:
        return "singular start"
    true_round = _exact_round(pts, z, a, b, tol)
    for k_, (m, _) in enumerate(true_round):
        if kinds[k_] == 1 and elev[k_] >= mw and m:
            return "hout"          # a strong non-node peak the true lattice would accept
    r1 = _exact_round(pts, z0, a0, b0, tol)
    s1 = [k_ for k_, (m, _) in enumerate(r1) if m and elev[k_] >= mw]
    for k_ in s1:
        if kinds[k_] == 1 or tuple(int(v) for v in ti[k_]) != r1[k_][1]:
            return "h1"            # round one catches something that is not a node peak with its true index
    if len(s1) < p["min_match"]:
        return "hcount"
    A = np.array([[1, r1[k_][1][0], r1[k_][1][1]] for k_ in s1], dtype=float)
    if np.linalg.matrix_rank(A) < 3:
        return "hrank"
    return None



def _fit_exact(pts, elev, sel_idx):
    """weighted least-squares lattice of the selected points in exact arithmetic (Cramer); None if the design is singular.
    Returns (zero, a, b, design) with design = (s1, si, sj, sii, sij, sjj)"""
    s1 = si = sj = sii = sij = sjj = Fraction(0)
    st = [Fraction(0), Fraction(0)]; sit = [Fraction(0), Fraction(0)]; sjt = [Fraction(0), Fraction(0)]
    for k_, (i, j) in sel_idx:
        w = elev[k_]
        s1 += w; si += w * i; sj += w * j; sii += w * i * i; sij += w * i * j; sjj += w * j * j
        for c in (0, 1):
            st[c] += w * pts[k_][c]; sit[c] += w * i * pts[k_][c]; sjt[c] += w * j * pts[k_][c]

    def det3(m):
        return (m[0][0] * (m[1][1] * m[2][2] - m[1][2] * m[2][1]) - m[0][1] * (m[1][0] * m[2][2] - m[1][2] * m[2][0])
                + m[0][2] * (m[1][0] * m[2][1] - m[1][1] * m[2][0]))
    N = [[s1, si, sj], [si, sii, sij], [sj, sij, sjj]]
    D = det3(N)
    if D == 0:
        return None
    sol = []
    for c in (0, 1):
        rhs = [st[c], sit[c], sjt[c]]
        col = []
        for q in range(3):
            M = [row[:] for row in N]
            for r_ in range(3):
                M[r_][q] = rhs[r_]
            col.append(det3(M) / D)
        sol.append(col)
    zero = (sol[0][0], sol[1][0]); a = (sol[0][1], sol[1][1]); b = (sol[0][2], sol[1][2])
    return zero, a, b, (s1, si, sj, sii, sij, sjj, D)


def theorem_noisy(p):
    """theorem noisy_inliers_kept, instantiated in exact arithmetic on a generated case: the peaks it guarantees to be in the
    final selection with their true indices (None when a hypothesis -- round one selects node peaks only, with their true
    indices, and the match is valid -- does not hold)"""
    import math
    pts = [tuple(_F(r)) for r in np.asarray(p["pts"], dtype=float)]
    elev, kinds, ti = _F(p["elev"]), np.asarray(p["kind"]), np.asarray(p["true_idx"])
    mw, tol = Fraction(float(p["min_weight"])), Fraction(float(p["tol"]))
    z, a, b = _F(p["zero"]), _F(p["a"]), _F(p["b"])
    z0, a0, b0 = _F(p["start_zero"]), _F(p["start_a"]), _F(p["start_b"])
    if a0[0] * b0[1] - b0[0] * a0[1] == 0 or mw < 0 or tol <= 0:
        return None
    r1 = _exact_round(pts, z0, a0, b0, tol)
    s1 = [(k_, r1[k_][1]) for k_, (m, _) in enumerate(r1) if m and elev[k_] >= mw]
    for k_, r in s1:
        if kinds[k_] != 0 or tuple(int(v) for v in ti[k_]) != r:
            return None
    if len(s1) < p["min_match"]:
        return None
    f1 = _fit_exact(pts, elev, s1)
    if f1 is None:
        return None
    z1, a1, b1, (w1, si, sj, sii, sij, sjj, D) = f1
    det1 = a1[0] * b1[1] - b1[0] * a1[1]
    if det1 == 0:
        return None
    r2 = _exact_round(pts, z1, a1, b1, tol)
    s2 = [(k_, r2[k_][1]) for k_, (m, _) in enumerate(r2) if m and elev[k_] >= mw]
    if _fit_exact(pts, elev, s2) is None:
        return None                                   # not a valid match in the model (degenerate / invalid)
    # noise of the node peaks, per coordinate (node p = some (i, j) for the inliers, none for everything else)
    eps = Fraction(0)
    for k_ in range(len(pts)):
        if kinds[k_] == 0:
            i, j = (Fraction(int(v)) for v in ti[k_])
            for c in (0, 1):
                eps = max(eps, abs(pts[k_][c] - (z[c] + i * a[c] + j * b[c])))
    na1, nb1 = a1[0] ** 2 + a1[1] ** 2, b1[0] ** 2 + b1[1] ** 2
    kappa = na1 * nb1 / det1 ** 2
    def fit_error_bound(i, j):
        """a rational d with  v^T adj(N) v eps^2 sum(w) <= det N d^2  (theorem C06.noise_propagation), v = (1, i, j)"""
        v = (Fraction(1), i, j)
        adj = ((sii * sjj - sij * sij) * v[0] * v[0] + (w1 * sjj - sj * sj) * v[1] * v[1] + (w1 * sii - si * si) * v[2] * v[2]
               + 2 * (sj * sij - si * sjj) * v[0] * v[1] + 2 * (si * sij - sii * sj) * v[0] * v[2]
               + 2 * (si * sj - w1 * sij) * v[1] * v[2])
        x = adj * eps ** 2 * w1 / D
        d = Fraction(math.ceil(math.sqrt(float(x)) * 10 ** 6) + 1, 10 ** 6)
        return d if d * d >= x else None

    out = []
    rejected = []
    fi_all = np.asarray(p["frac_idx"]) if "frac_idx" in p else None
    for k_ in range(len(pts)):
        if kinds[k_] == 1 and fi_all is not None and elev[k_] >= mw:
            # theorem noisy_selection, outlier clauses: a peak half a cell off along a (or b)
            fi, fj = (Fraction(float(v)) for v in fi_all[k_])
            for first in (True, False):
                h, o = (fi, fj) if first else (fj, fi)
                if h.denominator != 2:
                    continue
                d = fit_error_bound(fi, fj)
                if d is None:
                    continue
                n_ = na1 if first else nb1
                x_ = 2 * kappa * (eps + d) ** 2 / n_
                eta = Fraction(math.ceil(math.sqrt(float(x_)) * 10 ** 6) + 1, 10 ** 6)
                if eta * eta < x_ or eta > Fraction(1, 2):
                    continue
                if tol ** 2 * max(Fraction(1), abs(h) + eta) <= (Fraction(1, 2) - eta) ** 2 * n_:
                    rejected.append(k_)
                    break
            continue
        if kinds[k_] != 0 or elev[k_] < mw:
            continue
        i, j = (Fraction(int(v)) for v in ti[k_])
        d = fit_error_bound(i, j)
        if d is None:
            continue
        e2 = (eps + d) ** 2
        if 4 * kappa * e2 < tol ** 2 and 8 * kappa * e2 < min(na1, nb1):
            out.append((k_, (int(i), int(j))))
    p["_theorem_rejected"] = rejected
    return out


def float_errors(pts, zero, a, b):
    ind = np.linalg.solve(np.array((a, b)).T, (pts - zero).T).T
    d = np.abs(ind - np.around(ind)) * (np.linalg.norm(a), np.linalg.norm(b))
    return np.linalg.norm(d / np.maximum(1, np.abs(ind)) ** 0.5, axis=1)


def reference_selection(p, margin=0.1):
    """Independent re-implementation of the documented algorithm (two rounds of index rounding with the
    sqrt(|index|)-relaxed tolerance, weighted fit in between).  Returns the expected selector, or None when a
    peak is closer than `margin` (relative) to the tolerance in either round (no expectation then)."""
    pts, elev = np.asarray(p["pts"], dtype=float), np.asarray(p["elev"], dtype=float)
    ok = elev >= p["min_weight"]
    zero, a, b = (np.asarray(p[k], dtype=float) for k in ("start_zero", "start_a", "start_b"))
    sel = None
    for rnd in range(2):
        e = float_errors(pts, zero, a, b)
        if np.any(np.abs(e[ok] - p["tol"]) < margin * p["tol"]):
            return None
        sel = ok & (e < p["tol"])
        if rnd == 0:
            if sel.sum() < p["min_match"]:
                return None
            ind = np.around(np.linalg.solve(np.array((a, b)).T, (pts[sel] - zero).T).T)
            A = np.hstack([np.ones((sel.sum(), 1)), ind])
            if np.linalg.matrix_rank(A) < 3:
                return None
            sw = np.sqrt(elev[sel])[:, None]
            zero, a, b = np.linalg.lstsq(A * sw, pts[sel] * sw, rcond=None)[0]
    return sel


def is_invalid(r):
    return bool(np.isnan(np.array([r.zero, r.a, r.b], dtype=float)).all() and not np.any(r.selector)
                and len(r.indices) == 0 and r.error == np.inf)



def exact_expect(p, mo=None):
    """conclusion of fastmatch_exact_recovery on the implementation (and, if given, on the model's answer `mo`)"""
    msgs = []
    kinds, elev = np.asarray(p["kind"]), np.asarray(p["elev"], dtype=float)
    want = (kinds != 1) & (elev >= p["min_weight"])
    ti = np.asarray(p["true_idx"])[want].astype(int)
    truth = np.concatenate([p["zero"], p["a"], p["b"]]).astype(float)
    if mo is not None:
        if not mo.startswith("valid "):
            msgs.append(f"theorem instance: the model answers {mo[:40]!r}, expected a valid match")
        else:
            head, selbits, idx = mo.split(" | ")
            v = [Fraction(x) for x in head[len("valid "):].split()]
            if v != [Fraction(float(x)) for x in truth]:
                msgs.append(f"theorem instance: the model's lattice {head} is not exactly the true lattice {truth.tolist()}")
            if [c == "1" for c in selbits] != want.tolist():
                msgs.append(f"theorem instance: the model's selector {selbits} is not the strong node peaks {want.astype(int).tolist()}")
            elif [int(x) for x in idx.split()] != ti.ravel().tolist():
                msgs.append("theorem instance: the model's indices are not the true indices")
    try:
        with warnings.catch_warnings():
            warnings.simplefilter("ignore")
            r = call(p)
    except Exception as e:
        return msgs + [f"fastmatch raised {type(e).__name__}: {e}"]
    if is_invalid(r):
        return msgs + ["noise-free lattice with a working start: the match is invalid"]
    if not np.array_equal(r.selector, want):
        msgs.append(f"noise-free lattice: selection {r.selector.astype(int).tolist()} is not exactly the strong node peaks "
                    f"{want.astype(int).tolist()} (kinds {kinds.tolist()})")
    else:
        if not np.array_equal(np.asarray(r.indices).reshape(-1, 2), ti):
            msgs.append("noise-free lattice: assigned indices are not the true indices")
        got = np.concatenate([r.zero, r.a, r.b]).astype(float)
        if np.abs(got - truth).max() > 1e-9 * max(1.0, np.abs(truth).max()):
            msgs.append(f"noise-free lattice: returned lattice {got.tolist()} is not the true lattice {truth.tolist()} "
                        f"(max deviation {np.abs(got - truth).max():.3g})")
    return msgs[:6]


def corr(ctx, drv):
    rng = np.random.default_rng(ctx.seed + 5)
    n = 200 if ctx.tier == "thorough" else 60
    # np.around vs roundHalfEven
    xs = np.concatenate([np.arange(-6, 7) + 0.5, rng.uniform(-9, 9, 40), np.arange(-3, 4).astype(float)])
    mo = [int(v) for v in drv.ask("round " + rats(xs)).split()]
    msgs = [f"around({x})={int(np.around(x))} model {m}" for x, m in zip(xs, mo) if int(np.around(x)) != m]
    ctx.corr_case("round", {"xs": xs}, msgs)
    for k in range(n):
        p = gen(rng, k, tight=(k % 3 == 2))
        msgs = []
        line = (f"fastmatch {rat(p['tol'])} {rat(p['min_weight'])} {p['min_match']} {rats(p['start_zero'])} "
                f"{rats(p['start_a'])} {rats(p['start_b'])} " + rats(np.column_stack([p["pts"], p["elev"]])))
        mo = drv.ask(line)
        try:
            r = call(p)
        except Exception as e:
            ctx.corr_case("fastmatch", p, [f"fastmatch raised {type(e).__name__}: {e}; model: {mo[:60]}"])
            continue
        e1 = float_errors(p["pts"], p["start_zero"], p["start_a"], p["start_b"])
        border = bool(np.any(np.abs(e1 - p["tol"]) < 1e-6))
        if not is_invalid(r) and not border:
            try:
                e2 = float_errors(p["pts"], r.zero, r.a, r.b)
                border = bool(np.any(np.abs(e2 - p["tol"]) < 1e-6))
            except Exception:
                pass
        if mo == "degenerate" or border:
            ctx.count("suspended")
        elif mo == "invalid":
            if not is_invalid(r):
                msgs.append(f"model: invalid, impl: selector {r.selector.astype(int).tolist()} zero {np.asarray(r.zero).tolist()}")
        else:
            head, selbits, idx = mo.split(" | ")
            v = np.array([float(x) for x in fr(head[len("valid "):])])
            sel = np.array([c == "1" for c in selbits])
            midx = np.array([int(x) for x in idx.split()]).reshape(-1, 2)
            if is_invalid(r):
                msgs.append(f"model: valid with selector {selbits}, impl: invalid")
            else:
                if not np.array_equal(sel, r.selector):
                    msgs.append(f"selector differs: impl {r.selector.astype(int).tolist()} model {sel.astype(int).tolist()}")
                elif not np.array_equal(midx, np.asarray(r.indices).reshape(-1, 2)):
                    msgs.append("indices differ")
                elif np.abs(np.concatenate([r.zero, r.a, r.b]) - v).max() > 1e-6 * max(1.0, np.abs(v).max()):
                    msgs.append(f"lattice differs: impl {np.concatenate([r.zero, r.a, r.b]).tolist()} model {v.tolist()}")
        ctx.corr_case("fastmatch", p, msgs, nontrivial=bool((p["kind"] > 0).any()) and k % 4 != 0)
        ctx.count("model_" + mo.split()[0])
    # min_match 0 / 1 with nothing to match (theorem nothing_matched_invalid): model and implementation both give the invalid match
    for p in [q_ for q_ in adversarial(rng) if "min_match=" in q_.get("what", "")]:
        line = (f"fastmatch {rat(p['tol'])} {rat(p['min_weight'])} {p['min_match']} {rats(p['start_zero'])} "
                f"{rats(p['start_a'])} {rats(p['start_b'])} " + rats(np.column_stack([np.asarray(p["pts"]).reshape(-1, 2), p["elev"]])))
        mo = drv.ask(line)
        msgs = []
        try:
            r = call(p)
            if mo != "invalid" or not is_invalid(r):
                msgs.append(f"{p['what']}: model {mo[:40]}, implementation {'invalid' if is_invalid(r) else 'a match'}")
        except Exception as e:      # noqa: BLE001
            msgs.append(f"{p['what']}: fastmatch raised {type(e).__name__}: {e}; model: {mo[:40]}")
        ctx.corr_case("fastmatch", p, msgs, nontrivial=True)
        ctx.count("nothing_to_match")
    # instances of theorem fastmatch_exact_recovery: the compiled model must return the true lattice EXACTLY, the strong node
    # peaks and their true indices; the implementation the same to float accuracy
    for k in range(n // 2):
        p = gen_exact(rng, k)
        why = exact_hypotheses(p)
        ctx.count("exact_" + (why or "holds"))
        if why is not None:
            continue
        line = (f"fastmatch {rat(p['tol'])} {rat(p['min_weight'])} {p['min_match']} {rats(p['start_zero'])} "
                f"{rats(p['start_a'])} {rats(p['start_b'])} " + rats(np.column_stack([p["pts"], p["elev"]])))
        mo = drv.ask(line)
        msgs = exact_expect(p, mo)
        ctx.corr_case("exact_recovery", p, msgs, nontrivial=bool((p["kind"] > 0).any()) and k % 4 != 0)


def run_case(kind, p):
    msgs = []
    with warnings.catch_warnings():
        warnings.simplefilter("ignore")
        if kind == "structured":
            try:
                r = call(p)
            except Exception as e:
                return [f"fastmatch raised {type(e).__name__}: {e}"]
            pts, elev, kinds = np.asarray(p["pts"]), np.asarray(p["elev"]), np.asarray(p["kind"])
            n_in = int((kinds == 0).sum())
            if n_in >= p["min_match"]:
                if is_invalid(r):
                    return [f"{n_in} inliers >= min_match={p['min_match']} but the match is invalid"]
                want = kinds == 0
                # a weak peak that sits on a lattice node is still weak; an outlier half a cell away is rejected
                if not np.array_equal(r.selector, want):
                    extra = np.flatnonzero(r.selector & ~want).tolist()
                    missing = np.flatnonzero(~r.selector & want).tolist()
                    msgs.append(f"selection is not exactly the inliers: wrongly selected {extra} "
                                f"(kinds {kinds[extra].tolist()}), missed inliers {missing} (tol {p['tol']:.2f})")
                else:
                    ti = np.asarray(p["true_idx"])[want]
                    if not np.array_equal(np.asarray(r.indices).reshape(-1, 2), ti):
                        msgs.append("assigned indices are not the true indices")
                    A = np.hstack([np.ones((n_in, 1)), ti]) * np.sqrt(elev[want])[:, None]
                    x = np.linalg.lstsq(A, pts[want] * np.sqrt(elev[want])[:, None], rcond=None)[0]
                    if np.abs(np.array([r.zero, r.a, r.b]) - x).max() > 1e-6 * max(1.0, np.abs(x).max()):
                        msgs.append("returned lattice is not the weighted least-squares fit of the selected peaks")
            # theorem noisy_inliers_kept, instantiated exactly on this case: the peaks it guarantees must be selected with their indices
            guaranteed = theorem_noisy(p) if p.get("theorem", True) else None
            if guaranteed:
                if is_invalid(r):
                    msgs.append("theorem instance (noisy_inliers_kept): the model's match is valid, the implementation's is invalid")
                else:
                    pos = np.cumsum(r.selector) - 1
                    ind = np.asarray(r.indices).reshape(-1, 2)
                    for k_, ij in guaranteed:
                        if not r.selector[k_]:
                            msgs.append(f"theorem instance (noisy_inliers_kept): peak {k_} at node {ij} is guaranteed to be kept and is not selected")
                        elif tuple(int(v) for v in ind[pos[k_]]) != ij:
                            msgs.append(f"theorem instance (noisy_inliers_kept): peak {k_} got indices {ind[pos[k_]].tolist()} instead of {ij}")
                    for k_ in p.get("_theorem_rejected", []):
                        if r.selector[k_]:
                            msgs.append(f"theorem instance (noisy_selection): the half-cell outlier {k_} is guaranteed to be rejected "
                                        f"and is selected")
            # the optional arrays: correlation heights given, elevations left out (every peak then counts with weight 1 -- heights
            # are not elevations), and positions only
            if p.get("optional_args", True):
                m_ = grm.Matcher(tolerance=p["tol"], min_weight=p["min_weight"], min_match=p["min_match"])
                pv_ = np.linspace(0.01, 5.0, len(pts))[::-1].copy()
                kw_ = dict(zero=np.asarray(p["start_zero"], dtype=float).copy(), a=np.asarray(p["start_a"], dtype=float).copy(),
                           b=np.asarray(p["start_b"], dtype=float).copy())
                ones_ = m_.fastmatch(centers=pts.copy(), refineds=pts.copy(), peak_values=pv_.copy(),
                                     peak_elevations=np.ones(len(pts)), **kw_)
                for what, rr in (("heights given, elevations left out", m_.fastmatch(centers=pts.copy(), refineds=pts.copy(), peak_values=pv_.copy(), **kw_)),
                                 ("positions only", m_.fastmatch(centers=pts.copy(), **kw_))):
                    if is_invalid(rr) != is_invalid(ones_) or (not is_invalid(rr) and (
                            not np.array_equal(rr.selector, ones_.selector)
                            or np.abs(np.concatenate([rr.zero, rr.a, rr.b]) - np.concatenate([ones_.zero, ones_.a, ones_.b])).max() > 1e-9)):
                        msgs.append(f"fastmatch with {what} differs from the match with unit elevations "
                                    f"(selected {None if is_invalid(rr) else int(rr.selector.sum())} vs "
                                    f"{None if is_invalid(ones_) else int(ones_.selector.sum())})")
            # the same numbers in other containers: read-only arrays (the caller's data is input, not scratch space), column-major
            # position arrays, start parameters as tuples / lists -- same match
            if p.get("optional_args", True) and len(pts):
                def ro(x):
                    x = np.array(x, dtype=np.float64)
                    x.setflags(write=False)
                    return x
                variants = (
                    ("read-only input arrays", dict(centers=ro(pts), refineds=ro(pts), peak_values=ro(np.ones(len(pts))),
                                                    peak_elevations=ro(elev), zero=ro(p["start_zero"]), a=ro(p["start_a"]), b=ro(p["start_b"]))),
                    ("column-major positions, start parameters as tuples",
                     dict(centers=np.asfortranarray(pts), refineds=np.asfortranarray(pts), peak_values=np.ones(len(pts)),
                          peak_elevations=np.asarray(elev, dtype=np.float64).copy(),
                          zero=tuple(float(v) for v in p["start_zero"]), a=tuple(float(v) for v in p["start_a"]),
                          b=list(float(v) for v in p["start_b"]))))
                # integer pixel positions only (what `centers` is documented to be: no refined positions given), elevations that are
                # not whole numbers: the same match as with the same positions as floats
                ipts = np.round(pts)
                if np.isfinite(ipts).all() and np.abs(ipts).max(initial=0) < 30000:
                    fkw = dict(zero=np.asarray(p["start_zero"], dtype=float).copy(), a=np.asarray(p["start_a"], dtype=float).copy(),
                               b=np.asarray(p["start_b"], dtype=float).copy())
                    try:
                        mk_ = lambda: grm.Matcher(tolerance=p["tol"], min_weight=p["min_weight"], min_match=p["min_match"])   # noqa: E731
                        rf = mk_().fastmatch(centers=ipts.copy(), refineds=ipts.copy(), peak_values=np.ones(len(pts)),
                                             peak_elevations=np.asarray(elev, dtype=np.float64).copy(), **fkw)
                        for idt in ("int64", "int16", "int32"):
                            ri = mk_().fastmatch(centers=ipts.astype(idt), peak_values=np.ones(len(pts)),
                                                 peak_elevations=np.asarray(elev, dtype=np.float64).copy(), **fkw)
                            if is_invalid(ri) != is_invalid(rf) or (not is_invalid(ri) and (
                                    not np.array_equal(ri.selector, rf.selector)
                                    or np.abs(np.concatenate([ri.zero, ri.a, ri.b]) - np.concatenate([rf.zero, rf.a, rf.b])).max() > 1e-9)):
                                msgs.append(f"fastmatch with {idt} pixel positions (no refined positions) differs from the match with the "
                                            f"same positions as floats: {'invalid' if is_invalid(ri) else np.concatenate([ri.zero, ri.a, ri.b]).tolist()} vs "
                                            f"{'invalid' if is_invalid(rf) else np.concatenate([rf.zero, rf.a, rf.b]).tolist()}")
                                break
                    except Exception as e:      # noqa: BLE001
                        msgs.append(f"fastmatch with integer pixel positions raised {type(e).__name__}: {e}")
                for what, kw_ in variants:
                    try:
                        rr = grm.Matcher(tolerance=p["tol"], min_weight=p["min_weight"], min_match=p["min_match"]).fastmatch(**kw_)
                    except Exception as e:      # noqa: BLE001
                        msgs.append(f"fastmatch with {what} raised {type(e).__name__}: {e}")
                        continue
                    if is_invalid(rr) != is_invalid(r) or (not is_invalid(rr) and (
                            not np.array_equal(rr.selector, r.selector)
                            or not np.array_equal(np.concatenate([rr.zero, rr.a, rr.b]), np.concatenate([r.zero, r.a, r.b]), equal_nan=True))):
                        msgs.append(f"fastmatch with {what} differs from the match with ordinary arrays")
            if not is_invalid(r):
                if len(r.indices) != int(r.selector.sum()):
                    msgs.append("len(indices) != number of selected peaks")
                if np.any(elev[r.selector] < p["min_weight"]):
                    msgs.append("a selected peak has elevation < min_weight")
                # rigid motion
                ang = p.get("rot", 0.7)
                R = np.array([[np.cos(ang), -np.sin(ang)], [np.sin(ang), np.cos(ang)]])
                t = np.array(p.get("shift", [13.0, -7.5]))
                r2 = call(p, pts=pts @ R.T + t, zero=R @ np.asarray(p["start_zero"]) + t,
                          a=R @ np.asarray(p["start_a"]), b=R @ np.asarray(p["start_b"]))
                e1 = float_errors(pts, np.asarray(p["start_zero"]), np.asarray(p["start_a"]), np.asarray(p["start_b"]))
                if np.all(np.abs(e1 - p["tol"]) > 1e-6):
                    if is_invalid(r2) or not np.array_equal(r2.selector, r.selector):
                        msgs.append("rotating/translating all inputs changes the selection")
                    elif np.abs(r2.zero - (R @ r.zero + t)).max() > 1e-6 * 100 or np.abs(r2.a - R @ r.a).max() > 1e-6 * 100:
                        msgs.append("rotating/translating all inputs does not rotate/translate the result")
        elif kind == "tight":
            try:
                r = call(p)
            except Exception as e:
                return [f"fastmatch raised {type(e).__name__}: {e}"]
            want = reference_selection(p)
            kinds = np.asarray(p["kind"])
            if want is not None and np.array_equal(want, kinds == 0):
                # the documented two-round procedure recovers exactly the inliers: so must the implementation
                if is_invalid(r) or not np.array_equal(r.selector, want):
                    got = None if is_invalid(r) else r.selector.astype(int).tolist()
                    msgs.append(f"inliers (all within 0.3 px, elevation >= min_weight) are not exactly the selection: "
                                f"missed {np.flatnonzero(want & ~(r.selector if got else np.zeros(len(want), bool))).tolist()} "
                                f"(tol {p['tol']:.2f}); the second matching round should have recovered them")
        elif kind == "exact":
            return exact_expect(p)
        elif kind == "few":
            try:
                r = call(p)
            except Exception as e:
                return [f"fastmatch raised {type(e).__name__}: {e}"]
            if not is_invalid(r):
                msgs.append(f"fewer than min_match={p['min_match']} peaks match but the result is not the invalid match: "
                            f"selector {r.selector.astype(int).tolist()}")
        elif kind == "adversarial":
            try:
                r = call(p)
            except Exception as e:
                return [f"fastmatch raised {type(e).__name__}: {e} on degenerate input ({p.get('what')})"]
            if not is_invalid(r):
                if len(r.indices) != int(np.sum(r.selector)):
                    msgs.append(f"{p.get('what')}: len(indices) != number of selected peaks")
                if len(r.selector) and np.any(np.asarray(p["elev"], dtype=float)[r.selector] < p["min_weight"]):
                    msgs.append(f"{p.get('what')}: selected peak below min_weight")
            if p.get("nan_elev_index") is not None:
                # a peak whose elevation is NaN (e.g. from a dead pixel in its correlation map) is not ">= min_weight": it is
                # rejected like any weak peak, and the other peaks are matched as if it were not there
                k_ = int(p["nan_elev_index"])
                keep = np.arange(len(p["pts"])) != k_
                q_ = dict(p, pts=np.asarray(p["pts"])[keep], elev=np.asarray(p["elev"], dtype=float)[keep])
                q_.pop("nan_elev_index")
                r0 = call(q_)
                if is_invalid(r) != is_invalid(r0):
                    msgs.append(f"one peak with NaN elevation on a lattice node: the match is "
                                f"{'invalid' if is_invalid(r) else 'valid'}, without that peak it is {'invalid' if is_invalid(r0) else 'valid'}")
                elif not is_invalid(r):
                    if r.selector[k_]:
                        msgs.append("a peak with NaN elevation is selected")
                    if not np.array_equal(np.asarray(r.selector)[keep], r0.selector):
                        msgs.append("one peak with NaN elevation changes the selection of the other peaks")
            if p.get("must_be_invalid") and not is_invalid(r):
                msgs.append(f"{p.get('what')}: expected the invalid match, got zero={np.asarray(r.zero).tolist()} "
                            f"selector={np.asarray(r.selector).astype(int).tolist()}")
    return msgs[:6]


def adversarial(rng):
    base = gen(rng, 1)
    out = []

    def mk(what, must=False, **kw):
        q = dict(base)
        q.update(kw)
        q["what"] = what
        q["must_be_invalid"] = must
        out.append(q)
    n = len(base["pts"])
    mk("parallel vectors", True, start_b=np.asarray(base["start_a"]) * 2.0)
    mk("zero vector a", True, start_a=np.zeros(2))
    mk("both vectors zero", True, start_a=np.zeros(2), start_b=np.zeros(2))
    mk("NaN zero", True, start_zero=np.array([np.nan, 1.0]))
    mk("NaN vector", True, start_a=np.array([np.nan, np.nan]))
    mk("inf zero", True, start_zero=np.array([np.inf, 0.0]))
    mk("all points NaN", True, pts=np.full((n, 2), np.nan))
    mk("one NaN point", False, pts=np.vstack([base["pts"][:-1], [[np.nan, np.nan]]]))
    mk("one inf point", False, pts=np.vstack([base["pts"][:-1], [[np.inf, 3.0]]]))
    mk("empty input", True, pts=np.zeros((0, 2)), elev=np.zeros(0))
    mk("all weights zero", True, elev=np.zeros(n))
    mk("all weights below min_weight", True, elev=np.full(n, 0.01))
    mk("NaN weights", True, elev=np.full(n, np.nan))
    inl = np.flatnonzero(np.asarray(base["kind"]) == 0)
    for j_ in inl[:2]:
        e_ = np.asarray(base["elev"], dtype=float).copy()
        e_[j_] = np.nan
        mk("one NaN elevation on a lattice node", False, elev=e_, nan_elev_index=int(j_))
    mk("all points identical", False, pts=np.tile(base["pts"][:1], (n, 1)))
    mk("duplicated points", False, pts=np.vstack([base["pts"], base["pts"]]), elev=np.concatenate([base["elev"]] * 2))
    i0 = np.arange(n, dtype=float)
    mk("collinear points", False, pts=np.asarray(base["zero"]) + i0[:, None] * np.asarray(base["a"])[None, :] / 1.0)
    mk("min_match larger than the number of points", True, min_match=10 * n + 5)
    # "accept every frame": min_match 0 and 1 with nothing (or a single peak) to match -- still the invalid match, never an error
    half = np.asarray(base["zero"]) + (np.array([[0.5, 0.5], [1.5, -0.5], [-1.5, 2.5], [0.5, -1.5]]) @ np.array([base["a"], base["b"]]))
    for mm_ in (0, 1):
        mk(f"empty input, min_match={mm_}", True, pts=np.zeros((0, 2)), elev=np.zeros(0), min_match=mm_)
        mk(f"all weights below min_weight, min_match={mm_}", True, elev=np.full(n, 0.01), min_match=mm_)
        mk(f"all peaks half a cell off, min_match={mm_}", True, pts=half, elev=np.ones(len(half)), kind=np.ones(len(half), dtype=int),
           min_match=mm_)
    mk("negative tolerance", True, tol=-1.0)
    mk("zero tolerance", True, tol=0.0)
    return out


def search(ctx, boost=1, focus=()):
    rng = np.random.default_rng(ctx.seed + 1005)
    n = (500 if ctx.tier == "thorough" else 120) * boost
    for k in range(n):
        p = gen(rng, k)
        p["rot"] = float(rng.uniform(0, 6.28))
        p["shift"] = rng.uniform(-40, 40, 2)
        ctx.oracle_case("structured", p, run_case("structured", p),
                        nontrivial=bool((np.asarray(p["kind"]) > 0).any()) and k % 4 != 0)
        if k % 5 == 0:
            q = gen(rng, k)
            keep = np.flatnonzero(np.asarray(q["kind"]) == 0)[:2]   # two lattice points + far-away clutter
            far = np.asarray(q["zero"]) + np.array([[0.5, 0.5], [1.5, -0.5], [-1.5, 2.5]]) @ np.array([q["a"], q["b"]])
            q["pts"] = np.vstack([np.asarray(q["pts"])[keep], far])
            q["elev"] = np.ones(len(q["pts"]))
            q["kind"] = np.array([0, 0, 1, 1, 1])
            q["min_match"] = 3
            ctx.oracle_case("few", q, run_case("few", q))
    for k in range(n // 2):
        q = gen(rng, k, tight=True)
        ctx.oracle_case("tight", q, run_case("tight", q), nontrivial=reference_selection(q) is not None)
    # rotation sweep: an oblique lattice with vectors of unequal length, outliers exactly half a cell away at high orders, the
    # default tolerance; the same configuration in many orientations (the structured oracle is applied in each of them)
    for k in range(2 * boost if ctx.tier == "quick" else 6 * boost):
        na, nb = float(rng.uniform(20, 24)), float(rng.uniform(36, 40))
        ang = np.deg2rad(float(rng.uniform(60, 75)))
        grid = [(i, j) for i in range(-3, 4) for j in range(-3, 4)]
        sel = rng.choice(len(grid), size=14, replace=False)
        idx = np.array([grid[s_] for s_ in sel], dtype=np.float64)
        out_idx = np.array([(int(rng.integers(-2, 3)), sgn * 8.5) for sgn in (1, -1, 1)] + [(sgn * 8.5, int(rng.integers(-1, 2))) for sgn in (1, -1)])
        for ang0 in np.deg2rad(np.arange(0, 180, 15) + float(rng.uniform(0, 15))):
            a = na * np.array([np.sin(ang0), np.cos(ang0)])
            b = nb * np.array([np.sin(ang0 + ang), np.cos(ang0 + ang)])
            zero = np.array([300.0, 300.0])
            noise = rng.uniform(-0.2, 0.2, (len(idx), 2))
            pts = np.vstack([zero + idx @ np.array([a, b]) + noise, zero + out_idx @ np.array([a, b])])
            q = {"pts": pts, "elev": rng.uniform(0.5, 3, len(pts)), "kind": np.array([0] * len(idx) + [1] * len(out_idx)),
                 "true_idx": np.vstack([idx, np.full((len(out_idx), 2), np.nan)]), "zero": zero, "a": a, "b": b,
                 "start_zero": zero + rng.uniform(-0.3, 0.3, 2), "start_a": a + rng.uniform(-0.05, 0.05, 2),
                 "start_b": b + rng.uniform(-0.05, 0.05, 2), "tol": 3.0, "min_weight": 0.3, "min_match": 3,
                 "rot": 0.35, "shift": [5.0, -3.0]}
            ctx.oracle_case("structured", q, run_case("structured", q), nontrivial=True)
        ctx.count("rotation_sweep")
    # instances of theorem fastmatch_exact_recovery (noise-free node peaks, half-cell outliers, weak node peaks, perturbed
    # start; the hypotheses are evaluated in exact arithmetic and only instances that satisfy them carry an expectation)
    for k in range(n // 2):
        q = gen_exact(rng, k)
        why = exact_hypotheses(q)
        ctx.count("exact_" + (why or "holds"))
        if why is None:
            ctx.oracle_case("exact", q, run_case("exact", q), nontrivial=bool((np.asarray(q["kind"]) > 0).any()))
    for q in adversarial(rng) * 1:
        ctx.oracle_case("adversarial", q, run_case("adversarial", q))
    ctx.count("oracle_structured", n)
