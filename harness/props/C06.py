"""C06 — lattice fits are the weighted least-squares optimum and affine-covariant."""
from fractions import Fraction

import numpy as np

from common import rat
from props.lat import rats, fr, lattice
from libertem_blobfinder.common import gridmatching as grm

PROP = "C06"
LEAN_MODULE = "BlobfinderModel.Properties.C06"
GEN_FILES = ["Lattice"]
FRAGMENTS = ["optimize", "calc_coords", "containers_text"]
DRIVER = "drvlattice"
RULE = ("correspondence: affinematch / weighted_optimize / optimize of the real code vs the exact rational Cramer "
        "solution of the normal equations computed by the model on the same float inputs (tolerance scaled with the "
        "conditioning), error and calculated_refineds vs the model's residuals; oracle: optimality against perturbed "
        "parameters, selection of all points, error formula, affine covariance, weight rescaling, second call on the "
        "same Match object. Non-trivial: non-zero residuals and non-uniform weights (distinct = case hashes).")
ASSUMPTIONS = ["A-LA: np.linalg.lstsq returns a solution of the normal equations (compared with the exact solution)",
               "float conditioning: comparisons use a tolerance scaled by the spread of weights / indices"]


def gen(rng, k):
    n = int(rng.integers(3, 61))
    while True:
        if k % 2:
            idx = rng.integers(-6, 7, (n, 2)).astype(np.float64)
        else:
            idx = np.round(rng.uniform(-6, 6, (n, 2)), 3)
        if np.linalg.matrix_rank(np.hstack([np.ones((n, 1)), idx])) == 3:
            break
    zero, a, b = lattice(rng, dyadic=False)
    if (k // 6) % 4 == 2:
        # fractional indices that lie CLOSE to whole numbers without being whole: virtual indices (reference positions in px
        # relative to zero=(0,0), a=(1,0), b=(0,1)) a few thousandths of a pixel off whole pixels, or lattice indices relative to
        # a reference basis that is scaled by a few ppm; no index row / column is exactly 0
        if k % 2:
            idx = rng.integers(300, 1800, (n, 2)).astype(np.float64) + rng.uniform(-0.004, 0.004, (n, 2))
            zero, a, b = rng.uniform(-3, 3, 2), np.array([1.0, 0.0]) + rng.uniform(-0.01, 0.01, 2), np.array([0.0, 1.0]) + rng.uniform(-0.01, 0.01, 2)
        else:
            base_ = rng.integers(1, 9, (n, 2)).astype(np.float64) * rng.choice([-1, 1], (n, 2))
            idx = base_ * (1 + float(rng.choice([3e-6, -5e-6, 8e-6])))
        if np.linalg.matrix_rank(np.hstack([np.ones((n, 1)), np.round(idx)])) < 3:
            idx[:3] = np.array([[1, 1], [2, 1], [1, 3]]) * (1 + 4e-6) + (300 if k % 2 else 0)
    resid = rng.normal(0, [0.0, 0.3, 2.0][k % 3], (n, 2))
    pts = zero + idx @ np.array([a, b]) + resid
    w = 10 ** rng.uniform(-4, 2, n) if k % 4 == 0 else rng.uniform(0.01, 100, n)
    if k % 5 == 0:
        w[:] = 1.0
    if k % 11 == 6:
        # weights of very small / very large absolute size (rescaling all weights changes nothing, whatever the scale)
        w = w * float(rng.choice([1e-9, 1e-12, 2.0 ** -60, 1e9, 2.0 ** 40]))
    if k % 7 == 3 and n >= 5:
        # some points of zero weight ("non-negative weights"): they do not count for the weighted fit, but the plain
        # optimiser still uses them; at least three affinely independent indices keep a positive weight
        for _ in range(20):
            z = rng.random(n) < 0.3
            keep = ~z
            if z.any() and keep.sum() >= 3 and np.linalg.matrix_rank(np.hstack([np.ones((keep.sum(), 1)), idx[keep]])) == 3:
                w[z] = 0.0
                break
    if k % 13 == 9:
        # weights spread over more than 1/eps: two strong peaks that do not fix the lattice by themselves, the remaining degrees
        # of freedom are decided by the relative weights of the very weak ones (compared with an exact rational solution)
        n = int(rng.integers(5, 9))
        while True:
            idx = rng.integers(-4, 5, (n, 2)).astype(np.float64)
            if np.linalg.matrix_rank(np.hstack([np.ones((n, 1)), idx])) == 3 and len({tuple(r) for r in idx.tolist()}) == n:
                break
        pts = zero + idx @ np.array([a, b]) + rng.normal(0, 0.5, (n, 2))
        w = np.concatenate([[100.0, 100.0], 10 ** rng.uniform(-20, -15, n - 2)])
        return {"idx": idx, "pts": pts, "w": w, "exact": True}
    return {"idx": idx, "pts": pts, "w": w, "int_pts": k % 9 == 4,
            "matcher": [None, {"min_match": 10 * n + 7}, {"tolerance": 1e-3}, None, {"min_weight": 1e6}, {"min_match": n + 1}][(k // 3) % 6]}


def exact_wls(idx, pts, w):
    """weighted least-squares lattice (zero, a, b) by Cramer's rule on the normal equations in rational arithmetic"""
    from fractions import Fraction as F
    rows = [[F(1), F(float(i)), F(float(j))] for i, j in idx]
    ww = [F(float(x)) for x in w]
    A = [[sum(wk * r[p] * r[q] for wk, r in zip(ww, rows)) for q in range(3)] for p in range(3)]

    def det3(m):
        return (m[0][0] * (m[1][1] * m[2][2] - m[1][2] * m[2][1]) - m[0][1] * (m[1][0] * m[2][2] - m[1][2] * m[2][0])
                + m[0][2] * (m[1][0] * m[2][1] - m[1][1] * m[2][0]))
    d = det3(A)
    out = np.zeros((3, 2))
    for col in range(2):
        rhs = [sum(wk * r[p] * F(float(y[col])) for wk, r, y in zip(ww, rows, pts)) for p in range(3)]
        for v in range(3):
            m = [[rhs[p] if q == v else A[p][q] for q in range(3)] for p in range(3)]
            out[v, col] = float(det3(m) / d)
    return out


def model_fit(drv, idx, pts, w):
    vals = np.column_stack([idx, w, pts])
    out = drv.ask("wls " + rats(vals))
    if out == "singular":
        return None
    v = [float(x) for x in fr(out)]
    return np.array(v[0:2]), np.array(v[2:4]), np.array(v[4:6]), v[6] + v[7]


def wss(zero, a, b, idx, pts, w):
    res = pts - (zero + idx @ np.array([a, b]))
    return float((w * (res ** 2).sum(axis=1)).sum())


def corr(ctx, drv):
    rng = np.random.default_rng(ctx.seed + 6)
    n = 200 if ctx.tier == "thorough" else 50
    for k in range(n):
        p = gen(rng, k)
        idx, pts, w = p["idx"], p["pts"], p["w"]
        msgs = []
        mf = model_fit(drv, idx, pts, w)
        mu = model_fit(drv, idx, pts, np.ones(len(w)))
        try:
            m = grm.Matcher().affinematch(centers=pts, indices=idx, refineds=pts, peak_elevations=w,
                                          peak_values=np.ones(len(w)))
            scale = max(1.0, np.abs(pts).max())
            tol = 1e-7 * scale * max(1.0, (w.max() / w[w > 0].min()) ** 0.5)
            if mf is None:
                msgs.append("model: singular normal equations for a rank-3 design")
            else:
                for nm, got, want in (("zero", m.zero, mf[0]), ("a", m.a, mf[1]), ("b", m.b, mf[2])):
                    if np.abs(got - want).max() > tol:
                        msgs.append(f"affinematch {nm}: impl {got.tolist()} exact optimum {want.tolist()}")
                if not m.selector.all() or len(m.indices) != len(idx):
                    msgs.append("affinematch does not select all points")
                diff = np.linalg.norm(pts - (mf[0] + idx @ np.array([mf[1], mf[2]])), axis=1)
                err = (diff * w).mean() / w.mean()
                if abs(m.error - err) > 1e-6 * max(1.0, err):
                    msgs.append(f"error: impl {m.error} model {err}")
                u = m.optimize()
                for nm, got, want in (("zero", u.zero, mu[0]), ("a", u.a, mu[1]), ("b", u.b, mu[2])):
                    if np.abs(got - want).max() > 1e-7 * scale:
                        msgs.append(f"optimize {nm}: impl {got.tolist()} exact unweighted optimum {want.tolist()}")
                w2 = m.weighted_optimize()   # second optimisation on the same object
                if np.abs(w2.zero - mf[0]).max() > tol or np.abs(w2.a - mf[1]).max() > tol:
                    msgs.append("weighted_optimize() after optimize() on the same Match differs from the optimum")
        except Exception as e:
            msgs.append(f"implementation raised {type(e).__name__}: {e}")
        ctx.corr_case("wls", p, msgs[:4], nontrivial=(k % 3 != 0 and k % 5 != 0))
        ctx.count("wls_" + ("int" if k % 2 else "frac"))


def run_case(kind, p):
    idx, pts, w = (np.asarray(p[k], dtype=np.float64) for k in ("idx", "pts", "w"))
    rng = np.random.default_rng(p.get("seed", 0))
    msgs = []
    # the affine match fits ALL given points whatever the matcher was configured for (its tolerance, minimum weight and minimum
    # number of matches belong to the fast match)
    cfg = p.get("matcher") or {}
    M = grm.Matcher(**cfg)
    if kind == "degenerate":
        # positions that all lie on one straight line, or all coincide (indices of rank 3, positive weights): the least-squares
        # problem is as well posed as ever -- its optimum just happens to have parallel (or zero) lattice vectors, and that
        # optimum is what the fit returns, with all points selected
        ex = exact_wls(idx, pts, w)
        exu = exact_wls(idx, pts, np.ones(len(w)))
        tol = 1e-7 * max(1.0, np.abs(pts).max())
        try:
            m = M.affinematch(centers=pts, indices=idx, refineds=pts, peak_elevations=w, peak_values=np.ones(len(w)))
            if np.isnan(np.concatenate([m.zero, m.a, m.b])).any():
                msgs.append(f"{p['what']}: affinematch returned the invalid match for indices of rank 3 and positive weights")
            else:
                if not m.selector.all():
                    msgs.append(f"{p['what']}: affinematch does not select all points")
                if np.abs(np.array([m.zero, m.a, m.b]) - ex).max() > tol:
                    msgs.append(f"{p['what']}: fit {np.array([m.zero, m.a, m.b]).tolist()} is not the weighted least-squares optimum {ex.tolist()}")
                diff = np.linalg.norm(pts - (m.zero + idx @ np.array([m.a, m.b])), axis=1)
                if abs(m.error - (diff * w).sum() / w.sum()) > 1e-9 * max(1.0, m.error):
                    msgs.append(f"{p['what']}: error is not the elevation-weighted mean residual")
            g = grm.Match(grm.CorrelationResult(pts, pts, np.ones(len(w)), w), selector=None, zero=None, a=None, b=None, indices=idx)
            for nm, o, want in (("weighted_optimize", g.weighted_optimize(), ex), ("optimize", g.optimize(), exu)):
                if np.abs(np.array([o.zero, o.a, o.b]) - want).max() > tol:
                    msgs.append(f"{p['what']}: {nm}() = {np.array([o.zero, o.a, o.b]).tolist()} is not the optimum {want.tolist()}")
        except Exception as e:      # noqa: BLE001
            msgs.append(f"{p['what']}: raised {type(e).__name__}: {e}")
        return msgs
    if p.get("int_pts"):
        # positions kept as integer pixel positions (integer dtype) by the caller; the indices may be fractional
        pts = np.round(pts)
        ipts = pts.astype(np.int64)
        m = M.affinematch(centers=ipts, indices=idx, refineds=ipts.copy(), peak_elevations=w, peak_values=np.ones(len(w)))
    elif p.get("round_centers"):
        # what a correlation hands over: integer pixel centres next to the refined (sub-pixel) positions -- the positions that
        # are fitted are the refined ones
        m = M.affinematch(centers=np.round(pts).astype(np.int32), indices=idx, refineds=pts, peak_elevations=w,
                          peak_values=np.ones(len(w)))
    else:
        m = M.affinematch(centers=pts, indices=idx, refineds=pts, peak_elevations=w, peak_values=np.ones(len(w)))
    if not m.selector.all():
        msgs.append("affinematch does not select all points")
    if np.isnan(m.zero).any():
        return ["affinematch returned an invalid match for a rank-3 problem"]
    if p.get("exact"):
        ex = exact_wls(idx, pts, w)
        got = np.array([m.zero, m.a, m.b])
        if np.abs(got - ex).max() > 0.01:
            msgs.append(f"weights spread over {w.max() / w.min():.1e}: fit {got.tolist()} differs from the exact weighted "
                        f"least-squares optimum {ex.tolist()} by {np.abs(got - ex).max():.3g}")
        return msgs
    best = wss(m.zero, m.a, m.b, idx, pts, w)
    scale = max(1.0, np.abs(pts).max())
    for _ in range(40):
        d = rng.normal(0, 10 ** rng.uniform(-4, 0), (3, 2)) * scale * 1e-2
        if wss(m.zero + d[0], m.a + d[1], m.b + d[2], idx, pts, w) < best - 1e-9 * max(1.0, best):
            msgs.append(f"weighted fit is not optimal: perturbation lowers the weighted squared error "
                        f"({best} -> {wss(m.zero + d[0], m.a + d[1], m.b + d[2], idx, pts, w)})")
            break
    ones = np.ones(len(w))
    u = m.optimize()
    bu = wss(u.zero, u.a, u.b, idx, pts, ones)
    for _ in range(40):
        d = rng.normal(0, 10 ** rng.uniform(-4, 0), (3, 2)) * scale * 1e-2
        if wss(u.zero + d[0], u.a + d[1], u.b + d[2], idx, pts, ones) < bu - 1e-9 * max(1.0, bu):
            msgs.append("optimize() is not the unweighted least-squares optimum")
            break
    diff = np.linalg.norm(pts - m.calculated_refineds, axis=1)
    err = (diff * w).sum() / w.sum()
    if abs(m.error - err) > 1e-9 * max(1.0, err):
        msgs.append(f"error {m.error} is not the elevation-weighted mean residual {err}")
    if np.abs(m.calculated_refineds - (m.zero + idx @ np.array([m.a, m.b]))).max() > 1e-9 * scale:
        msgs.append("calculated_refineds != zero + i*a + j*b")
    # affine covariance
    L = np.array(p["L"]) if "L" in p else np.eye(2)
    t = np.array(p.get("t", [0.0, 0.0]))
    m2 = M.affinematch(centers=pts, indices=idx, refineds=pts @ L.T + t, peak_elevations=w, peak_values=ones)
    tol = 1e-6 * scale * max(1.0, np.abs(L).max()) * max(1.0, (w.max() / w[w > 0].min()) ** 0.5)
    if np.abs(m2.zero - (L @ m.zero + t)).max() > tol or np.abs(m2.a - L @ m.a).max() > tol \
            or np.abs(m2.b - L @ m.b).max() > tol:
        msgs.append("fit of affinely mapped positions is not the mapped fit")
    m3 = M.affinematch(centers=pts, indices=idx, refineds=pts, peak_elevations=w * p.get("wscale", 7.5), peak_values=ones)
    if np.abs(m3.zero - m.zero).max() > tol or np.abs(m3.a - m.a).max() > tol:
        msgs.append("rescaling all weights changed the fit")
    # read-only inputs (the caller's arrays are input, not scratch space): same fit, same plain optimum
    def ro(x):
        x = np.array(x)
        x.setflags(write=False)
        return x
    try:
        m5 = M.affinematch(centers=ro(pts), indices=ro(idx), refineds=ro(pts), peak_elevations=ro(w), peak_values=ro(ones))
        u5 = m5.optimize()
        if not p.get("int_pts") and not p.get("round_centers") and (
                not np.array_equal(np.concatenate([m5.zero, m5.a, m5.b]), np.concatenate([m.zero, m.a, m.b]))
                or not np.array_equal(np.concatenate([u5.zero, u5.a, u5.b]), np.concatenate([u.zero, u.a, u.b]))):
            msgs.append("read-only input arrays give another fit than writable ones")
    except Exception as e:      # noqa: BLE001
        msgs.append(f"read-only input arrays: raised {type(e).__name__}: {e}")
    # repeated optimisation on one object must not change anything
    again = m.weighted_optimize().weighted_optimize()
    if np.abs(again.zero - m.zero).max() > tol or np.abs(again.b - m.b).max() > tol:
        msgs.append("repeated weighted_optimize() on the same Match drifts")
    m4 = grm.Match(m.correlation_result, selector=None, zero=None, a=None, b=None, indices=idx)
    r1 = m4.weighted_optimize()
    r2 = m4.optimize()
    r3 = m4.weighted_optimize()
    if np.abs(r2.zero - u.zero).max() > tol or np.abs(r3.zero - r1.zero).max() > tol:
        msgs.append("optimize()/weighted_optimize() on a Match that was optimised before give different results")
    # attributes read on a rough guess BEFORE it is optimised / derived from must not stick to the derived matches
    g = grm.Match(m.correlation_result, selector=None, zero=m.zero + np.array([1.5, -2.0]), a=m.a * 1.03, b=m.b * 0.98,
                  indices=idx)
    _ = g.error, g.calculated_refineds, len(g)
    for nm, o, ww in (("weighted_optimize", g.weighted_optimize(), w), ("optimize", g.optimize(), ones),
                      ("derive", g.derive(zero=m.zero, a=m.a, b=m.b), w)):
        calc = o.zero + idx @ np.array([o.a, o.b])
        if np.abs(np.asarray(o.calculated_refineds) - calc).max() > 1e-9 * scale:
            msgs.append(f"after reading error/calculated_refineds on a guess, guess.{nm}() reports calculated_refineds that "
                        f"are not zero + i*a + j*b of its own lattice (max deviation "
                        f"{np.abs(np.asarray(o.calculated_refineds) - calc).max():.4g})")
            break
        e_ref = (np.linalg.norm(pts - calc, axis=1) * w).sum() / w.sum()
        if abs(o.error - e_ref) > 1e-9 * max(1.0, e_ref):
            msgs.append(f"after reading error on a guess, guess.{nm}().error = {o.error} is not the elevation-weighted mean "
                        f"residual {e_ref} of the lattice it reports")
            break
        ref_fit = m if nm != "optimize" else u
        if np.abs(o.zero - ref_fit.zero).max() > tol or np.abs(o.a - ref_fit.a).max() > tol:
            msgs.append(f"guess.{nm}() differs from the fit obtained directly")
            break
    if abs(g.error - (np.linalg.norm(pts - (g.zero + idx @ np.array([g.a, g.b])), axis=1) * w).sum() / w.sum()) > 1e-9 * scale:
        msgs.append("error of the guess changed after deriving from it")
    # "the optimisation methods of a match": a match that selects only PART of its correlation result (as a fast match that
    # rejected some peaks does) is fitted to, and reports the error of, its own selected peaks
    n_ = len(pts)
    if n_ >= 5:
        rs = np.random.default_rng(int(np.abs(pts).sum() * 1000) % (2 ** 31))
        mask = None
        for _ in range(6):
            cand = rs.random(n_) < 0.6
            pos = cand & (w > 0)
            if 3 <= cand.sum() < n_ and pos.sum() >= 3 and np.linalg.matrix_rank(np.hstack([np.ones((pos.sum(), 1)), idx[pos]])) == 3:
                mask = cand
                break
        if mask is not None:
            sub = grm.Match(m.correlation_result, selector=mask, zero=m.zero, a=m.a, b=m.b, indices=idx[mask])
            for nm, o, ww in (("weighted_optimize", sub.weighted_optimize(), w[mask]),
                              ("optimize", sub.optimize(), np.ones(int(mask.sum())))):
                calc = o.zero + idx[mask] @ np.array([o.a, o.b])
                e_ref = (np.linalg.norm(pts[mask] - calc, axis=1) * w[mask]).sum() / w[mask].sum()
                if abs(o.error - e_ref) > 1e-9 * max(1.0, e_ref):
                    msgs.append(f"match over {int(mask.sum())} of {n_} peaks, {nm}(): error = {o.error} is not the "
                                f"elevation-weighted mean residual {e_ref} of its own peaks")
                    break
                best = wss(o.zero, o.a, o.b, idx[mask], pts[mask], ww)
                A = np.hstack([np.ones((int(mask.sum()), 1)), idx[mask]]) * np.sqrt(ww)[:, None]
                x = np.linalg.lstsq(A, pts[mask] * np.sqrt(ww)[:, None], rcond=None)[0]
                if wss(x[0], x[1], x[2], idx[mask], pts[mask], ww) < best - 1e-9 * max(1.0, best):
                    msgs.append(f"match over {int(mask.sum())} of {n_} peaks, {nm}(): not the least-squares fit of its own peaks")
                    break
                if not np.array_equal(np.asarray(o.selector), mask):
                    msgs.append(f"match over a subset, {nm}(): the selection changed")
                    break
    return msgs[:6]


def search(ctx, boost=1, focus=()):
    rng = np.random.default_rng(ctx.seed + 1006)
    n = (400 if ctx.tier == "thorough" else 100) * boost
    for k in range(n):
        p = gen(rng, k)
        while True:
            L = rng.normal(0, 1, (2, 2))
            if np.linalg.cond(L) <= 100:
                break
        p.update({"L": L, "t": rng.uniform(-50, 50, 2), "wscale": float(10 ** rng.uniform(-3, 3)) if k % 4 else float(rng.choice([1e-9, 1e-12, 2.0 ** -60, 1e10, 2.0 ** 50])),
                  "seed": int(rng.integers(1 << 30)), "round_centers": k % 3 == 2})
        ctx.oracle_case("fit", p, run_case("fit", p), nontrivial=(k % 3 != 0 and k % 5 != 0))
    ctx.count("oracle_fit", n)
    for k in range((40 if ctx.tier == "thorough" else 12) * boost):
        p = gen(rng, 2 * k + 1 if k % 2 else 2 * k)
        n_ = len(p["idx"])
        p["w"] = rng.uniform(0.05, 20, n_)
        p0 = rng.uniform(-50, 50, 2)
        if k % 3 == 2:
            p["pts"], p["what"] = np.tile(p0, (n_, 1)), "all positions identical"
        else:
            ang = rng.uniform(0, np.pi)
            d = np.array([np.sin(ang), np.cos(ang)]) if k % 3 == 0 else np.array([[1.0, 0.0], [0.0, 1.0], [1.0, 1.0]][(k // 3) % 3])
            # lattice + residuals, projected onto a line: every position on the line through p0 along d
            along = (np.asarray(p["pts"]) - p0) @ d
            p["pts"], p["what"] = p0 + np.outer(along, d), "all positions on one straight line"
        p["seed"] = int(rng.integers(1 << 30))
        ctx.oracle_case("degenerate", p, run_case("degenerate", p), nontrivial=True)
        ctx.count("oracle_degenerate_positions")
