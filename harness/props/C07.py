"""C07 — peak finding returns the true disk positions for every frame shape."""
from fractions import Fraction

import numpy as np

import impl
from common import rat
from libertem_blobfinder.base import masks
from libertem_blobfinder.common import correlation as cc

PROP = "C07"
LEAN_MODULE = "BlobfinderModel.Properties.C07"
GEN_FILES = ["Eval"]
FRAGMENTS = ["getcorr_fft"]
DRIVER = "drvcorr"
RULE = ("correspondence: get_correlation on small frames of every parity combination (5..9 x 5..9) vs the model's exact "
        "direct circular sum with the generated shift kind (2^-30 relative), shape of the map; oracle: frames of shapes "
        "40..130 (both parities per axis) with 1..12 well separated pixel-centred disks of distinct brightness, built-in "
        "patterns, get_peaks(k) for k = 1..#disks must return the k brightest centres in order. Non-trivial: an odd axis "
        "length (distinct = case hashes).")
ASSUMPTIONS = ["A-EXT: skimage.feature.peak_local_max; that each disk centre is a strict local maximum for non-matching "
               "templates is not proved (oracle only)"]


def corr(ctx, drv):
    rng = np.random.default_rng(ctx.seed + 7)
    shapes = [(a, b) for a in range(5, 10) for b in range(5, 10)]
    if ctx.tier != "thorough":
        shapes = [s for i, s in enumerate(shapes) if i % 2 == 0]
    for fy, fx in shapes:
        pat = impl.make_pattern(("circular", "radial_gradient", "background_subtraction")[(fy + fx) % 3], 1.5, search=2,
                                radius_outer=2.0)
        frame = rng.integers(0, 50, (fy, fx)).astype(np.float64)
        msgs = []
        try:
            got = cc.get_correlation(frame, pat)
            if got.shape != (fy, fx):
                msgs.append(f"map shape {got.shape} != frame shape {(fy, fx)}")
            else:
                mask = np.asarray(pat.get_mask((fy, fx)), dtype=np.float64)
                mo = np.array([float(Fraction(v)) for v in drv.ask(
                    f"conv getcorr {fy} {fx} " + " ".join(rat(float(v)) for v in mask.ravel()) + " " +
                    " ".join(rat(float(v)) for v in frame.ravel())).split()]).reshape(fy, fx)
                if np.abs(mo - got).max() > 2 ** -30 * max(1.0, np.abs(mo).max()):
                    i = np.unravel_index(np.argmax(np.abs(mo - got)), mo.shape)
                    msgs.append(f"shape {(fy, fx)}: get_correlation differs from the direct circular sum at {i}: "
                                f"impl {got[i]!r} model {mo[i]!r}")
        except Exception as e:
            msgs.append(f"get_correlation raised {type(e).__name__}: {e}")
        ctx.corr_case("get_correlation", {"shape": [fy, fx], "frame": frame}, msgs,
                      nontrivial=(fy % 2 == 1 or fx % 2 == 1), hkey=("gc", fy, fx))
    ctx.exhaustive_range = {"frame_shapes": "5..9 x 5..9"}


def place_disks(rng, shape, n, sep, margin):
    pts = []
    for _ in range(4000):
        p = np.array([rng.integers(margin, shape[0] - margin), rng.integers(margin, shape[1] - margin)])
        if all(np.linalg.norm(p - q) >= sep for q in pts):
            pts.append(p)
            if len(pts) == n:
                break
    return np.array(pts)


def run_case(kind, q):
    rng = np.random.default_rng(q["seed"])
    pattern = impl.pattern_from(q["pattern"])
    shape = tuple(q["shape"])
    radius = q["pattern"]["radius"]
    pts = np.asarray(q["centres"])
    amps = np.asarray(q["amps"], dtype=np.float64)
    frame = np.full(shape, q["bg"], dtype=np.float64)
    for p, a in zip(pts, amps):
        frame += a * masks.circular(centerX=p[1], centerY=p[0], imageSizeX=shape[1], imageSizeY=shape[0],
                                    radius=radius, antialiased=True)
    if q.get("dtype"):
        # the same frame as detector counts in an integer (or single precision) dtype
        frame = (frame if q["dtype"] == "float32" else np.round(frame)).astype(q["dtype"])
    frame = _layout(frame, q.get("layout"))
    msgs = []
    # the pattern object may have served frames of other shapes before
    for s_ in q.get("prior_shapes", []):
        cc.get_correlation(np.zeros(tuple(s_)), pattern)
    try:
        cm = cc.get_correlation(frame, pattern)
    except Exception as e:
        return [f"get_correlation raised {type(e).__name__}: {e}"]
    if cm.shape != shape:
        return [f"correlation map has shape {cm.shape}, frame has {shape}"]
    order = np.argsort(-amps)
    for k in q["ks"]:
        try:
            got = cc.get_peaks(frame, pattern, k)
        except Exception as e:
            msgs.append(f"get_peaks(k={k}) raised {type(e).__name__}: {e}")
            continue
        want = pts[order[:k]]
        if got.shape != want.shape or not np.array_equal(got, want):
            msgs.append(f"shape {shape} {q['pattern']['kind']} r={radius}: get_peaks(k={k}) = {np.asarray(got).tolist()} "
                        f"expected the {k} brightest centres {want.tolist()}")
    return msgs[:4]


def reference_map(q):
    """the documented correlation (mask centred on the evaluated pixel, circular frame) by a direct float64 sum over the mask's
    non-zero pixels: independent of the FFT route, the shift and the real-transform length handling"""
    pattern = impl.pattern_from(q["pattern"])
    shape = tuple(q["shape"])
    frame = np.full(shape, q["bg"], dtype=np.float64)
    for p, a in zip(np.asarray(q["centres"]), np.asarray(q["amps"], dtype=np.float64)):
        frame += a * masks.circular(centerX=p[1], centerY=p[0], imageSizeX=shape[1], imageSizeY=shape[0],
                                    radius=q["pattern"]["radius"], antialiased=True)
    if q.get("dtype"):
        frame = (frame if q["dtype"] == "float32" else np.round(frame)).astype(q["dtype"]).astype(np.float64)
    m = np.asarray(pattern.get_mask(sig_shape=shape), dtype=np.float64)
    cy, cx = shape[0] // 2, shape[1] // 2
    ref = np.zeros(shape, dtype=np.float64)
    for my, mx in zip(*np.nonzero(m)):
        ref += m[my, mx] * np.roll(frame, (cy - my, cx - mx), axis=(0, 1))
    return ref


def classify(kind, q, msgs):
    """known finding D18: the correlation of a disk with a template that has a negative rim (RadialGradient's antialiased edge,
    the background-subtracting templates) has positive side lobes about two radii from the disk centre; disks fainter than the
    side lobes of a much brighter disk are outranked by them.  Keyed to the cause: in an independently computed float64
    correlation map every returned position is a strict local maximum, the returned positions are in order of decreasing
    reference height, every returned position that is not an expected centre lies within 2*outer radius + 2 px of a brighter
    disk, and every expected centre that is missing is lower in the reference map than everything returned -- i.e. peak finding
    did return the highest local maxima of the documented correlation, which are not the faint disks."""
    if kind != "peaks" or not msgs or not all("get_peaks(k=" in m and "expected the" in m for m in msgs):
        return None
    shape = tuple(q["shape"])
    pts = np.asarray(q["centres"])
    amps = np.asarray(q["amps"], dtype=np.float64)
    order = np.argsort(-amps)
    pattern = impl.pattern_from(q["pattern"])
    ref = reference_map(q)
    frame = _frame(q)
    outer = q["pattern"].get("radius_outer", q["pattern"]["radius"])
    tol = 1e-9 * np.abs(ref).max()
    # the same call history as run_case: the pattern object may have served frames of other shapes before
    for s_ in q.get("prior_shapes", []):
        cc.get_correlation(np.zeros(tuple(s_)), pattern)
    cc.get_correlation(frame, pattern)
    explained = 0
    for k in q["ks"]:
        got = np.asarray(cc.get_peaks(frame, pattern, k))
        want = pts[order[:k]]
        if got.shape == want.shape and np.array_equal(got, want):
            continue
        explained += 1
        if got.shape != want.shape:
            return None
        hs = []
        for (y, x) in got:
            if not (1 <= y < shape[0] - 1 and 1 <= x < shape[1] - 1):
                return None
            nb = ref[y - 1:y + 2, x - 1:x + 2].copy()
            nb[1, 1] = -np.inf
            if not ref[y, x] > nb.max() + tol:
                return None                      # not a local maximum of the documented correlation
            hs.append(ref[y, x])
        if np.any(np.diff(hs) > tol):
            return None                          # not in order of decreasing height
        wantset = {tuple(w) for w in want.tolist()}
        gotset = {tuple(g) for g in got.tolist()}
        for s_ in gotset - wantset:
            if tuple(s_) in {tuple(c) for c in pts.tolist()}:
                return None                      # a disk centre out of rank is not a side lobe
            d = np.linalg.norm(pts - np.array(s_), axis=1)
            near = np.flatnonzero(d <= 2 * outer + 2)
            missing_amp = max(amps[i] for i, c in enumerate(pts.tolist()) if tuple(c) in wantset - gotset)
            if len(near) == 0 or amps[near].max() < 100 * missing_amp:
                return None
        for c in wantset - gotset:
            if not ref[c] < min(hs) - tol:
                return None                      # the missing disk is higher than something returned: a genuine miss
    # every failure reported by run_case must have been reproduced and explained here
    return "D18" if explained == len(msgs) and explained > 0 else None


def _frame(q):
    shape = tuple(q["shape"])
    frame = np.full(shape, q["bg"], dtype=np.float64)
    for p, a in zip(np.asarray(q["centres"]), np.asarray(q["amps"], dtype=np.float64)):
        frame += a * masks.circular(centerX=p[1], centerY=p[0], imageSizeX=shape[1], imageSizeY=shape[0],
                                    radius=q["pattern"]["radius"], antialiased=True)
    if q.get("dtype"):
        frame = (frame if q["dtype"] == "float32" else np.round(frame)).astype(q["dtype"])
    return _layout(frame, q.get("layout"))


def _layout(frame, layout):
    """the same frame (same shape, same values) in another memory layout: column-major, a transposed view of the transposed
    data, every second column of a wider array, a read-only array"""
    if layout == "F":
        return np.asfortranarray(frame)
    if layout == "T":
        return np.ascontiguousarray(frame.T).T
    if layout == "strided":
        wide = np.zeros((frame.shape[0], 2 * frame.shape[1]), dtype=frame.dtype)
        wide[:, ::2] = frame
        return wide[:, ::2]
    if layout == "readonly":
        frame = frame.copy()
        frame.setflags(write=False)
    return frame


def search(ctx, boost=1, focus=()):
    rng = np.random.default_rng(ctx.seed + 1007)
    n = (200 if ctx.tier == "thorough" else 40) * boost
    # known finding D18, pinned: RadialGradient(3.11), a disk 2500 times brighter than its neighbour (side lobes of 0.24 %)
    q = {"seed": 1, "pattern": {"kind": "radial_gradient", "radius": 3.11, "search": 8.22}, "shape": [57, 62],
         "centres": [[11, 26], [38, 32]], "amps": [2500.0, 1.0], "bg": 3.0, "ks": [1, 2]}
    msgs_ = run_case("peaks", q)
    ctx.oracle_case("peaks", q, msgs_, key=classify("peaks", q, msgs_) if msgs_ else None, nontrivial=True)
    for k in range(n):
        pat = impl.pattern_params(rng, kinds=("circular", "radial_gradient", "background_subtraction", "rgbs"),
                                  rmin=3.0, rmax=7.0)
        outer = pat.get("radius_outer", pat["radius"])
        shape = [int(rng.integers(40, 131)), int(rng.integers(40, 131))]
        if k % 4 == 0:
            shape = [2 * (shape[0] // 2) + 1, 2 * (shape[1] // 2) + 1]
        if k % 4 == 1:
            shape = [2 * (shape[0] // 2) + 1, 2 * (shape[1] // 2)]
        sep = outer + pat["radius"] + 4
        shape = [max(shape[0], 2 * int(np.ceil(sep)) + 3 + k % 2), max(shape[1], 2 * int(np.ceil(sep)) + 4)]
        pts = place_disks(rng, shape, int(rng.integers(1, 13)), sep, int(np.ceil(sep)))
        if (k // 4) % 3 == 2:
            # a large disk in a small frame (radius above a quarter of the frame side: the search box of the pattern is
            # larger than the frame on one or both axes); the disk lies completely inside the frame
            r = float(np.round(rng.uniform(9, 14), 1)) if k % 2 else float(rng.integers(10, 15))
            pat = dict(pat, radius=r, search=float(np.round(r * rng.uniform(1.8, 2.6), 2)))
            if "radius_outer" in pat:
                pat["radius_outer"] = float(np.round(r * rng.uniform(1.2, 1.6), 2))
                pat["search"] = max(pat["search"], pat["radius_outer"] + 1)
            ext = int(np.ceil(pat.get("radius_outer", r))) + 2
            shape = [int(rng.integers(2 * ext + 3, max(2 * ext + 4, int(4 * r)) + 1)), int(rng.integers(2 * ext + 3, 131))]
            if k % 4 < 2:
                shape = shape[::-1]
            pts = np.array([[int(rng.integers(ext, shape[0] - ext)), int(rng.integers(ext, shape[1] - ext))]])
            if pat["kind"] == "rgbs" and k % 2:
                # the pattern's own template array (2*ceil(outer radius) + 2 pixels, even) is one pixel LARGER than an odd frame
                # axis: it is cropped, not padded; its support (outer radius + antialiasing) still fits with the disk in the middle
                ro = float(np.ceil(pat["radius_outer"])) - float(rng.choice([0.0, 0.05, 0.3]))
                pat = dict(pat, radius_outer=ro, search=max(pat["search"], ro + 1))
                ax = int(rng.integers(2))
                shape[ax] = 2 * int(np.ceil(ro)) + 1
                shape[1 - ax] = max(shape[1 - ax], 2 * int(np.ceil(ro)) + 4)
                pts = np.array([[shape[0] // 2, shape[1] // 2]])
                pts[0, 1 - ax] = int(rng.integers(int(np.ceil(ro)) + 2, shape[1 - ax] - int(np.ceil(ro)) - 2 + 1))
                ctx.count("template_larger_than_axis")
            ctx.count("large_disk")
        if len(pts) == 0:
            continue
        amps = np.sort(rng.uniform(1, 2, len(pts)))[::-1] * np.cumprod(np.full(len(pts), 1 / 1.15))
        amps = rng.permutation(amps) * float(rng.uniform(1, 100))
        if (k // 4) % 3 == 1 and len(pts) >= 2:
            # a large brightness range (a strong central beam among weak reflections): distinct brightnesses over 3 to 4 decades
            amps = rng.permutation(np.sort(10 ** rng.uniform(0, 3.7, len(pts)))[::-1] * np.cumprod(np.full(len(pts), 1 / 1.3)))
            ctx.count("large_brightness_range")
        ks = sorted({1, len(pts), int(rng.integers(1, len(pts) + 1))})
        q = {"seed": int(rng.integers(1 << 30)), "pattern": pat, "shape": shape, "centres": pts.tolist(),
             "amps": amps.tolist(), "bg": float(rng.uniform(0, 5)), "ks": ks}
        if (k // 3) % 3 == 1:
            dt = ("uint16", "uint8", "int32", "float32", "int16")[(k // 9) % 5]
            a_sorted = np.sort(np.round(np.asarray(q["amps"])))
            if dt == "float32":
                q["dtype"] = dt
                ctx.count("dtype_" + dt)
            elif np.all(np.diff(a_sorted) >= 2) and a_sorted[0] >= 3 and a_sorted[-1] + 6 <= np.iinfo(dt).max:
                q["dtype"] = dt       # brightnesses stay distinct after rounding to counts and fit the dtype
                q["bg"] = float(np.round(q["bg"]))
                q["amps"] = np.round(np.asarray(q["amps"])).tolist()
                ctx.count("dtype_" + dt)
        if k % 3 == 1:    # earlier frame whose rfft2 spectrum has the same shape (width 2n <-> 2n+1)
            q["prior_shapes"] = [[shape[0], shape[1] + 1 if shape[1] % 2 == 0 else shape[1] - 1]]
        elif k % 3 == 2:  # earlier, larger frame
            q["prior_shapes"] = [[shape[0] + 2 * int(rng.integers(1, 5)) + int(rng.integers(0, 2)),
                                  shape[1] + 2 * int(rng.integers(1, 5)) + int(rng.integers(0, 2))]]
        if k % 5 in (1, 3):
            q["layout"] = ("F", "T", "strided", "readonly")[(k // 5) % 4]
            ctx.count("layout_" + q["layout"])
        if k % 7 == 4 and "dtype" not in q:
            # the same scene in other units (a detector current in A, summed counts): the ranking does not depend on the unit
            sc_ = float([1e-12, 1e-10, 1e8, 1e-14][(k // 7) % 4])
            q["amps"] = (np.asarray(q["amps"]) * sc_).tolist()
            q["bg"] = q["bg"] * sc_
            ctx.count("intensity_scale_%g" % sc_)
        msgs_ = run_case("peaks", q)
        ctx.oracle_case("peaks", q, msgs_, key=classify("peaks", q, msgs_) if msgs_ else None,
                        nontrivial=(shape[0] % 2 == 1 or shape[1] % 2 == 1))
    # the largest frame shapes of the stated range (127..130 px: correlation maps of more than 2**14 pixels), a disk on one of the
    # two middle rows / columns of the frame (the zero-order disk of a centred pattern) among others
    for k in range(4 * boost):
        shape = [int(rng.integers(127, 131)), int(rng.integers(127, 131))]
        pat = impl.pattern_params(rng, kinds=("circular", "radial_gradient", "background_subtraction"), rmin=3.0, rmax=6.0)
        outer = pat.get("radius_outer", pat["radius"])
        sep = outer + pat["radius"] + 4
        mid = [shape[0] - shape[0] // 2 - (k % 2), shape[1] - shape[1] // 2 - ((k // 2) % 2)]
        pts = [mid]
        for q_ in place_disks(rng, shape, int(rng.integers(2, 7)), sep, int(np.ceil(sep))).tolist():
            if all(np.hypot(q_[0] - p_[0], q_[1] - p_[1]) >= sep for p_ in pts):
                pts.append(q_)
        amps = (np.sort(rng.uniform(1, 2, len(pts)))[::-1] * np.cumprod(np.full(len(pts), 1 / 1.15))) * float(rng.uniform(1, 50))
        amps = np.roll(amps, int(rng.integers(0, len(pts))))          # the middle disk has any rank
        q = {"seed": int(rng.integers(1 << 30)), "pattern": pat, "shape": shape, "centres": pts, "amps": amps.tolist(),
             "bg": float(rng.uniform(0, 5)), "ks": sorted({1, len(pts)})}
        msgs_ = run_case("peaks", q)
        ctx.oracle_case("peaks", q, msgs_, key=classify("peaks", q, msgs_) if msgs_ else None, nontrivial=True)
        ctx.count("largest_shapes_middle_disk")
    # large RadialGradientBackgroundSubtraction disks in frames one pixel smaller than the pattern's own template array along an
    # odd axis (both orders of the axes, outer radius on / just below an integer): the template is cropped, not padded
    for k in range(4 * boost):
        ro_int = int(rng.integers(9, 21))
        ro = ro_int - float(rng.choice([0.0, 0.05, 0.3]))
        r = float(np.round(ro / rng.uniform(1.3, 1.6), 2))
        pat = {"kind": "rgbs", "radius": r, "radius_outer": ro, "search": float(ro + 1 + int(rng.integers(0, 3)))}
        ax = k % 2
        shape = [0, 0]
        shape[ax] = 2 * ro_int + 1
        shape[1 - ax] = int(rng.integers(2 * ro_int + 4, 2 * ro_int + 40))
        cen = [shape[0] // 2, shape[1] // 2]
        cen[1 - ax] = int(rng.integers(ro_int + 2, shape[1 - ax] - ro_int - 1))
        q = {"seed": int(rng.integers(1 << 30)), "pattern": pat, "shape": shape, "centres": [cen],
             "amps": [float(rng.uniform(1, 100))], "bg": float(rng.uniform(0, 5)), "ks": [1]}
        msgs_ = run_case("peaks", q)
        ctx.oracle_case("peaks", q, msgs_, key=classify("peaks", q, msgs_) if msgs_ else None, nontrivial=True)
        ctx.count("template_larger_than_axis")
        ctx.count("pattern_" + pat["kind"])


def extra_coverage(ctx):
    return {"exhaustive_range": getattr(ctx, "exhaustive_range", None)}
