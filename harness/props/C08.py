"""C08 — results do not depend on buffer size, peak order or other peaks."""
import numpy as np

import impl
from libertem_blobfinder.base import correlation as bc

PROP = "C08"
LEAN_MODULE = "BlobfinderModel.Properties.C08"
GEN_FILES = ["Blocks", "Eval"]
FRAGMENTS = ["get_buf_count", "fast_blocks", "full_blocks", "wrappers_text"]
DRIVER = "drvcorr"
RULE = ("correspondence: the block schedule (start, stop, size of every crop_function call) of the real "
        "process_frame_fast/full for every (n_peaks, buf_count) in the exhaustive range vs the model's "
        "schedule, and get_buf_count on a grid incl. limits around full_size; oracle: the statement's bounds of get_buf_count / "
        "allocate_crop_bufs on the implementation for limits around the crop size; outputs for buffer "
        "counts / permutations / duplicates / added+removed peaks vs the one-block run (1e-5 relative, "
        "centres exact unless the maximum is tied within tolerance). Non-trivial: more than one block or "
        "buffer larger than the peak list (distinct = distinct (pipeline, n, b) / case hashes).")
ASSUMPTIONS = [
    "A-FFT: batched rfft2/irfft2 over the leading axis equals the per-item transform up to round-off; "
    "per-crop minima in log_scale_cropbufs_inplace (both covered by the oracle, not by a theorem)",
    "the per-crop pipeline is abstract (`f`) in the theorems",
]


def logged_schedule(pipeline, n, b, frame, pattern):
    peaks = np.stack([np.arange(n) % frame.shape[0], np.arange(n)], axis=1).astype(np.int64)
    log = []

    def crop(peaks, frame, crop_size, out_crop_bufs):
        log.append((int(peaks[0, 1]) if len(peaks) else -1, len(peaks), out_crop_bufs.shape[0]))
        bc.crop_disks_from_frame(peaks=peaks, frame=frame, crop_size=crop_size, out_crop_bufs=out_crop_bufs)
    outs = impl.alloc_out(n, prefill=-999)
    if pipeline == "fast":
        impl.run_fast(frame, pattern, peaks, b=b, crop_function=crop, outs=outs)
    else:
        impl.run_full(frame, pattern, peaks, b=b, crop_function=crop, outs=outs)
    unwritten = int(np.sum(outs[2] == -999))
    return log, unwritten


def corr(ctx, drv):
    thorough = ctx.tier == "thorough"
    nmax = 40 if thorough else 16
    rng = np.random.default_rng(ctx.seed + 8)
    frame = rng.poisson(4, (48, 48)).astype(np.float32)
    pattern = impl.make_pattern("radial_gradient", 1.5, search=2)
    ctx.exhaustive_range = {"n_peaks": f"1..{nmax}", "buf_count": "1..n+3", "pipelines": ["fast", "full"]}
    for pipeline in ("fast", "full"):
        lines, cases = [], []
        for n in range(1, nmax + 1):
            for b in range(1, n + 4):
                lines.append(f"schedule {pipeline} {n} {b}")
                cases.append((n, b))
        outs = drv.ask_many(lines)
        for (n, b), mo in zip(cases, outs):
            msgs = []
            try:
                log, unwritten = logged_schedule(pipeline, n, b, frame, pattern)
                got = " ".join(f"{s}:{s + ln}:{ln}" for s, ln, _ in log)
                if got != mo:
                    msgs.append(f"{pipeline} n={n} b={b}: schedule impl=[{got}] model=[{mo}]")
                if any(ln != cap for _, ln, cap in log):
                    msgs.append(f"{pipeline} n={n} b={b}: crop buffer slice length differs from block size {log}")
                if unwritten:
                    msgs.append(f"{pipeline} n={n} b={b}: {unwritten} output entries never written")
            except Exception as e:
                msgs.append(f"{pipeline} n={n} b={b}: implementation raised {type(e).__name__}: {e}; model=[{mo}]")
            ctx.corr_case("schedule", {"pipeline": pipeline, "n": n, "b": b}, msgs,
                          nontrivial=(b < n or b > n), hkey=("sch", pipeline, n, b))
        ctx.count(f"schedule_{pipeline}", len(cases))
    # get_buf_count on a grid
    lines, cases = [], []
    for c in (1, 2, 3, 5, 8, 16, 33):
        for itemsize in (1, 2, 4, 8):
            full = (2 * c) ** 2 * itemsize
            for n in (1, 2, 3, 7, 40, 1000):
                for limit in sorted({0, 1, full - 1, full, full + 1, 2 * full - 1, 2 * full, 3 * full + 5,
                                     n * full - 1, n * full, n * full + 1, 2 ** 19}):
                    lines.append(f"bufcount {c} {n} {itemsize} {limit}")
                    cases.append((c, n, itemsize, limit))
    outs = drv.ask_many(lines)
    dts = {1: np.uint8, 2: np.int16, 4: np.float32, 8: np.float64}
    for (c, n, itemsize, limit), mo in zip(cases, outs):
        got = bc.get_buf_count(c, n, dts[itemsize], limit)
        msgs = [] if str(int(got)) == mo else [f"get_buf_count{(c, n, itemsize, limit)} impl={got} model={mo}"]
        full = (2 * c) ** 2 * itemsize
        ctx.corr_case("bufcount", {"c": c, "n": n, "itemsize": itemsize, "limit": limit}, msgs,
                      nontrivial=(full <= limit < n * full), hkey=("bc", c, n, itemsize, limit))
    ctx.count("bufcount", len(cases))


def compare_outputs(base, other, idx_base, idx_other, what, us):
    """property statement: same result for a peak (1e-5 relative); centres exact unless tied"""
    msgs = []
    bcen, bref, bh, be = (np.asarray(a, dtype=np.float64) for a in base)
    ocen, oref, oh, oe = (np.asarray(a, dtype=np.float64) for a in other)
    fin = np.isfinite(bh)
    hmax = float(np.abs(bh[fin]).max()) if fin.any() else 1.0     # the round-off of a batched FFT scales with the data
    for ib, io in zip(idx_base, idx_other):
        tol_h = 1e-5 * max(abs(bh[ib]), hmax)
        if not np.isfinite([bh[ib], oh[io], be[ib], oe[io]]).all() or not np.isfinite(bref[ib]).all():
            if not (np.array_equal(bh[ib], oh[io], equal_nan=True) and np.array_equal(bref[ib], oref[io], equal_nan=True)):
                msgs.append(f"{what}: non-finite results differ at peak #{ib}")
            continue
        if abs(bh[ib] - oh[io]) > tol_h:
            msgs.append(f"{what}: height differs at peak #{ib}: {bh[ib]} vs {oh[io]}")
            continue
        if not np.array_equal(bcen[ib], ocen[io]):
            # inputs are noise frames: exact ties of the maximum do not occur
            msgs.append(f"{what}: centre differs at peak #{ib}: {bcen[ib]} vs {ocen[io]}")
            continue
        rt = 1e-5 * max(np.abs(bref[ib]).max(), 1.0)
        if np.abs(bref[ib] - oref[io]).max() > rt:
            msgs.append(f"{what}: refined differs at peak #{ib}: {bref[ib]} vs {oref[io]}")
        if abs(be[ib] - oe[io]) > 1e-5 * max(abs(be[ib]), hmax):
            msgs.append(f"{what}: elevation differs at peak #{ib}: {be[ib]} vs {oe[io]}")
    return msgs


def run_case(kind, params):
    if kind == "bufcount":
        # the statement itself, on the implementation: 1 <= result <= n_peaks, and result * crop bytes <= limit whenever
        # a single crop fits; allocate_crop_bufs allocates exactly that many crops of (2c, 2c)
        c, n, dt, limit = params["c"], params["n"], np.dtype(params["dtype"]), params["limit"]
        msgs = []
        try:
            r = int(bc.get_buf_count(c, n, dt, limit))
            full = (2 * c) ** 2 * dt.itemsize
            if not 1 <= r <= n:
                msgs.append(f"get_buf_count(crop_size={c}, n_peaks={n}, {dt}, limit={limit}) = {r} is not in [1, {n}]")
            if full <= limit and r * full > limit:
                msgs.append(f"get_buf_count(crop_size={c}, n_peaks={n}, {dt}, limit={limit}) = {r}: {r} crops of {full} bytes "
                            f"exceed the limit although one crop fits")
            bufs = bc.allocate_crop_bufs(c, n, dt, limit=limit)
            if bufs.shape != (max(r, 0), 2 * c, 2 * c) or bufs.dtype != dt:
                msgs.append(f"allocate_crop_bufs gives {bufs.shape} {bufs.dtype} for buffer count {r}, crop size {c}, {dt}")
        except Exception as e:
            msgs.append(f"get_buf_count / allocate_crop_bufs raised {type(e).__name__}: {e}")
        return msgs
    if kind == "wrappers":
        from libertem_blobfinder.common import correlation as cc
        rng = np.random.default_rng(params["seed"])
        shape = tuple(params["shape"])
        frame = impl.noise_frame(rng, shape, "disks")
        pattern = impl.pattern_from(params["pattern"])
        peaks = np.asarray(params["peaks"], dtype=np.int64)
        us = params["upsample"]
        msgs = []
        try:
            base = impl.run_fast(frame, pattern, peaks, b=len(peaks), upsample=us)      # one block, low level
            basef = impl.run_full(frame, pattern, peaks, b=len(peaks), upsample=us)
            for nm, fn, ref in (("process_frames_fast", cc.process_frames_fast, base), ("process_frames_full", cc.process_frames_full, basef)):
                r = fn(pattern, frame[np.newaxis], peaks, upsample=us)
                got = tuple(np.asarray(a)[0] for a in r)
                msgs += compare_outputs(ref, got, range(len(peaks)), range(len(peaks)), f"{nm} ({len(peaks)} peaks) vs one block", us)
        except Exception as e:
            msgs.append(f"implementation raised {type(e).__name__}: {e}")
        return msgs[:6]
    rng = np.random.default_rng(params["seed"])
    shape = tuple(params["shape"])
    frame = impl.noise_frame(rng, shape, params["frame_kind"])
    if params.get("scale"):       # the same frame in other units (normalised intensities, low dose): float32 data
        frame = (frame * np.float32(params["scale"])).astype(np.float32)
    pattern = impl.pattern_from(params["pattern"])
    peaks = np.asarray(params["peaks"], dtype=np.int64)
    n = len(peaks)
    us = params["upsample"]
    runner = impl.run_fast if params["pipeline"] == "fast" else impl.run_full
    msgs = []
    try:
        base = runner(frame, pattern, peaks, b=n, upsample=us)
        for b in params["bufs"]:
            r = runner(frame, pattern, peaks, b=b, upsample=us)
            msgs += compare_outputs(base, r, range(n), range(n), f"buf_count={b} vs {n}", us)
        # the frame and the peak list are input, not scratch space: read-only arrays, a column-major frame and a peak list that is a
        # view into a wider table give the same outputs
        fro, pro = frame.copy(), peaks.copy()
        fro.setflags(write=False)
        pro.setflags(write=False)
        tab = np.zeros((n, 5), dtype=peaks.dtype)
        tab[:, 1::2][:, :2] = peaks
        for what, f_, p_ in (("read-only frame and peak list", fro, pro),
                             ("column-major frame, peak list as a strided view", np.asfortranarray(frame), tab[:, 1::2][:, :2])):
            try:
                r = runner(f_, pattern, p_, b=params["bufs"][-1], upsample=us)
                msgs += compare_outputs(base, r, range(n), range(n), what, us)
            except Exception as e:      # noqa: BLE001
                msgs.append(f"{what}: raised {type(e).__name__}: {e}")
        perm = np.asarray(params["perm"])
        r = runner(frame, pattern, peaks[perm], b=params["bufs"][0], upsample=us)
        msgs += compare_outputs(base, r, perm, range(n), "permuted peak list", us)
        dup = np.concatenate([peaks, peaks[: max(1, n // 2)], peaks[:1]])
        r = runner(frame, pattern, dup, b=params["bufs"][-1], upsample=us)
        msgs += compare_outputs(base, r, list(range(n)) + list(range(max(1, n // 2))) + [0],
                                range(len(dup)), "duplicated peaks", us)
        keep = np.asarray(params["keep"])
        r = runner(frame, pattern, peaks[keep], b=params["bufs"][0], upsample=us)
        msgs += compare_outputs(base, r, keep, range(len(keep)), "other peaks removed", us)
        # the batch helpers (peak list handed over as is): a peak just left / right of the frame together with the position one
        # row up / down and one frame width across -- different windows that share the flat pixel number y * width + x
        if params.get("alias"):
            from libertem_blobfinder.common import correlation as cc
            fn = cc.process_frames_fast if params["pipeline"] == "fast" else cc.process_frames_full
            c_ = pattern.get_crop_size()
            w_ = shape[1]
            y0 = int(params["alias"])
            for x0 in (w_ + max(0, c_ - 2), -max(1, c_ - 1)):
                pair = np.array([[y0, x0], [y0 + (1 if x0 >= w_ else -1), x0 - w_ if x0 >= w_ else x0 + w_]])
                lst = np.concatenate([peaks[:2], pair, peaks[2:4]])
                both = fn(pattern, frame[np.newaxis], lst, upsample=us)
                for j_ in (len(peaks[:2]), len(peaks[:2]) + 1):
                    one = fn(pattern, frame[np.newaxis], lst[j_:j_ + 1], upsample=us)
                    for nm_, a_, b_ in zip(("centres", "refineds", "heights", "elevations"), both, one):
                        if not np.array_equal(np.asarray(a_)[0, j_], np.asarray(b_)[0, 0], equal_nan=True):
                            msgs.append(f"{fn.__name__}: {nm_} of peak {lst[j_].tolist()} is {np.asarray(a_)[0, j_].tolist()} within the list "
                                        f"{lst.tolist()} and {np.asarray(b_)[0, 0].tolist()} when it is processed alone")
                            break
    except Exception as e:
        msgs.append(f"implementation raised {type(e).__name__}: {e}")
    return msgs[:8]


def gen_case(rng, k):
    shape = (int(rng.integers(24, 70)), int(rng.integers(24, 70)))
    if (k // 4) % 3 == 1:
        # frame shapes whose two spectrum axes have the same length (H == W // 2 + 1: the full axis of the rfft2 spectrum is as
        # long as its half axis), and the transposed shape
        w = int(rng.integers(46, 100))
        shape = (w // 2 + 1, w) if k % 8 < 4 else (w, w // 2 + 1)
    pat = impl.pattern_params(rng, rmax=6.0)
    c = int(np.ceil(pat["search"]))
    n = int(rng.integers(1, 41)) if k % 3 else int(rng.integers(1, 8))
    reach = c if k % 3 else 3 * c   # every third case: windows partly and entirely outside the frame, on all sides
    peaks = np.stack([rng.integers(-reach, shape[0] + reach, n), rng.integers(-reach, shape[1] + reach, n)], axis=1)
    if k % 3 == 0 and n >= 3:   # entirely beyond the bottom / right edge by less than a window
        peaks[n // 2] = (shape[0] + c + int(rng.integers(1, 2 * c)), int(rng.integers(0, shape[1])))
        peaks[n // 2 - 1] = (int(rng.integers(0, shape[0])), shape[1] + c + int(rng.integers(1, 2 * c)))
    bufs = sorted({1, int(rng.integers(1, n + 4)), int(rng.integers(1, n + 4)), n + 3, max(1, n - 1)})
    keep = np.sort(rng.choice(n, size=int(rng.integers(1, n + 1)), replace=False))
    return {"seed": int(rng.integers(1 << 30)), "shape": list(shape),
            "frame_kind": ("poisson", "gauss", "disks")[k % 3], "pattern": pat,
            "peaks": peaks.tolist(), "bufs": bufs, "perm": rng.permutation(n).tolist(),
            "keep": keep.tolist(), "upsample": [False, False, 5, True][k % 4],
            "pipeline": "fast" if k % 2 == 0 else "full",
            "scale": [None, 1e-6, None, 1e-3, None, 1e-9][(k // 7) % 6],
            "alias": int(rng.integers(2, shape[0] - 2)) if (k // 2) % 3 == 1 else None}


def search(ctx, boost=1, focus=()):
    rng = np.random.default_rng(ctx.seed + 1008)
    n = (240 if ctx.tier == "thorough" else 40) * boost
    for k in range(n):
        params = gen_case(rng, k)
        msgs = run_case("invariance", params)
        ctx.oracle_case("invariance", params, msgs, nontrivial=len(params["peaks"]) > 1)
        ctx.count("oracle_" + params["pipeline"] + ("_us" if params["upsample"] else ""))
    # the batch helpers with more crops than one block of their own buffers holds (large pattern, many peaks in no particular order)
    for k in range(2 * boost):
        r_ = float(rng.integers(13, 17))
        q = {"pattern": {"kind": ("radial_gradient", "circular")[k % 2], "radius": r_, "search": 2 * r_}, "seed": int(rng.integers(1 << 30)),
             "shape": [int(rng.integers(90, 120)), int(rng.integers(90, 120))], "upsample": [False, 4][k % 2]}
        c = int(np.ceil(q["pattern"]["search"]))
        npk = 2 ** 19 // ((2 * c) ** 2 * 4) + int(rng.integers(3, 9))
        q["peaks"] = np.stack([rng.integers(0, q["shape"][0], npk), rng.integers(0, q["shape"][1], npk)], axis=1).tolist()
        msgs = run_case("wrappers", q)
        ctx.oracle_case("wrappers", q, msgs, nontrivial=True)
        ctx.count("wrappers_many_blocks")
    for k in range((400 if ctx.tier == "thorough" else 120) * boost):
        c = int(rng.integers(1, 40))
        dt = ("uint8", "int16", "float32", "float64", "complex128")[k % 5]
        full = (2 * c) ** 2 * np.dtype(dt).itemsize
        npk = int(rng.choice([1, 2, 3, 10, 100, 5000]))
        limit = int(rng.choice([0, 1, full - 1, full, full + 1, 2 * full - 1, 3 * full, npk * full - 1, npk * full,
                                npk * full + 7, 2 ** 19, int(rng.integers(0, 4 * full + 2))]))
        p = {"c": c, "n": npk, "dtype": dt, "limit": limit}
        ctx.oracle_case("bufcount", p, run_case("bufcount", p), nontrivial=(full <= limit < npk * full),
                        hkey=("obc", c, npk, dt, limit))
    ctx.count("oracle_bufcount")


def extra_coverage(ctx):
    return {"exhaustive": True, "exhaustive_range": getattr(ctx, "exhaustive_range", None)}
