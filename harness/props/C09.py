"""C09 — no state leaks between calls through reused buffers and objects."""
import numpy as np

import impl
from libertem_blobfinder.base import correlation as bc
from libertem_blobfinder.common import correlation as cc
from libertem_blobfinder.common import gridmatching as grm

PROP = "C09"
LEAN_MODULE = "BlobfinderModel.Properties.C09"
GEN_FILES = ["Crop", "Blocks", "Patterns"]
FRAGMENTS = ["crop_cell", "sl_bounds",
             "fast_blocks", "full_blocks", "full_buffers", "user_template_io"]
DRIVER = "drvcorr"
RULE = ("correspondence: random histories of 2..5 process_frame_fast calls on shared crop buffers; after every "
        "crop_function call the real buffers are compared slot by slot with the model (slots < size: model crop "
        "of that block's peaks, other slots: unchanged), both back-ends; oracle: histories of 1..6 calls "
        "sharing crop buffers / frame buffer / output arrays (prefilled) / pattern objects vs fresh-object runs "
        "(bit-identical), batch entry points vs per-frame calls, pattern re-query order, used patterns whose public parameters are then "
        "changed (scalars rebound, array parameters rebound or updated in place) vs fresh patterns with the same current "
        "parameters, matcher reuse. "
        "Non-trivial: a history with >= 2 calls in which a border peak occurs (distinct = case hashes).")
ASSUMPTIONS = [
    "`eval` (log scaling, FFT, evaluation kernels) only reads the h x w cells of its crop (EvalLocal) — "
    "exercised by the oracle, not proved",
    "A-LOOP for np.log(..., out=frame_buf) writing every element",
]
SENT = 7


def corr(ctx, drv):
    thorough = ctx.tier == "thorough"
    rng = np.random.default_rng(ctx.seed + 9)
    n_hist = 60 if thorough else 15
    for hno in range(n_hist):
        c = int(rng.integers(1, 4))
        h = w = 2 * c
        cap = int(rng.integers(1, 6))
        backend = "slicing" if hno % 2 else "pixel"
        real_crop = bc.crop_disks_from_frame_slicing if backend == "slicing" else bc.crop_disks_from_frame
        crop_bufs = np.full((cap, h, w), float(SENT), np.float32)
        pattern = impl.make_pattern("radial_gradient", c / 2 + 0.5, search=c)
        for callno in range(int(rng.integers(2, 6))):
            fy, fx = int(rng.integers(2, 9)), int(rng.integers(2, 9))
            frame = rng.integers(1, 200, (fy, fx)).astype(np.float32)
            n = int(rng.integers(1, 8))
            peaks = np.stack([rng.integers(-c - 1, fy + c + 1, n), rng.integers(-c - 1, fx + c + 1, n)], axis=1)
            fvals = " ".join(str(int(v)) for v in frame.ravel())
            snaps = []

            def crop(peaks, frame, crop_size, out_crop_bufs):
                before = crop_bufs.copy()
                real_crop(peaks=peaks, frame=frame, crop_size=crop_size, out_crop_bufs=out_crop_bufs)
                snaps.append((np.array(peaks), before, crop_bufs.copy()))
            msgs = []
            try:
                impl.run_fast(frame, pattern, peaks, crop_function=crop, crop_bufs=crop_bufs)
            except Exception as e:
                msgs.append(f"implementation raised {type(e).__name__}: {e}")
            op = "crop_slice" if backend == "slicing" else "crop_pixel"
            for (pk, before, after) in snaps:
                for j in range(cap):
                    if j < len(pk):
                        extra = f" {SENT}" if backend == "slicing" else ""
                        mo = drv.ask(f"{op} {fy} {fx} {c} {pk[j][0]} {pk[j][1]} {h} {w}{extra} {fvals}")
                        got = " ".join(str(int(v)) if float(v).is_integer() else repr(float(v)) for v in after[j].ravel())
                        if got != mo:
                            msgs.append(f"{backend} call#{callno} slot {j} peak {pk[j].tolist()}: impl={got} model={mo}")
                    elif not np.array_equal(before[j], after[j]):
                        msgs.append(f"{backend} call#{callno}: unused slot {j} was modified by the crop")
            border = bool(np.any((peaks - c < 0) | (peaks[:, :1] + c > fy) | (peaks[:, 1:] + c > fx)))
            ctx.corr_case("history_crop", {"backend": backend, "c": c, "cap": cap, "call": callno,
                                           "frame": frame, "peaks": peaks}, msgs[:5],
                          nontrivial=callno > 0 and border)
        ctx.count("hist_" + backend)


def fresh_run(pipeline, frame, pattern_params, peaks, b, upsample, backend, center_dtype=np.int32):
    """the same call on fresh objects; the centre dtype is matched because the upsampling step
    computes `centre - float32` in float32 for int16 centres and in float64 for int32 ones
    (1 ulp differences that are not state leaks)"""
    pattern = impl.pattern_from(pattern_params)
    cf = bc.crop_disks_from_frame_slicing if backend == "slicing" else bc.crop_disks_from_frame
    outs = impl.alloc_out(len(peaks), center_dtype=center_dtype)
    if pipeline == "fast":
        return impl.run_fast(frame, pattern, peaks, b=b, upsample=upsample, crop_function=cf, outs=outs)
    return impl.run_full(frame, pattern, peaks, b=b, upsample=upsample, crop_function=cf, outs=outs)


def run_case(kind, params):
    msgs = []
    rng = np.random.default_rng(params["seed"])
    if kind == "isolated":
        # (worker process) only the LAST call of the history, in an interpreter that has not processed anything before; the
        # outputs are handed back as text
        import json as _json
        q_ = dict(params, _only_last=True, _dump=[])
        m_ = run_case("history", q_)
        return ["OUT " + _json.dumps(q_["_dump"])] + m_
    if kind == "history":
        pp = params["pattern"]
        pattern = impl.pattern_from(pp)
        c = pattern.get_crop_size()
        backend, pipeline, cap = params["backend"], params["pipeline"], params["cap"]
        cf = bc.crop_disks_from_frame_slicing if backend == "slicing" else bc.crop_disks_from_frame
        shape = tuple(params["shape"])
        crop_bufs = rng.normal(0, 50, (cap, 2 * c, 2 * c)).astype(np.float32)
        frame_buf = rng.normal(0, 50, shape).astype(np.float32)
        nmax = max(len(p) for p in params["peaks"])
        shared = impl.alloc_out(nmax, prefill=float("nan"))
        shared[0][:] = -12345
        if params.get("out_layout") == "column":
            # the caller keeps its results in tables (one column per frame / one field per quantity): the output arrays are
            # strided views, pre-filled like the separately allocated ones
            tc = np.full((nmax, 2, 3), -12345, dtype=shared[0].dtype)
            tr = np.full((nmax, 2, 3), np.nan, dtype=np.float32)
            th = np.full((nmax, 4), np.nan, dtype=np.float32)
            shared = (tc[:, :, 1], tr[:, :, 2], th[:, 1], th[:, 3])
        fbufs_ = {shape: frame_buf}
        scene_ = None
        if params.get("same_scene"):
            # one scene, seen through frames of odd width 2k + 1 (columns 0 .. 2k) and of even width 2k (columns 1 .. 2k): the same
            # disks at the same distance from the respective map centre
            wmax_ = max(s_[1] for s_ in params["shapes"]) + 1
            scene_ = impl.noise_frame(rng, (shape[0], wmax_), "disks")
        for callno, (fk, peaks) in enumerate(zip(params["frame_kinds"], params["peaks"])):
            shape_i = tuple(params["shapes"][callno]) if params.get("shapes") else shape
            if scene_ is not None:
                off_ = 1 if shape_i[1] % 2 == 0 else 0
                frame = np.ascontiguousarray(scene_[:, off_:off_ + shape_i[1]])
                peaks = (np.asarray(peaks) - np.array([0, off_])).tolist()
            else:
                frame = impl.noise_frame(rng, shape_i, fk)
            frame_buf = fbufs_.setdefault(shape_i, np.zeros(shape_i, np.float32))
            peaks = np.asarray(peaks, dtype=np.int64)
            n = len(peaks)
            outs = tuple(a[:n] for a in shared)
            us = params["upsample"] if not params.get("upsamples") else params["upsamples"][callno]
            if params.get("_only_last") and callno < len(params["peaks"]) - 1:
                continue
            try:
                if pipeline == "fast":
                    impl.run_fast(frame, pattern, peaks, upsample=us, crop_function=cf,
                                  crop_bufs=crop_bufs, outs=outs)
                else:
                    impl.run_full(frame, pattern, peaks, b=cap, upsample=us, crop_function=cf,
                                  frame_buf=frame_buf, outs=outs)
                ref = fresh_run(pipeline, frame, pp, peaks, cap, us, backend)
            except Exception as e:
                msgs.append(f"call#{callno}: raised {type(e).__name__}: {e}")
                break
            if params.get("_dump") is not None and callno == len(params["peaks"]) - 1:
                params["_dump"].extend([np.asarray(a, dtype=np.float64).tolist() for a in outs])
            for name, a, r in zip(("centers", "refineds", "heights", "elevations"), outs, ref):
                if not np.array_equal(a, r, equal_nan=True):
                    bad = np.argwhere(~np.isclose(a, r, rtol=0, atol=0, equal_nan=True))[:3].tolist()
                    msgs.append(f"{pipeline}/{backend} call#{callno}: {name} differ from a fresh run at {bad}: "
                                f"{np.asarray(a)[tuple(bad[0])] if bad else ''} vs {np.asarray(r)[tuple(bad[0])] if bad else ''}")
    elif kind == "batch":
        pp = params["pattern"]
        shape = tuple(params["shape"])
        frames = np.stack([impl.noise_frame(rng, shape, fk) for fk in params["frame_kinds"]])
        peaks = np.asarray(params["peaks"], dtype=np.int64)
        for name, fn, single in (("process_frames_fast", cc.process_frames_fast, "fast"),
                                 ("process_frames_full", cc.process_frames_full, "full")):
            try:
                res = fn(impl.pattern_from(pp), frames, peaks, upsample=params["upsample"])
                for i in range(len(frames)):
                    ref = fresh_run(single, frames[i], pp, peaks, len(peaks), params["upsample"], "pixel",
                                    center_dtype=res[0].dtype)
                    for nm, a, r in zip(("centers", "refineds", "heights", "elevations"), res, ref):
                        if not np.array_equal(np.asarray(a[i], dtype=np.float64), np.asarray(r, dtype=np.float64), equal_nan=True):
                            msgs.append(f"{name}: frame {i} {nm} differ from a single-frame run on fresh buffers")
            except Exception as e:
                msgs.append(f"{name} raised {type(e).__name__}: {e}")
    elif kind == "requery":
        pp = params["pattern"]
        shared = impl.pattern_from(pp)
        for shp in params["shapes"]:
            shp = tuple(shp)
            a = shared.get_mask(shp)
            t = shared.get_template(shp)
            b = impl.pattern_from(pp).get_mask(shp)
            if not np.array_equal(a, b, equal_nan=True):
                msgs.append(f"{pp['kind']}: get_mask{shp} after earlier queries differs from a fresh pattern")
            if not np.array_equal(t, np.fft.rfft2(b), equal_nan=True):
                msgs.append(f"{pp['kind']}: get_template{shp} is not rfft2 of the fresh mask")
            if shared.get_crop_size() != impl.pattern_from(pp).get_crop_size():
                msgs.append("crop size changed")
            if params.get("scribble"):
                # the caller uses the arrays it was handed as scratch space (normalises the mask in place, clears the spectrum):
                # they are results, not the pattern's state
                a -= 3.0
                a *= 0.25
                t[...] = 0
        if params.get("scribble") and params.get("frame_shape"):
            fshape = tuple(params["frame_shape"])
            frame = impl.noise_frame(rng, fshape, "disks")
            pk = np.asarray(params["peaks"], dtype=np.int64)
            try:
                for pipeline in ("fast", "full"):
                    got = (impl.run_fast if pipeline == "fast" else impl.run_full)(frame, shared, pk)
                    ref = (impl.run_fast if pipeline == "fast" else impl.run_full)(frame, impl.pattern_from(pp), pk)
                    for nm, x, y in zip(("centers", "refineds", "heights", "elevations"), got, ref):
                        if not np.array_equal(x, y, equal_nan=True):
                            msgs.append(f"{pp['kind']}: {pipeline} pipeline, {nm} with a pattern whose earlier masks / templates were "
                                        f"written to by the caller differ from a fresh pattern")
            except Exception as e:      # noqa: BLE001
                msgs.append(f"{pp['kind']}: raised {type(e).__name__}: {e}")
    elif kind == "retune":
        # a pattern object that has been used, then had its public parameters changed (rebound, or array parameters
        # updated in place), must behave like a fresh pattern constructed with the parameters it has now
        from libertem_blobfinder.common import patterns as pt
        pp = params["pattern"]
        shp = tuple(params["shape"])
        first = impl.pattern_from(pp).get_mask(shp)      # a pattern with these parameters, before anything was modified
        shared = impl.pattern_from(pp)
        shared.get_mask(shp)
        shared.get_template(shp)
        f = params["factor"]
        how = params["how"]
        k = pp["kind"]
        if k in ("circular", "radial_gradient"):
            shared.radius = shared.radius * f
            fresh = type(shared)(radius=shared.radius, search=shared.search)
        elif k == "background_subtraction":
            shared.radius = shared.radius * f
            shared.radius_outer = shared.radius_outer * f
            fresh = pt.BackgroundSubtraction(radius=shared.radius, search=shared.search, radius_outer=shared.radius_outer)
        elif k == "user":
            if how == "inplace":
                shared.template *= np.float32(f)
            else:
                shared.template = shared.template * np.float32(f)
            fresh = pt.UserTemplate(template=np.array(shared.template, copy=True), search=shared.search)
        else:  # rgbs
            if how == "inplace":
                shared.radial_map *= f
            elif how == "rebind_array":
                shared.radial_map = shared.radial_map * f
            elif how == "delta":
                shared.delta = shared.delta * (1 + f)
            else:
                shared.radius = shared.radius * f
                shared.radius_outer = shared.radius_outer * f
            fresh = pt.RadialGradientBackgroundSubtraction(
                radius=shared.radius, search=shared.search, radius_outer=shared.radius_outer, delta=shared.delta,
                radial_map=np.array(shared.radial_map, copy=True))
        for q in (shp, tuple(params["shape2"])):
            a = shared.get_mask(q)
            b = fresh.get_mask(q)
            if not np.array_equal(a, b, equal_nan=True):
                msgs.append(f"{k}: after use and a parameter update ({how}, factor {f}) get_mask{q} differs from a fresh "
                            f"pattern with the same current parameters (max diff {np.nanmax(np.abs(a - b)):.4g})")
            if not np.array_equal(shared.get_template(q), fresh.get_template(q), equal_nan=True):
                msgs.append(f"{k}: after use and a parameter update ({how}) get_template{q} differs from a fresh pattern")
        # ... and a NEW pattern object constructed with the original parameters is not affected by what was done to `shared`
        again = impl.pattern_from(pp).get_mask(shp)
        if not np.array_equal(first, again, equal_nan=True):
            msgs.append(f"{k}: a new pattern object with parameters {pp} gives another mask after a DIFFERENT object of the same "
                        f"class was used and updated ({how}, factor {f}): max diff {np.nanmax(np.abs(first - again)):.4g}")
    elif kind == "matcher":
        m = grm.Matcher(tolerance=params["tol"], min_weight=0.1, min_match=3)
        for inp in params["inputs"]:
            args = dict(centers=np.asarray(inp["pts"]), refineds=np.asarray(inp["pts"], dtype=float),
                        peak_elevations=np.asarray(inp["w"], dtype=float),
                        peak_values=np.ones(len(inp["pts"])),
                        zero=np.asarray(inp["zero"], float), a=np.asarray(inp["a"], float), b=np.asarray(inp["b"], float))
            r1 = m.fastmatch(**args)
            r2 = grm.Matcher(tolerance=params["tol"], min_weight=0.1, min_match=3).fastmatch(**args)
            for nm in ("zero", "a", "b", "selector"):
                if not np.array_equal(getattr(r1, nm), getattr(r2, nm), equal_nan=True):
                    msgs.append(f"matcher reuse changed {nm}")
    return msgs[:8]


def gen_history(rng, k):
    pat = impl.pattern_params(rng, rmax=5.0)
    if k % 7 == 6:
        # the smallest patterns: search windows of 2x2 and 4x4 pixels (crop size 1 and 2)
        pat = {"kind": "circular", "radius": float(rng.choice([0.5, 0.8, 1.0])), "search": float(rng.choice([1.0, 1.0, 1.6, 2.0]))}
    c = int(np.ceil(pat["search"]))
    shape = (int(rng.integers(2 * c + 2, 60)), int(rng.integers(2 * c + 2, 60)))
    if k % 5 == 3 and c >= 2:   # a frame narrower than the correlation window along one or both axes (windows stick out at both ends)
        shape = (int(rng.integers(3, 2 * c)), shape[1]) if k % 2 else (shape[0], int(rng.integers(3, 2 * c)))
        if k % 15 == 3:
            shape = (int(rng.integers(3, 2 * c)), int(rng.integers(3, 2 * c)))
    ncalls = int(rng.integers(1, 7))
    peaks = []
    for _ in range(ncalls):
        n = int(rng.integers(1, 10))
        pk = np.stack([rng.integers(-2 * c, shape[0] + 2 * c + 1, n),
                       rng.integers(-2 * c, shape[1] + 2 * c + 1, n)], axis=1)
        pk[0] = (int(rng.integers(-c, 1)), int(rng.integers(shape[1] - 2, shape[1] + c)))  # a border peak
        if n > 1:  # a window entirely outside, on a random side
            side = int(rng.integers(4))
            pk[1] = [(int(rng.integers(0, shape[0])), shape[1] + c + int(rng.integers(0, c))),
                     (int(rng.integers(0, shape[0])), -c - int(rng.integers(0, c))),
                     (shape[0] + c + int(rng.integers(0, c)), int(rng.integers(0, shape[1]))),
                     (-c - int(rng.integers(0, c)), int(rng.integers(0, shape[1])))][side]
        peaks.append(pk.tolist())
    kinds = ("poisson", "gauss", "disks", "const", "hot")
    return {"seed": int(rng.integers(1 << 30)), "pattern": pat, "shape": list(shape),
            "cap": int(rng.integers(1, 12)), "backend": "slicing" if k % 2 else "pixel",
            "pipeline": "fast" if (k // 2) % 2 == 0 else "full", "upsample": [False, 4][(k // 4) % 2],
            "frame_kinds": [kinds[int(rng.integers(5))] for _ in range(ncalls)], "peaks": peaks,
            "out_layout": "column" if (k // 3) % 3 == 1 else "separate"}


def search(ctx, boost=1, focus=()):
    rng = np.random.default_rng(ctx.seed + 1009)
    thorough = ctx.tier == "thorough"
    n = (200 if thorough else 40) * boost
    for k in range(n):
        p = gen_history(rng, k)
        msgs = run_case("history", p)
        ctx.oracle_case("history", p, msgs, nontrivial=len(p["peaks"]) >= 2)
        ctx.count(f"history_{p['pipeline']}_{p['backend']}")
    for k in range((40 if thorough else 8) * boost):
        pat = impl.pattern_params(rng, rmax=5.0)
        c = int(np.ceil(pat["search"]))
        shape = (int(rng.integers(2 * c + 2, 50)), int(rng.integers(2 * c + 2, 50)))
        nfr = int(rng.integers(2, 5))
        n = int(rng.integers(1, 8))
        p = {"seed": int(rng.integers(1 << 30)), "pattern": pat, "shape": list(shape),
             "frame_kinds": [("poisson", "gauss", "disks")[int(rng.integers(3))] for _ in range(nfr)],
             "peaks": np.stack([rng.integers(-c, shape[0] + c, n), rng.integers(-c, shape[1] + c, n)], axis=1).tolist(),
             "upsample": [False, 3][k % 2]}
        ctx.oracle_case("batch", p, run_case("batch", p))
        ctx.count("batch")
    for k in range((60 if thorough else 15) * boost):
        pat = impl.pattern_params(rng)
        p = {"seed": 0, "pattern": pat,
             "shapes": [[int(rng.integers(2, 60)), int(rng.integers(2, 60))] for _ in range(int(rng.integers(2, 6)))]}
        p["shapes"].append(p["shapes"][0])
        if k % 2:   # neighbours whose rfft2 spectra have equal shapes, and a smaller odd shape after a larger even one
            h0, w0 = p["shapes"][0]
            p["shapes"] += [[h0, w0 + 1], [h0, w0], [h0 + 1, w0], [2 * (h0 // 2) + 4, 2 * (w0 // 2) + 6],
                            [2 * (h0 // 2) + 1, 2 * (w0 // 2) + 1], [h0, w0 - 1 if w0 > 2 else w0 + 1]]
        ctx.oracle_case("requery", p, run_case("requery", p))
        ctx.count("requery")
    # the caller writes into the masks / templates it was handed; user templates larger and smaller than the requested shapes
    for k in range((40 if thorough else 12) * boost):
        pat = impl.pattern_params(rng, kinds=("user", "user", "circular", "rgbs", "radial_gradient", "background_subtraction"), rmax=6.0)
        if pat["kind"] == "user":
            pat["user_shape"] = [int(rng.integers(8, 40)), int(rng.integers(8, 40))]
            pat["radius"] = float(min(pat["radius"], min(pat["user_shape"]) / 2 - 1))
        c = int(np.ceil(pat["search"]))
        us = pat.get("user_shape", [20, 20])
        shapes = [[int(rng.integers(2, us[0] + 1)), int(rng.integers(2, us[1] + 1))],     # cropped on both axes (or equal)
                  [2 * c, 2 * c], [int(rng.integers(2, 60)), int(rng.integers(2, 60))], list(us), [2 * c, 2 * c]]
        fshape = [int(rng.integers(2 * c + 2, 60)), int(rng.integers(2 * c + 2, 60))]
        npk = int(rng.integers(1, 5))
        p = {"seed": int(rng.integers(1 << 30)), "pattern": pat, "shapes": shapes + [shapes[0]], "scribble": True,
             "frame_shape": fshape,
             "peaks": np.stack([rng.integers(0, fshape[0], npk), rng.integers(0, fshape[1], npk)], axis=1).tolist()}
        ctx.oracle_case("requery", p, run_case("requery", p), nontrivial=True)
        ctx.count("requery_scribble_" + pat["kind"])
    # the last call of a history compared with the same call in a FRESH interpreter (module-level state is state, too): earlier
    # calls use other upsampling factors with the same buffers / shapes
    import json as _json
    import common as _common
    iso = []
    for k in range(2 * boost):
        p = gen_history(rng, 4 * k + (0 if k % 2 else 2))          # fast and full alternate
        while len(p["peaks"]) < 3:
            p["peaks"].append(p["peaks"][-1])
            p["frame_kinds"].append("poisson")
        p["upsamples"] = [[10, 4, 7, True, 5, 3][(k + j) % 6] for j in range(len(p["peaks"]))]
        iso.append(p)
    # ... and earlier calls on frames one pixel wider / narrower (same height) with the SAME upsampling factor, full-frame pipeline:
    # the half-spectra of widths 2k and 2k + 1 have the same shape
    for k in range(2 * boost):
        p = gen_history(rng, 4 * k + 2)
        p["pipeline"] = "full"
        while len(p["peaks"]) < 3:
            p["peaks"].append(p["peaks"][-1])
            p["frame_kinds"].append("disks")
        h_, w_ = p["shape"]
        w_ = max(w_, 12)
        wn_ = w_ + 1 if w_ % 2 == 0 else w_ - 1
        p["shape"] = [h_, w_]
        ncall = len(p["peaks"])
        p["shapes"] = [[h_, wn_]] * (ncall - 1) + [[h_, w_]]      # (the neighbour first: whatever is kept is kept from the first call)
        p["frame_kinds"] = ["disks"] * ncall
        p["peaks"] = [p["peaks"][-1]] * ncall            # the same positions in every call (same offsets from the map centre)
        p["upsamples"] = [[20, 10][k % 2]] * ncall
        p["same_scene"] = True
        c_ = int(np.ceil(p["pattern"]["search"]))
        p["peaks"] = [[[int(rng.integers(c_, max(c_ + 1, h_ - c_))), int(rng.integers(c_ + 1, max(c_ + 2, min(w_, wn_) - c_)))]
                       for _ in range(4)]] * ncall
        iso.append(p)
    try:
        res = _common.run_in_mode(PROP, {}, [("isolated", p) for p in iso])
    except Exception as e:      # noqa: BLE001
        res = None
        ctx.count("isolated_worker_failed")
    for p, r_ in zip(iso, res or []):
        q_ = dict(p, _dump=[])
        msgs = run_case("history", q_)
        if r_ and r_[0].startswith("OUT "):
            want = _json.loads(r_[0][4:])
            for name, a, b in zip(("centers", "refineds", "heights", "elevations"), q_["_dump"], want):
                if not np.array_equal(np.asarray(a), np.asarray(b), equal_nan=True):
                    msgs.append(f"{p['pipeline']}/{p['backend']}: {name} of the last call of a history (upsampling factors "
                                f"{p['upsamples']}) differ from the same call in a fresh interpreter: "
                                f"{np.asarray(a).ravel()[:4].tolist()} vs {np.asarray(b).ravel()[:4].tolist()}")
                    break
        else:
            msgs.append(f"isolated run failed: {str(r_)[:200]}")
        ctx.oracle_case("history", {k_: v_ for k_, v_ in p.items()}, msgs, nontrivial=True)
        ctx.count("history_vs_fresh_interpreter")
    hows = {"rgbs": ("inplace", "rebind_array", "delta", "scalars"), "user": ("inplace", "rebind")}
    for k in range((60 if thorough else 20) * boost):
        pat = impl.pattern_params(rng, kinds=("rgbs", "user", "rgbs", "circular", "radial_gradient", "background_subtraction"),
                                  rmax=6.0)
        pat["search"] = float(pat["search"] * 1.6)   # room for the enlarged parameters
        hw = hows.get(pat["kind"], ("scalars",))
        p = {"seed": 0, "pattern": pat, "how": hw[k % len(hw)], "factor": float(rng.choice([0.8, 0.9, 1.1, 1.2])),
             "shape": [int(rng.integers(8, 50)), int(rng.integers(8, 50))],
             "shape2": [int(rng.integers(8, 50)), int(rng.integers(8, 50))]}
        ctx.oracle_case("retune", p, run_case("retune", p), nontrivial=p["how"] in ("inplace", "rebind_array"))
        ctx.count(f"retune_{pat['kind']}_{p['how']}")
    for k in range((20 if thorough else 5) * boost):
        inputs = []
        for _ in range(3):
            a, b = np.array([rng.uniform(20, 40), rng.uniform(-3, 3)]), np.array([rng.uniform(-3, 3), rng.uniform(20, 40)])
            zero = rng.uniform(40, 60, 2)
            idx = rng.integers(-2, 3, (int(rng.integers(3, 12)), 2))
            pts = zero + idx @ np.array([a, b]) + rng.normal(0, 0.1, (len(idx), 2))
            inputs.append({"pts": pts, "w": rng.uniform(0.05, 3, len(idx)), "zero": zero, "a": a, "b": b})
        p = {"seed": 0, "tol": float(rng.uniform(0.5, 3)), "inputs": inputs}
        ctx.oracle_case("matcher", p, run_case("matcher", p))
        ctx.count("matcher")
