"""C10 — correlation UDFs equal the stand-alone result under any partitioning / tiling."""
import warnings
from fractions import Fraction

import numpy as np

import impl
import refimpl
from common import rat
from libertem.runner import run_udf
from libertem.udf.base import UDF
import libertem_blobfinder.base.correlation as ltbc
from libertem_blobfinder.base import masks
from libertem_blobfinder.common import correlation as cc
from libertem_blobfinder.udf.correlation import FastCorrelationUDF, FullFrameCorrelationUDF, SparseCorrelationUDF

PROP = "C10"
LEAN_MODULE = "BlobfinderModel.Properties.C10"
GEN_FILES = ["Udf", "Eval", "Crop", "Blocks", "Patterns"]
FRAGMENTS = ["correlation_udfs", "sparse_udf", "log_scale", "get_buf_count", "fast_blocks", "full_blocks", "sl_bounds",
             "crop_cell", "mask_center"]
DRIVER = "drvlattice"
DRIVER2 = "drvcorr"
RULE = ("correspondence: rounding of peaks / zero shifts and the sparse offsets vs the model; the accumulated corr buffer of "
        "SparseCorrelationUDF under random tilings / tile depths vs sum over tiles of mask . log(model's per-tile log "
        "argument) (the code's actual behaviour incl. D10); oracle: fast / full-frame UDFs through the protocol runner "
        "for partitionings of 1..8 frames (single-frame partitions, permuted order), byte limits 1..beyond n_peaks*crop "
        "bytes, zero shifts (none, constant, per frame, fractional), upsampling, dtypes, numpy and sparse.COO back-ends vs "
        "stand-alone process_frames_*; sparse UDF: tiling independence (row bands, column splits, depth 1..3), equality "
        "with the direct correlation at the (2 steps+1)^2 offsets, rejection of zero_shift. Non-trivial: more than one "
        "partition or more than one tile (distinct = case hashes).")
ASSUMPTIONS = ["A-LT: LiberTEM is not installed; the UDF protocol is the stand-in harness/stubs/libertem (per-partition task "
               "data, per-frame / per-tile views, postprocess on the partition, merge by assignment)",
               "D10 (sparse UDF log-scales per tile) is a known finding"]


def partitions_of(rng, n):
    order = rng.permutation(n).tolist() if rng.random() < 0.6 else list(range(n))
    mode = int(rng.integers(3))
    if mode == 0:
        return [order]
    if mode == 1:
        return [[f] for f in order]
    cuts = sorted(rng.choice(np.arange(1, n), size=min(n - 1, int(rng.integers(1, 4))), replace=False).tolist()) if n > 1 else []
    return [order[a:b] for a, b in zip([0] + cuts, cuts + [n])]


def tilings_of(rng, sy, sx):
    mode = int(rng.integers(6))
    if mode == 0:
        return [((0, 0), (sy, sx))]
    if mode == 4:       # every row its own tile: a tile boundary at every possible position
        return [((y, 0), (1, sx)) for y in range(sy)]
    if mode == 5:       # every column its own tile
        return [((0, x), (sy, 1)) for x in range(sx)]
    if mode == 1:
        cuts = sorted(set(rng.integers(1, sy, size=int(rng.integers(1, 4))).tolist()))
        ys = [0] + cuts + [sy]
        return [((a, 0), (b - a, sx)) for a, b in zip(ys, ys[1:])]
    if mode == 2:
        cuts = sorted(set(rng.integers(1, sx, size=int(rng.integers(1, 3))).tolist()))
        xs = [0] + cuts + [sx]
        return [((0, a), (sy, b - a)) for a, b in zip(xs, xs[1:])]
    cy, cx = int(rng.integers(1, sy)), int(rng.integers(1, sx))
    return [((0, 0), (cy, cx)), ((0, cx), (cy, sx - cx)), ((cy, 0), (sy - cy, cx)), ((cy, cx), (sy - cy, sx - cx))]


def corr(ctx, drv):
    rng = np.random.default_rng(ctx.seed + 10)
    vals = np.concatenate([np.arange(-4, 5) + 0.5, np.round(rng.uniform(-9, 9, 20), 2)])
    for p in vals[:14]:
        for zs in vals[7:21]:
            mo = int(drv.ask(f"udf peak {rat(float(p))} {rat(float(zs))}"))
            got = int(np.round(p).astype(int) + np.round(zs).astype(int))
            ctx.corr_case("udf_peak", {"p": float(p), "zs": float(zs)}, [] if mo == got else [f"peak {p} shift {zs}: numpy {got} model {mo}"],
                          hkey=("up", float(p), float(zs)))
    # sparse UDF corr buffer vs per-tile log model
    import common
    d2 = common.Driver(DRIVER2)
    try:
        for k in range(12 if ctx.tier == "thorough" else 4):
            sy, sx = int(rng.integers(8, 13)), int(rng.integers(8, 13))
            nfr = int(rng.integers(1, 4))
            frames = rng.poisson(6, (nfr, sy, sx)).astype(np.float32)
            pat = impl.make_pattern("radial_gradient", 1.5, search=2)
            c = pat.get_crop_size()
            peaks = np.array([[int(rng.integers(1, sy - 1)), int(rng.integers(1, sx - 1))]])
            steps = 1
            tiles = tilings_of(rng, sy, sx)
            depth = int(rng.integers(1, 3))
            udf = SparseCorrelationUDF(peaks=peaks, match_pattern=pat, steps=steps)
            res = run_udf(udf, frames, tiling=tiles, tile_depth=depth)
            stack = masks.sparse_template_multi_stack(
                mask_index=range((2 * steps + 1) ** 2),
                offsetX=np.array([peaks[0, 1] + dx - c for dy in range(-steps, steps + 1) for dx in range(-steps, steps + 1)]),
                offsetY=np.array([peaks[0, 0] + dy - c for dy in range(-steps, steps + 1) for dx in range(-steps, steps + 1)]),
                template=pat.get_mask((2 * c + 1, 2 * c + 1)), imageSizeX=sx, imageSizeY=sy).todense()
            want = np.zeros((nfr, (2 * steps + 1) ** 2))
            for lo in range(0, nfr, depth):
                hi = min(lo + depth, nfr)
                for (oy, ox), (th, tw) in tiles:
                    t = frames[lo:hi, oy:oy + th, ox:ox + tw]
                    arg = np.array([float(Fraction(v)) for v in d2.ask("logarg frame " + " ".join(rat(float(v)) for v in t.ravel())).split()]).reshape(t.shape)
                    want[lo:hi] += np.einsum("kyx,fyx->fk", stack[:, oy:oy + th, ox:ox + tw], np.log(arg))
            msgs = []
            got = res["corr"].data
            if np.abs(got - want).max() > 2e-4 * max(1.0, np.abs(want).max()):
                msgs.append(f"SparseCorrelationUDF corr buffer differs from the per-tile model by {np.abs(got - want).max()}")
            ctx.corr_case("sparse_tiles", {"frames": frames, "peaks": peaks, "tiles": tiles, "depth": depth}, msgs,
                          nontrivial=len(tiles) > 1 or depth > 1)
    finally:
        d2.close()


def standalone(pipeline, pattern, frames, peaks, zs, us):
    """per frame: the stand-alone result with peaks rounded and shifted by the rounded zero shift"""
    out = []
    for f in range(len(frames)):
        z = np.zeros(2) if zs is None else (np.asarray(zs) if np.ndim(zs) == 1 else np.asarray(zs)[f])
        pk = np.round(peaks).astype(int) + np.round(z).astype(int)
        fn = cc.process_frames_fast if pipeline == "fast" else cc.process_frames_full
        r = fn(pattern, frames[f:f + 1], pk, upsample=us)
        out.append(tuple(np.asarray(a[0]) for a in r))
    return out


def make_frames(q, rng):
    shape = tuple(q["shape"])
    frames = np.stack([np.zeros(shape, np.float32) if fk == "zero" else impl.noise_frame(rng, shape, fk)
                       for fk in q["frame_kinds"]])
    if q.get("dtype"):
        frames = np.round(frames).clip(0, 60000).astype(q["dtype"])
        if q.get("level"):       # integer counts on a large constant level (summed / offset detector data)
            frames = frames + np.asarray(q["level"], dtype=q["dtype"])
    return frames


def run_case(kind, q):
    rng = np.random.default_rng(q["seed"])
    msgs = []
    with warnings.catch_warnings():
        warnings.simplefilter("ignore")
        pattern = impl.pattern_from(q["pattern"])
        if q.get("asym"):
            # a user template that is wider than tall (or taller than wide), with irregular content
            from libertem_blobfinder.common import patterns as pt_
            tmpl = np.random.default_rng(q["seed"] + 7).uniform(0.2, 1.0, tuple(q["asym"]["shape"])).astype(np.float32)
            pattern = pt_.UserTemplate(template=tmpl, search=q["asym"]["search"])
        shape = tuple(q["shape"])
        frames = make_frames(q, rng)
        peaks = np.asarray(q["peaks"], dtype=np.float64)
        if kind == "frame_udfs":
            zs = q["zero_shift"]
            for pipeline, cls in (("fast", FastCorrelationUDF), ("full", FullFrameCorrelationUDF)):
                try:
                    zarg = None if zs is None else (np.asarray(zs) if np.ndim(zs) == 1 else
                                                    cls.aux_data(np.asarray(zs), kind="nav", extra_shape=(2,), dtype=np.float64))
                    kw = {"peaks": peaks, "match_pattern": pattern, "zero_shift": zarg, "upsample": q["upsample"]}
                    if q["limit"] is not None:
                        kw["__limit"] = q["limit"]
                    backend = q["backend"] if pipeline == "fast" else UDF.BACKEND_NUMPY
                    res = run_udf(cls(**kw), frames, partitions=q["partitions"], backend=backend)
                except Exception as e:
                    msgs.append(f"{cls.__name__} raised {type(e).__name__}: {e}")
                    continue
                ref = standalone(pipeline, pattern, frames, peaks, zs, q["upsample"])
                for f in range(len(frames)):
                    # an exact tie of the maximum (a strip frame narrower than the mask: neighbouring columns see the same pixels) is
                    # decided by rounding, which differs between two correct runs: where the centres differ and the independent
                    # float64 reference map has, at the other centre, a value within float32 rounding of its maximum, the entry is
                    # compared by this rule only
                    tied = np.zeros(len(peaks), dtype=bool)
                    ca, cb = np.asarray(res["centers"].data[f]), np.asarray(ref[f][0])
                    # (a constant frame log-scales to exact zeros and its correlation map is exactly zero in any float arithmetic:
                    # nothing is rounded there, the stand-alone result is what it is, and no difference is excused)
                    if ca.shape == cb.shape and np.any(ca != cb) and np.ptp(np.asarray(frames[f], dtype=np.float64)) > 0:
                        import refimpl
                        z_ = np.zeros(2) if zs is None else (np.asarray(zs) if np.ndim(zs) == 1 else np.asarray(zs)[f])
                        pk_ = np.round(peaks).astype(int) + np.round(z_).astype(int)
                        c_ = pattern.get_crop_size()
                        for j_ in np.flatnonzero(np.any(ca != cb, axis=1)):
                            m_ = refimpl.ref_maps(frames[f].astype(np.float64), pattern, pk_[j_:j_ + 1], pipeline)[0]
                            ok_ = True
                            for cen_ in (ca[j_], cb[j_]):
                                rel = (np.asarray(cen_) - pk_[j_] + c_).astype(int)
                                ok_ &= bool(np.all(rel >= 0) and np.all(rel < 2 * c_) and np.ptp(m_) > 0
                                            and m_[rel[0], rel[1]] >= m_.max() - 2e-4 * max(1.0, abs(m_.max())))
                            tied[j_] = ok_
                    for nm, ri in zip(("centers", "refineds", "peak_values", "peak_elevations"), range(4)):
                        a, b = np.asarray(res[nm].data[f], dtype=np.float64), np.asarray(ref[f][ri], dtype=np.float64)
                        if tied.any() and a.shape == b.shape and len(a) == len(tied):
                            if nm == "peak_values":
                                pass                      # the height is the same at both maximisers
                            else:
                                a, b = a[~tied], b[~tied]
                        tol = 0 if nm == "centers" else 2e-4 * np.maximum(1.0, np.abs(b))
                        if np.any(np.abs(a - b) > tol) or not np.isfinite(a).all() and np.isfinite(b).all():
                            msgs.append(f"{cls.__name__} partitions {q['partitions']} limit {q['limit']} backend {backend} "
                                        f"zero_shift {'per-frame' if np.ndim(zs) == 2 else zs}: frame {f} {nm} differ from the "
                                        f"stand-alone result (max {np.nanmax(np.abs(a - b)):.4g})")
                            break
        elif kind == "sparse":
            steps = q["steps"]
            ipeaks = np.round(peaks).astype(int)
            try:
                base = run_udf(SparseCorrelationUDF(peaks=peaks, match_pattern=pattern, steps=steps), frames,
                               partitions=q["partitions"])
                tiled = run_udf(SparseCorrelationUDF(peaks=peaks, match_pattern=pattern, steps=steps), frames,
                                partitions=q["partitions"], tiling=[tuple(map(tuple, t)) for t in q["tiling"]],
                                tile_depth=q["depth"])
            except Exception as e:
                return [f"SparseCorrelationUDF raised {type(e).__name__}: {e}"]
            for nm in ("corr", "centers", "refineds", "peak_values", "peak_elevations"):
                a, b = np.asarray(base[nm].data, dtype=np.float64), np.asarray(tiled[nm].data, dtype=np.float64)
                if np.any(np.abs(a - b) > 2e-4 * np.maximum(1.0, np.abs(a))):
                    msgs.append(f"SparseCorrelationUDF: {nm} depends on the tiling {q['tiling']} depth {q['depth']} "
                                f"(max difference {np.abs(a - b).max():.4g})")
                    break
            # direct correlation of the log-scaled frame with the mask at the offsets
            c = pattern.get_crop_size()
            mask = np.asarray(pattern.get_mask((2 * c + 1, 2 * c + 1)), dtype=np.float64)
            for f in range(len(frames)):
                fr = frames[f].astype(np.float64)
                lg = np.log(fr - fr.min() + 1)
                want = []
                for p in ipeaks:
                    for dy in range(-steps, steps + 1):
                        for dx in range(-steps, steps + 1):
                            tot = 0.0
                            for my in range(2 * c + 1):
                                for mx in range(2 * c + 1):
                                    yy, xx = p[0] + dy - c + my, p[1] + dx - c + mx
                                    if 0 <= yy < shape[0] and 0 <= xx < shape[1]:
                                        tot += mask[my, mx] * lg[yy, xx]
                            want.append(tot)
                want = np.array(want)
                got = np.asarray(base["corr"].data[f], dtype=np.float64)
                if np.abs(got - want).max() > 2e-4 * max(1.0, np.abs(want).max()):
                    msgs.append(f"SparseCorrelationUDF (single tile): corr of frame {f} differs from the direct correlation "
                                f"of the log-scaled frame by {np.abs(got - want).max():.4g}")
                    break
            # "it rejects a zero shift": any zero shift that is given -- a constant one, one per frame, also one whose entries
            # all happen to be zero (the stamped masks cannot follow a shift; a caller that passes one is told so)
            for zs_ in (np.array([1.0, 0.0]), np.zeros(2), (0, 0), np.zeros((len(frames), 2)), [0.0, -0.0],
                        np.array([0.0, 1e-9]), np.zeros(2, dtype=np.int64)):
                try:
                    SparseCorrelationUDF(peaks=peaks, match_pattern=pattern, steps=steps, zero_shift=zs_)
                    msgs.append(f"SparseCorrelationUDF accepted zero_shift={np.asarray(zs_).tolist()}")
                except ValueError:
                    pass
    return msgs[:6]


def classify(kind, q, msgs):
    """D10: the tiling dependence disappears when log_scale uses a minimum that does not depend on the tile"""
    if kind != "sparse" or not all("depends on the tiling" in m for m in msgs):
        return None
    orig = ltbc.log_scale
    rng = np.random.default_rng(q["seed"])
    frames = make_frames(q, rng)       # the frames of the case, exactly as run_case builds them
    m0 = float(frames.min())

    def fixed_min(data, out):
        return np.log(np.asarray(data, dtype=np.float64) - m0 + 1)
    ltbc.log_scale = fixed_min
    try:
        again = run_case(kind, q)
    finally:
        ltbc.log_scale = orig
    return "D10" if not any("depends on the tiling" in m for m in again) else None


def gen(rng, k):
    pat = impl.pattern_params(rng, kinds=("radial_gradient", "background_subtraction", "circular"), rmin=2, rmax=4)
    c = int(np.ceil(pat["search"]))
    shape = [int(rng.integers(2 * c + 4, 36)), int(rng.integers(2 * c + 4, 36))]
    nfr = int(rng.integers(1, 9))
    npk = int(rng.integers(1, 7))
    peaks = np.stack([rng.uniform(-1, shape[0] + 1, npk), rng.uniform(-1, shape[1] + 1, npk)], axis=1)
    if k % 2:
        peaks = np.round(peaks)
    zmode = k % 4
    zs = [None, [float(np.round(rng.uniform(-3, 3), 2)), float(np.round(rng.uniform(-3, 3), 2))],
          np.round(rng.uniform(-3, 3, (nfr, 2)), 2).tolist(), (rng.integers(-3, 4, (nfr, 2)) + 0.5).tolist()][zmode]
    itemsize = 4
    full = (2 * c) ** 2 * itemsize
    return {"seed": int(rng.integers(1 << 30)), "pattern": pat, "shape": shape,
            "frame_kinds": [("poisson", "gauss", "disks", "zero")[int(rng.integers(4))] if k % 4 == 1 else
                            ("poisson", "gauss", "disks")[int(rng.integers(3))] for _ in range(nfr)],
            "peaks": peaks.tolist(), "zero_shift": zs, "partitions": partitions_of(rng, nfr),
            "limit": [None, 1, full, 2 * full + 3, npk * full, 10 * npk * full][k % 6],
            "upsample": [False, 4][(k // 3) % 2], "backend": [UDF.BACKEND_NUMPY, UDF.BACKEND_SPARSE_COO][(k // 2) % 2],
            "dtype": [None, "uint16", "float64", "int32", "uint32", "int64"][k % 6] if (k // 6) % 2 else [None, "uint16", "float64"][k % 3],
            "level": {3: 2 ** 30, 4: 3 * 2 ** 30, 5: 2 ** 40}.get(k % 6, 0) if (k // 6) % 2 else 0}


def search(ctx, boost=1, focus=()):
    rng = np.random.default_rng(ctx.seed + 1010)
    n = (120 if ctx.tier == "thorough" else 24) * boost
    for k in range(n):
        q = gen(rng, k)
        if k % 5 == 3:
            # a search range that ends where the pattern ends (search == radius / outer radius): the pattern reaches the edge of its
            # search window
            pt_ = dict(q["pattern"])
            pt_["search"] = float(pt_.get("radius_outer", pt_["radius"]))
            q["pattern"] = pt_
            ctx.count("frame_udfs_tight_search")
        if k % 6 in (2, 4):
            # a strip detector: the frame is narrower than the search window along one axis (or both), every window sticks out
            # at both ends; the crop back-end that slices (sparse frames) and the one that loops (NumPy) alternate
            c_ = int(np.ceil(q["pattern"]["search"]))
            if c_ >= 2:
                ax_ = int(rng.integers(2))
                sh_ = list(q["shape"])
                sh_[ax_] = int(rng.integers(3, 2 * c_))
                if k % 12 == 4:
                    sh_[1 - ax_] = int(rng.integers(3, 2 * c_))
                q["shape"] = sh_
                pk_ = np.asarray(q["peaks"])
                q["peaks"] = np.stack([np.clip(pk_[:, 0], -1, sh_[0]), np.clip(pk_[:, 1], -1, sh_[1])], axis=1).tolist()
                q["backend"] = UDF.BACKEND_SPARSE_COO if (k // 6) % 3 != 2 else UDF.BACKEND_NUMPY
                ctx.count("frame_udfs_strip_" + str(q["backend"]))
        msgs = run_case("frame_udfs", q)
        ctx.oracle_case("frame_udfs", q, msgs, nontrivial=len(q["partitions"]) > 1)
        ctx.count("zero_shift_mode_%d" % (k % 4))
    for k in range(max(4, n // 3)):
        q = gen(rng, k)
        q["peaks"] = np.round(np.clip(np.asarray(q["peaks"]), 2, np.array(q["shape"]) - 3)).tolist()
        q.update({"steps": int(rng.integers(1, 3)), "tiling": tilings_of(rng, *q["shape"]), "depth": int(rng.integers(1, 4)),
                  "dtype": None, "level": 0,
                  # no all-zero frames here: their correlation map is constant, every position is a maximiser and the reported
                  # centre depends on the order of summation (an exact tie, nothing the statement decides)
                  "frame_kinds": ["poisson" if fk == "zero" else fk for fk in q["frame_kinds"]]})
        if k % 4 == 1:
            # a tight search range: the stamped template is non-zero up to its last row and column
            pt_ = dict(q["pattern"])
            pt_["search"] = float(pt_.get("radius_outer", pt_["radius"]))
            q["pattern"] = pt_
            sy_, sx_ = q["shape"]
            q["tiling"] = [((y, 0), (1, sx_)) for y in range(sy_)] if k % 8 == 1 else [((0, x), (sy_, 1)) for x in range(sx_)]
            ctx.count("sparse_tight_search")
        if k % 3 == 2 and int(np.ceil(q["pattern"]["search"])) >= 3:
            c_ = int(np.ceil(q["pattern"]["search"]))
            hh, ww = int(rng.integers(2, 4)), int(rng.integers(5, 2 * c_))
            q["asym"] = {"shape": [hh, ww] if k % 2 else [ww, hh], "search": float(c_)}
        msgs = run_case("sparse", q)
        ctx.oracle_case("sparse", q, msgs, key=classify("sparse", q, msgs) if msgs else None,
                        nontrivial=len(q["tiling"]) > 1 or q["depth"] > 1)
        ctx.count("sparse")
