"""C11 — refinement and integration UDFs equal the library functions per frame."""
import warnings

import numpy as np

import impl
from libertem.runner import Context, MemoryDataSet, run_udf
import libertem_blobfinder.common.gridmatching as grm
from libertem_blobfinder.base.utils import frame_peaks
from libertem_blobfinder.base import masks
from libertem_blobfinder.udf.refinement import run_refine
from libertem_blobfinder.udf.integration import IntegrationUDF
from libertem_blobfinder.udf.correlation import FastCorrelationUDF
from props.C10 import partitions_of

PROP = "C11"
LEAN_MODULE = "BlobfinderModel.Properties.C11"
GEN_FILES = ["Udf", "Lattice", "Crop", "Patterns"]
FRAGMENTS = ["refinement", "integration", "correlation_udfs", "within_frame", "calc_coords", "regularize", "crop_cell",
             "mask_center"]
DRIVER = "drvlattice"
RULE = ("correspondence: method-name dispatch of run_refine for a grid of names vs the generated dispatch tables (accepted "
        "class / ValueError); oracle: run_refine through the protocol runner for datasets of 1..6 frames, partitionings, "
        "lattices, zero shifts (none / constant / per frame), matcher settings, {fast, fullframe, sparse} x {fast, affine}, "
        "both index layouts: per frame zero/a/b/selector/error vs the matcher called on that frame's stored correlation "
        "result with start zero + zero_shift[frame] (independent copies of the inputs; the caller's arrays must stay "
        "unchanged), returned indices vs frame_peaks with margin pattern.search; IntegrationUDF vs the zero-padded masked "
        "sum for per-frame integer peaks incl. border / outside. Non-trivial: more than one frame and a non-zero zero "
        "shift (distinct = case hashes).")
ASSUMPTIONS = ["A-LT: LiberTEM is not installed; protocol stand-in harness/stubs/libertem",
               "matcher numerics inherit C05's residual"]

NAMES = ["fast", "sparse", "fullframe", "affine", "full", "Fast", "", "fullmatch", "fastmatch", "none"]


def corr(ctx, drv):
    ds = MemoryDataSet(np.zeros((1, 16, 16), np.float32))
    pat = impl.make_pattern("radial_gradient", 2.0)
    for cname in NAMES:
        for mname in NAMES:
            mo = drv.ask(f"udf dispatch {cname or 'EMPTY'} {mname or 'EMPTY'}").split()
            want_err = "ValueError" in mo
            msgs = []
            with warnings.catch_warnings():
                warnings.simplefilter("ignore")
                try:
                    run_refine(Context(), ds, zero=np.array([8., 8.]), a=np.array([4., 0.]), b=np.array([0., 4.]),
                               match_pattern=pat, matcher=grm.Matcher(), correlation=cname, match=mname,
                               indices=np.mgrid[-1:2, -1:2], steps=1)
                    if want_err:
                        msgs.append(f"run_refine accepted correlation={cname!r} match={mname!r}; model: {mo}")
                except ValueError:
                    if not want_err:
                        msgs.append(f"run_refine rejected correlation={cname!r} match={mname!r}; model: {mo}")
                except Exception as e:
                    msgs.append(f"run_refine({cname!r}, {mname!r}) raised {type(e).__name__}: {e}")
            ctx.corr_case("dispatch", {"correlation": cname, "match": mname}, msgs, nontrivial=not want_err,
                          hkey=("disp", cname, mname))


def gen(rng, k):
    radius = float(rng.integers(2, 4))
    a = np.array([rng.uniform(9, 13), rng.uniform(-1, 1)])
    b = np.array([rng.uniform(-1, 1), rng.uniform(9, 13)])
    shape = [int(rng.integers(44, 64)), int(rng.integers(44, 64))]
    zero = np.array([shape[0] / 2 + rng.uniform(-2, 2), shape[1] / 2 + rng.uniform(-2, 2)])
    # search radius: integer or fractional; in "sliver" mode a lattice row / column is placed at a distance from the
    # border inside [search, ceil(search)) or just below search, where margin rules that round the radius differ
    search = radius * 2 + float(rng.choice([0.0, 0.25, 0.5, 0.75]))
    sliver = k % 4
    if sliver in (1, 2):
        ax = sliver - 1
        side = int(rng.integers(0, 2))
        d = search + float(rng.choice([-0.2, 0.1, 0.3, 0.6, 0.9])) * (1.0 if search != int(search) else 0.45)
        target = d if side == 0 else shape[ax] - d - 1e-3 * (search == int(search))
        step = (a if ax == 0 else b)[ax]
        kk = int(round((target - zero[ax]) / step))
        zero[ax] = target - kk * step
    steps = 3
    corr_name = ("fast", "fullframe", "sparse")[(k // 3) % 3]
    if k % 7 == 5:
        # a search radius below the number of sparse steps (run_refine's default is steps=5): the margin is the pattern's search
        # radius for every correlation method; a lattice row / column sits between search and steps from a border
        radius, steps = 2.0, 5
        search = float(rng.choice([3.0, 3.5, 4.25]))
        ax, side = int(rng.integers(0, 2)), int(rng.integers(0, 2))
        d = search + float(rng.uniform(0.1, 0.9)) * (steps - search)
        target = d if side == 0 else shape[ax] - d - 1e-3
        step = (a if ax == 0 else b)[ax]
        kk = int(round((target - zero[ax]) / step))
        zero[ax] = target - kk * step
        corr_name = ("sparse", "sparse", "fast", "fullframe")[(k // 7) % 4]
    nfr = int(rng.integers(1, 7))
    zmode = k % 3
    zs = [None, np.round(rng.uniform(-2, 2, 2), 2).tolist(), np.round(rng.uniform(-2, 2, (nfr, 2)), 2).tolist()][zmode]
    return {"seed": int(rng.integers(1 << 30)), "radius": radius, "search": search, "shape": shape, "zero": zero, "a": a, "b": b,
            "nframes": nfr, "zero_shift": zs, "partitions": partitions_of(rng, nfr), "steps": steps, "exact_min_match": k % 4 == 2,
            "correlation": corr_name, "match": ("fast", "affine")[k % 2],
            "layout": ("mgrid", "list", "mgrid", "pair2", "list", "mgrid")[(k // 2) % 6],
            "pairs": [[[0, 0], [1, 0]], [[0, 1], [-1, 1]], [[1, 2], [0, -1]], [[0, 0], [0, 1]]][int(rng.integers(4))], "tolerance": float(rng.choice([1.0, 1.5, 3.0])),
            "zero_as": ("ndarray", "tuple")[(k // 4) % 2]}


def render(q, rng):
    shape = tuple(q["shape"])
    frames = []
    idx = np.mgrid[-3:4, -3:4].reshape(2, -1).T
    for f in range(q["nframes"]):
        zs = q["zero_shift"]
        z = np.zeros(2) if zs is None else (np.asarray(zs) if np.ndim(zs) == 1 else np.asarray(zs)[f])
        fr = rng.poisson(2, shape).astype(np.float32)
        for i, j in idx:
            p = np.asarray(q["zero"]) + z + i * np.asarray(q["a"]) + j * np.asarray(q["b"]) + rng.normal(0, 0.2, 2)
            if 0 <= p[0] < shape[0] and 0 <= p[1] < shape[1]:
                fr += masks.circular(centerX=p[1], centerY=p[0], imageSizeX=shape[1], imageSizeY=shape[0],
                                     radius=q["radius"], antialiased=True).astype(np.float32) * float(rng.uniform(30, 90))
        frames.append(fr)
    return np.stack(frames)


def frame_margin_keep(flat_idx, zero, a, b, r, shape):
    """the margin rule of the statement; None when a position is within 1e-9 of a margin"""
    pos = zero + flat_idx[:, :1] * a + flat_idx[:, 1:] * b
    dist = np.min(np.abs(np.stack([pos[:, 0] - r, shape[0] - r - pos[:, 0], pos[:, 1] - r, shape[1] - r - pos[:, 1]])), axis=0)
    if np.any(dist <= 1e-9):
        return None
    return (pos[:, 0] >= r) & (pos[:, 0] < shape[0] - r) & (pos[:, 1] >= r) & (pos[:, 1] < shape[1] - r)


def run_case(kind, q):
    rng = np.random.default_rng(q["seed"])
    msgs = []
    with warnings.catch_warnings():
        warnings.simplefilter("ignore")
        if kind == "refine":
            frames = render(q, rng)
            pat = impl.make_pattern("background_subtraction", q["radius"], search=q.get("search", q["radius"] * 2), radius_outer=q["radius"] * 1.5)
            # (second pass, some cases: the matcher's min_match set to EXACTLY the number of usable peaks of frame 0 -- a frame with
            # just enough peaks is matched like any other)
            mm_ = 3
            for pass_ in range(2 if q.get("exact_min_match") and q["match"] == "fast" else 1):
                matcher = grm.Matcher(tolerance=q["tolerance"], min_weight=0.1, min_match=mm_)
                zero0, a0, b0 = (np.array(q[k], dtype=np.float64) for k in ("zero", "a", "b"))
                zero_arg = zero0.copy() if q["zero_as"] == "ndarray" else tuple(zero0.tolist())
                a_arg, b_arg = a0.copy(), b0.copy()
                indices = np.mgrid[-3:4, -3:4] if q["layout"] == "mgrid" else np.mgrid[-3:4, -3:4].reshape(2, -1).T.copy()
                if q["layout"] == "pair2":        # a list of exactly two (i, j) pairs: shape (2, 2), still the list layout
                    indices = np.array(q["pairs"])
                if q["layout"] == "satellites":
                    # an index list with repeated entries and fractional (satellite) indices a fraction of a pixel away from a
                    # main position: every listed position is correlated and returned, in the order given
                    rs_ = np.random.default_rng(q["seed"] + 77)
                    base_ = np.mgrid[-2:3, -2:3].reshape(2, -1).T.astype(np.float64)
                    sat_ = base_[rs_.integers(0, len(base_), 6)] + rs_.choice([0.0, 0.02, -0.03, 0.04], (6, 2))
                    indices = np.concatenate([base_, sat_, base_[rs_.integers(0, len(base_), 3)]])
                    indices = indices[rs_.permutation(len(indices))]
                zs = q["zero_shift"]
                corr_name = q["correlation"]
                if corr_name == "sparse":
                    zs = None
                zarg = None if zs is None else (np.asarray(zs, dtype=np.float64) if np.ndim(zs) == 1 else
                                                FastCorrelationUDF.aux_data(np.asarray(zs), kind="nav", extra_shape=(2,), dtype=np.float64))
                ds = MemoryDataSet(frames)
                # observe which correlation UDF actually does the work ("dispatches to the requested correlation method")
                import libertem_blobfinder.udf.correlation as ucorr
                ran = set()
                saved = {}
                for cname_, cls_, meth_ in (("fast", ucorr.FastCorrelationUDF, "process_frame"),
                                            ("fullframe", ucorr.FullFrameCorrelationUDF, "process_frame"),
                                            ("sparse", ucorr.SparseCorrelationUDF, "process_tile")):
                    orig_ = cls_.__dict__[meth_]
                    saved[(cls_, meth_)] = orig_

                    def mk(orig_=orig_, cname_=cname_):
                        def wrapped(self, *a_, **k_):
                            ran.add(cname_)
                            return orig_(self, *a_, **k_)
                        return wrapped
                    setattr(cls_, meth_, mk())
                try:
                    res, used = run_refine(Context(partitions=q["partitions"]), ds, zero=zero_arg, a=a_arg, b=b_arg,
                                           match_pattern=pat, matcher=matcher, correlation=corr_name, match=q["match"],
                                           indices=indices, steps=q.get("steps", 3), zero_shift=zarg)
                except Exception as e:
                    return [f"run_refine({corr_name}, {q['match']}) raised {type(e).__name__}: {e}"]
                finally:
                    for (cls_, meth_), orig_ in saved.items():
                        setattr(cls_, meth_, orig_)
                if ran != {corr_name}:
                    msgs.append(f"run_refine(correlation={corr_name!r}) ran the correlation method(s) {sorted(ran)}")
                if q["zero_as"] == "ndarray" and not np.array_equal(zero_arg, zero0):
                    msgs.append(f"run_refine modified the caller's zero array: {zero0.tolist()} -> {np.asarray(zero_arg).tolist()}")
                want_idx, want_peaks = frame_peaks(fy=q["shape"][0], fx=q["shape"][1], zero=zero0, a=a0, b=b0, r=pat.search,
                                                   indices=indices)
                if not np.array_equal(used, want_idx):
                    msgs.append("returned indices are not the lattice positions with margin pattern.search")
                # independent of frame_peaks: the half-open margin rule of the statement, r = pattern.search
                flat_idx = indices.reshape(2, -1).T if q["layout"] == "mgrid" else indices
                if q["layout"] == "satellites":
                    keep_ = frame_margin_keep(flat_idx, zero0, a0, b0, float(pat.search), q["shape"])
                    if keep_ is not None and not np.array_equal(np.asarray(used, dtype=np.float64), flat_idx[keep_]):
                        msgs.append(f"run_refine returned {len(used)} indices for an index list with repeated / fractional entries, "
                                    f"{int(keep_.sum())} listed positions keep the margin (returned: not the listed ones in order)")
                    flat_idx = np.zeros((0, 2))
                pos = zero0 + flat_idx[:, :1] * a0 + flat_idx[:, 1:] * b0
                r_ = float(pat.search)
                keep = (pos[:, 0] >= r_) & (pos[:, 0] < q["shape"][0] - r_) & (pos[:, 1] >= r_) & (pos[:, 1] < q["shape"][1] - r_)
                # positions closer than 1e-9 to a margin are left out of the comparison (float rounding of zero + i*a + j*b)
                dist = np.min(np.abs(np.stack([pos[:, 0] - r_, q["shape"][0] - r_ - pos[:, 0], pos[:, 1] - r_, q["shape"][1] - r_ - pos[:, 1]])), axis=0)
                sure = dist > 1e-9
                used_set = {tuple(int(v) for v in u) for u in np.asarray(used).reshape(-1, 2)}
                for ii, (ix, kp, su) in enumerate(zip(flat_idx, keep, sure)):
                    if su and (tuple(int(v) for v in ix) in used_set) != bool(kp):
                        msgs.append(f"run_refine {'dropped' if kp else 'kept'} lattice index {ix.tolist()} at {pos[ii].tolist()} although "
                                    f"the margin rule search={r_} <= p < {q['shape']} - search says otherwise")
                        break
                for f in range(q["nframes"]):
                    z = np.zeros(2) if zs is None else (np.asarray(zs) if np.ndim(zs) == 1 else np.asarray(zs)[f])
                    args = dict(centers=res["centers"].data[f], refineds=res["refineds"].data[f],
                                peak_values=res["peak_values"].data[f], peak_elevations=res["peak_elevations"].data[f])
                    ref_matcher = grm.Matcher(tolerance=q["tolerance"], min_weight=0.1, min_match=mm_)
                    if q["match"] == "fast":
                        m = ref_matcher.fastmatch(zero=zero0 + z, a=a0, b=b0, **args)
                    else:
                        m = ref_matcher.affinematch(indices=want_idx, **args)
                    for nm, want in (("zero", m.zero), ("a", m.a), ("b", m.b), ("selector", m.selector), ("error", m.error)):
                        got = res[nm].data[f]
                        w = np.asarray(want, dtype=res[nm].data.dtype)
                        if not np.array_equal(np.asarray(got).ravel(), np.asarray(w).ravel(), equal_nan=True):
                            msgs.append(f"run_refine({corr_name}, {q['match']}) partitions {q['partitions']} zero_shift "
                                        f"{'per-frame' if np.ndim(zs) == 2 else zs} zero as {q['zero_as']}: frame {f} stored {nm} "
                                        f"{np.asarray(got).tolist()} but the matcher returns {np.asarray(w).tolist()} for this frame")
                            break
                # correlated peak positions: rounded lattice positions + rounded zero shift
                if corr_name != "sparse":
                    for f in range(q["nframes"]):
                        z = np.zeros(2) if zs is None else (np.asarray(zs) if np.ndim(zs) == 1 else np.asarray(zs)[f])
                        pk = want_peaks.astype(int) + np.round(z).astype(int)
                        c = pat.get_crop_size()
                        if res["centers"].data[f].shape != pk.shape:
                            msgs.append(f"frame {f}: {res['centers'].data[f].shape[0]} positions were correlated, the margin rule "
                                        f"with r = pattern.search selects {pk.shape[0]}")
                            break
                        d = res["centers"].data[f] - pk
                        if np.any(d < -c) or np.any(d > c - 1):
                            msgs.append(f"frame {f}: centres are not within the windows of the lattice positions shifted by the zero shift")
                            break
                if pass_ == 0 and q.get("exact_min_match"):
                    n0 = int(np.count_nonzero(np.asarray(res["peak_elevations"].data[0]) >= 0.1))
                    if n0 < 3 or msgs:
                        break
                    mm_ = n0
        elif kind == "integration":
            shape = tuple(q["shape"])
            frames = rng.poisson(20, (q["nframes"],) + shape).astype(q["dtype"])
            if q.get("level"):
                # counts on a large constant level (summed / offset detector data in a 32- or 64-bit integer dtype): exact in the
                # integer dtype and in float64
                frames = frames + np.asarray(q["level"], dtype=q["dtype"])
            pat = impl.pattern_from(q["pattern"])
            if q.get("asym"):
                from libertem_blobfinder.common import patterns as pt_
                c0 = pat.get_crop_size()
                tmpl = np.random.default_rng(q["seed"] + 5).uniform(0, 1, (2 * c0 - 1, 2 * c0 + 1)).astype(np.float32)
                pat = pt_.UserTemplate(template=tmpl, search=float(c0))
            c = pat.get_crop_size()
            centers = np.asarray(q["centers"], dtype=np.int64)
            aux = IntegrationUDF.aux_data(centers, kind="nav", extra_shape=centers.shape[1:], dtype=np.int64)
            try:
                res = run_udf(IntegrationUDF(centers=aux, pattern=pat), frames, partitions=q["partitions"])
            except Exception as e:
                return [f"IntegrationUDF raised {type(e).__name__}: {e}"]
            mask = np.asarray(pat.get_mask((2 * c, 2 * c)), dtype=np.float64)
            import refimpl
            for f in range(q["nframes"]):
                f64 = frames[f].astype(np.float64)
                for k_, p in enumerate(centers[f]):
                    win_ = mask * refimpl.window(f64, c, p)
                    tot = float(win_.sum())      # zero-padded window, plain sum
                    got = float(res["integration"].data[f, k_])
                    # every pixel value is exact in float64 (and in float32 for float32 frames) and so is each product with the
                    # float64 mask up to one rounding: the sum may differ by float64 summation error only
                    # ... plus the rounding of the result to the result buffer's dtype (float32 for 8/16-bit and float32 frames)
                    rdt_ = np.asarray(res["integration"].data).dtype
                    if abs(got - tot) > 1e-9 * float(np.abs(win_).sum()) + 1e-9 + 4 * float(np.finfo(rdt_).eps) * float(np.abs(win_).sum()) * (rdt_ == np.float32):
                        msgs.append(f"IntegrationUDF frame {f} peak {p.tolist()}: {got} != masked sum {tot}")
                        break
    return msgs[:6]


def search(ctx, boost=1, focus=()):
    rng = np.random.default_rng(ctx.seed + 1011)
    n = (72 if ctx.tier == "thorough" else 18) * boost
    for k in range(n):
        q = gen(rng, k)
        ctx.oracle_case("refine", q, run_case("refine", q), nontrivial=q["nframes"] > 1 and q["zero_shift"] is not None)
        ctx.count(f"refine_{q['correlation']}_{q['match']}")
    for k in range((12 if ctx.tier == "thorough" else 4) * boost):
        q = gen(rng, 6 * k)
        q["layout"] = "satellites"
        q["exact_min_match"] = False
        q["correlation"] = ("fast", "fullframe", "sparse")[k % 3]
        q["match"] = ("fast", "affine")[(k // 3) % 2]
        ctx.oracle_case("refine", q, run_case("refine", q), nontrivial=True)
        ctx.count(f"refine_satellites_{q['correlation']}_{q['match']}")
    # a constant zero shift with very different components, partitions of exactly as many frames as the shift has components (and
    # of 1 and 3 frames next to them), the tightest tolerance: every frame starts from the given lattice shifted by (y, x)
    for k in range((8 if ctx.tier == "thorough" else 3) * boost):
        q = gen(rng, 2 * k)
        q.update({"nframes": [2, 4, 5][k % 3], "partitions": [[[0, 1]], [[0, 1], [2, 3]], [[0], [1, 2], [3, 4]]][k % 3],
                  "zero_shift": [[-2.0, 2.0], [2.0, -2.0], [-1.75, 2.0]][(k // 3) % 3], "tolerance": 1.0, "match": "fast",
                  "correlation": ("fast", "fullframe")[k % 2], "exact_min_match": False, "layout": ("mgrid", "list")[(k // 2) % 2]})
        ctx.oracle_case("refine", q, run_case("refine", q), nontrivial=True)
        ctx.count("refine_constant_shift_two_frame_partitions")
    for k in range(max(6, n // 2)):
        pat = impl.pattern_params(rng, kinds=("circular", "background_subtraction", "radial_gradient"), rmin=2, rmax=4)
        c = int(np.ceil(pat["search"]))
        shape = [int(rng.integers(2 * c + 2, 30)), int(rng.integers(2 * c + 2, 30))]
        nfr, npk = int(rng.integers(1, 7)), int(rng.integers(1, 5))
        dtype = ["float32", "uint16", "float64"][k % 3]
        if k < 2:
            # more peaks per frame than crops of this size fit into the library's default buffer limit (2**19 bytes)
            pat = dict(pat, radius=4.0, search=float(rng.integers(10, 14)))
            pat.pop("radius_outer", None)
            pat["kind"] = "circular"
            c = int(np.ceil(pat["search"]))
            dtype = ["float64", "int32"][k]
            shape = [int(rng.integers(2 * c + 2, 50)), int(rng.integers(2 * c + 2, 50))]
            nfr, npk = int(rng.integers(1, 4)), 2 ** 19 // ((2 * c) ** 2 * 8) + int(rng.integers(1, 30))
            ctx.count("integration_many_peaks")
        centers = np.stack([rng.integers(-2 * c, shape[0] + 2 * c, (nfr, npk)), rng.integers(-2 * c, shape[1] + 2 * c, (nfr, npk))], axis=-1)
        if k >= 2:
            # windows that share exactly one row / column with the frame, and the first positions that share none (both ends of
            # both axes); the other coordinate anywhere within reach
            ax_ = int(rng.integers(2))
            edge = [-c, -c - 1, shape[ax_] - 1 + c, shape[ax_] + c, -c + 1, shape[ax_] - 2 + c]
            for f_ in range(nfr):
                j_ = int(rng.integers(npk))
                centers[f_, j_, ax_] = edge[(k + f_) % len(edge)]
                centers[f_, j_, 1 - ax_] = int(rng.integers(0, shape[1 - ax_]))
        q = {"seed": int(rng.integers(1 << 30)), "pattern": pat, "shape": shape, "nframes": nfr, "centers": centers.tolist(),
             "partitions": partitions_of(rng, nfr), "dtype": dtype, "asym": k % 2 == 1 and k >= 2}
        if k % 3 == 2 and k >= 2:
            q["dtype"], q["level"] = [("int32", 2 ** 25), ("uint32", 2 ** 31), ("int64", 2 ** 40), ("uint64", 2 ** 45)][(k // 3) % 4]
            ctx.count("integration_level_" + q["dtype"])
        ctx.oracle_case("integration", q, run_case("integration", q), nontrivial=nfr > 1)
        ctx.count("integration")
