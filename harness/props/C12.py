"""C12 — full matching partitions the peaks and returns self-consistent matches."""
import warnings
from fractions import Fraction

import numpy as np

from common import rat
from props.lat import rats, fr

import libertem_blobfinder.common.gridmatching as grm
from libertem_blobfinder.common import fullmatch as fm
from libertem_blobfinder.base.utils import make_polar

PROP = "C12"
LEAN_MODULE = "BlobfinderModel.Properties.C12"
GEN_FILES = ["Fullmatch", "Lattice"]
FRAGMENTS = ["filters", "full_match_loop", "fastmatch", "optimize", "containers_text"]
DRIVER = "drvlattice"
RULE = ("correspondence: the answers of _find_best_vector_match are recorded from the real full_match run (wrapped) and "
        "replayed through the model of the loop; matches / unmatched / weak selectors compared exactly; oracle: the "
        "statement's clauses on point clouds of 3..25 points (lattice subsets + noise + outliers + weak points, two "
        "interleaved lattices, random clouds), with and without candidate lists, deterministic stand-in clusterer, "
        "parameter settings; contiguous noise-free lattices of <= 10 points must be matched completely by the first match. "
        "Non-trivial: at least one match and at least one unmatched or weak peak (distinct = case hashes).")
ASSUMPTIONS = ["A-CL: hdbscan is not installed; a deterministic sklearn-style stand-in (harness/stubs/hdbscan) is used",
               "first-match completeness for noise-free lattices depends on the figure of merit: oracle only"]


def sel_bits(s):
    return "".join("1" if v else "0" for v in np.asarray(s, dtype=bool))


def gen(rng, k):
    kind = ("lattice", "lattice_noise", "two", "random", "clean", "fine", "sparse")[k % 7]
    if k % 21 == 10:
        kind = "offzero"
    if k % 21 == 17:
        kind = "stretched"
    a = np.array([rng.uniform(15, 35), rng.uniform(-4, 4)])
    b = np.array([rng.uniform(-4, 4), rng.uniform(15, 35)])
    if kind == "fine":   # fine-meshed: lattice vectors only a few tolerances long, re-matching may re-index the same peaks
        a = np.array([rng.uniform(6, 10), rng.uniform(-2, 2)])
        b = np.array([rng.uniform(-2, 2), rng.uniform(6, 10)])
    near_square = kind == "lattice_noise" and (k // 7) % 2 == 1
    if near_square:   # two lattice vectors of nearly the same length, a length limit between them (below)
        l0 = float(rng.uniform(24, 32))
        a = np.array([l0 + float(rng.uniform(0.4, 1.2)), rng.uniform(-1, 1)])
        b = np.array([rng.uniform(-1, 1), l0])
        if rng.random() < 0.5:
            a, b = b, a
    zero = rng.uniform(60, 80, 2)
    pts = [zero.copy()]
    if kind == "clean":
        ni, nj = int(rng.integers(2, 4)), int(rng.integers(2, 4))
        oi, oj = int(rng.integers(0, ni)), int(rng.integers(0, nj))
        idx = [(i - oi, j - oj) for i in range(ni) for j in range(nj) if (i - oi, j - oj) != (0, 0)][:9]
        pts += [zero + i * a + j * b for i, j in idx]
    elif kind in ("lattice", "lattice_noise", "two", "fine"):
        grid = [(i, j) for i in range(-2, 3) for j in range(-2, 3) if (i, j) != (0, 0)]
        if kind == "fine":
            grid = [(i, j) for i in range(-4, 5) for j in range(-4, 5) if (i, j) != (0, 0)]
        sel = rng.choice(len(grid), size=int(rng.integers(3, 14)), replace=False)
        noise = 0.0 if kind == "lattice" else (0.7 if kind == "fine" else 0.3)
        pts += [zero + grid[s][0] * a + grid[s][1] * b + rng.normal(0, noise, 2) for s in sel]
        if kind == "two":
            a2, b2 = np.array([rng.uniform(20, 30), rng.uniform(8, 14)]), np.array([rng.uniform(-14, -8), rng.uniform(20, 30)])
            sel = rng.choice(len(grid), size=int(rng.integers(3, 8)), replace=False)
            pts += [zero + grid[s][0] * a2 + grid[s][1] * b2 for s in sel]
            if (k // 7) % 2 == 1:
                # a split central spot: one more peak a pixel or two away from the zero point (closer than the tolerance); it is
                # an ordinary peak, not the zero point
                ang_ = rng.uniform(0, 2 * np.pi)
                pts.append(zero + float(rng.uniform(1.0, 2.2)) * np.array([np.sin(ang_), np.cos(ang_)]))
        pts += [zero + rng.uniform(-60, 60, 2) for _ in range(int(rng.integers(0, 4)))]
    elif kind == "offzero":
        # the zero point (first peak) sits a few pixels off the lattice the other peaks form (a poorly refined central beam),
        # the low orders are missing (beam stop): the refit moves the origin away from the zero point
        l0 = float(rng.uniform(18, 24))
        a, b = np.array([0.0, l0]), np.array([l0, 0.0])
        origin = rng.uniform(60, 70, 2)
        order = [(2, -1), (2, 0), (2, 1), (3, -1), (3, 0), (3, 1), (-2, 0), (-2, 1), (-3, 0), (-2, -1), (-3, 1)]
        sel = rng.choice(len(order), size=int(rng.integers(7, len(order) + 1)), replace=False)
        off = np.array([0.0, float(rng.uniform(3, 5))]) * (1 if rng.random() < 0.5 else -1)
        if rng.random() < 0.5:
            a, b, off = b, a, off[::-1]
        zero = origin + off
        pts = [zero.copy()] + [origin + order[s_][0] * a + order[s_][1] * b for s_ in sel]
    elif kind == "stretched":
        # a lattice whose spacing grows with the distance from the zero point along one direction (distortion): the fit of
        # the inner peaks and the fit after re-matching the outer ones differ, a length limit lies between the two
        l0 = float(rng.uniform(18, 24))
        st = float(rng.uniform(0.035, 0.045))
        zero = rng.uniform(95, 105, 2)
        ks_ = [k_ for k_ in range(-4, 5) if k_ != 0]
        along = np.array([0.0, 1.0]) if rng.random() < 0.5 else np.array([1.0, 0.0])
        across = along[::-1]
        a, b = along * l0, across * l0
        pts = [zero.copy()] + [zero + along * l0 * k_ * (1 + st * abs(k_)) for k_ in ks_] + [zero + across * l0, zero - across * l0]
    elif kind == "sparse":
        # few points far apart compared with the tolerance, on integer coordinates, default-like parameters: the best
        # lattice explaining them is fine-meshed compared with the tolerance (high indices)
        cloud = rng.integers(0, 65, (int(rng.integers(6, 9)), 2)).astype(float)
        zero = cloud[0].copy()
        pts = list(cloud)
    else:
        pts += [zero + rng.uniform(-60, 60, 2) for _ in range(int(rng.integers(2, 20)))]
    pts = np.array(pts)[:25]
    elev = rng.uniform(0.5, 3, len(pts))
    if kind != "clean":
        weak = rng.random(len(pts)) < 0.15
        weak[0] = rng.random() < 0.1
        elev[weak] = rng.uniform(0, 0.09, weak.sum())
    on_limit = kind != "clean" and (k // 7) % 3 == 2
    if on_limit:      # some elevations exactly equal to min_weight (not below it: they are not weak)
        sel_ = rng.random(len(pts)) < 0.3
        sel_[int(rng.integers(len(pts)))] = True
        elev[sel_ & (elev >= 0.1)] = 0.1
    p = {"pts": pts, "elev": elev, "zero": zero, "kind": kind, "true_a": a, "true_b": b,
         "tolerance": float(rng.uniform(1.0, 3.0)), "min_match": int(rng.integers(2, 5)),
         "min_angle": float(rng.uniform(0.1, 0.5)), "min_delta": float(rng.choice([0, 5, 10])),
         "max_delta": float(rng.choice([np.inf, 80, 50])), "min_points": int(rng.choice([3, 10, 100])),
         "cand": None}
    if kind == "stretched":
        p["elev"] = np.ones(len(pts))
        p.update({"tolerance": 2.0 if k % 2 else 3.0, "min_match": 3, "min_angle": float(np.pi / 10), "min_delta": 0.0,
                  "max_delta": float(np.linalg.norm(a)) * float(rng.uniform(1.08, 1.098)), "min_points": 10})
        if p["tolerance"] == 3.0:
            p["cand"] = [a.tolist(), b.tolist()]
    if kind == "offzero":
        p["elev"] = np.ones(len(pts))
        p.update({"tolerance": 3.0, "min_match": 3, "min_angle": float(np.pi / 10), "min_delta": 0.0,
                  "max_delta": float("inf"), "min_points": 10})
    if kind == "fine":
        p.update({"tolerance": float(rng.uniform(2.0, 3.0)), "min_delta": 0.0, "max_delta": float("inf")})
    if kind == "sparse":
        p["elev"] = np.ones(len(pts))
        p.update({"tolerance": 3.0, "min_match": 3, "min_angle": float(np.pi / 10), "min_delta": 0.0,
                  "max_delta": float("inf"), "min_points": 10})
    if k % 3 == 0 and kind != "random":
        p["cand"] = [(a * rng.uniform(0.97, 1.03)).tolist(), (b * rng.uniform(0.97, 1.03)).tolist()]
    if near_square:
        la, lb = float(np.linalg.norm(a)), float(np.linalg.norm(b))
        mid = 0.5 * (la + lb) + float(rng.uniform(-0.15, 0.15))
        p.update({"tolerance": 3.0, "min_match": 3, "min_angle": float(np.pi / 10), "min_points": 10})
        p.update({"min_delta": 0.0, "max_delta": mid} if rng.random() < 0.5 else {"min_delta": mid, "max_delta": float("inf")})
        if rng.random() < 0.5:      # rough candidates, inside the tolerance
            p["cand"] = [(a + rng.uniform(-1.5, 1.5, 2)).tolist(), (b + rng.uniform(-1.5, 1.5, 2)).tolist()]
    if kind == "clean":
        # (min_points >= the number of points: the candidate vectors are all pairwise vectors.  With fewer, candidates come from the
        # clusterer, and what the stand-in clusterer makes of 15 polar vectors says nothing about the code -- false alarm of soak 10)
        p.update({"min_match": 3, "tolerance": 2.0, "min_delta": 0.0, "max_delta": float("inf"), "min_angle": float(np.pi / 10),
                  "min_points": int(rng.choice([10, 100]))})
        if k % 2:
            # length limits that just contain the lattice vectors (both limits are inclusive in the statement)
            la, lb = float(np.linalg.norm(a)), float(np.linalg.norm(b))
            p.update({"min_delta": 0.85 * min(la, lb), "max_delta": 1.15 * max(la, lb)})
    return p


def matcher_of(p):
    kw = {k_: p[k_] for k_ in ("max_candidates", "min_candidates") if k_ in p}
    return fm.FullMatcher(tolerance=p["tolerance"], min_weight=0.1, min_match=p["min_match"], min_angle=p["min_angle"],
                          min_points=p["min_points"], min_delta=p["min_delta"], max_delta=p["max_delta"], **kw)


def float_errors(pts, zero, a, b):
    ind = np.linalg.solve(np.array((a, b)).T, (pts - zero).T).T
    d = np.abs(ind - np.around(ind)) * (np.linalg.norm(a), np.linalg.norm(b))
    return np.linalg.norm(d / np.maximum(1, np.abs(ind)) ** 0.5, axis=1)


def corr(ctx, drv):
    rng = np.random.default_rng(ctx.seed + 12)
    n = 80 if ctx.tier == "thorough" else 20
    for k in range(n):
        p = gen(rng, k)
        pts, elev = np.asarray(p["pts"]), np.asarray(p["elev"])
        m = matcher_of(p)
        answers = []
        orig = m._find_best_vector_match

        lists = []
        orig_dm = m._do_match
        rank_msgs = []

        def dm_wrapped(*a_, **k_):
            lst = orig_dm(*a_, **k_)
            lists.append(lst)
            return lst
        m._do_match = dm_wrapped

        def wrapped(point_selection, zero, candidates):
            r = orig(point_selection=point_selection, zero=zero, candidates=candidates)
            answers.append("N" if r is None else sel_bits(r.selector))
            # the ranking: the returned match maximises the closed form of the figure of merit (Model.fomClosed, theorem
            # C12.fom_ranking_closed_form) over the candidates' matches
            if lists and lists[-1]:
                vals = [documented_fom(x.a, x.b, np.sum(x.peak_elevations)) for x in lists[-1]]
                if r is None:
                    rank_msgs.append("candidate matches exist but no best match was returned")
                elif documented_fom(r.a, r.b, np.sum(r.peak_elevations)) < max(vals) * (1 - 1e-9):
                    rank_msgs.append(f"the returned match has figure of merit {documented_fom(r.a, r.b, np.sum(r.peak_elevations)):.6g} "
                                     f"(closed form), the best candidate match {max(vals):.6g}")
                ctx.count("ranking_checked")
            return r
        m._find_best_vector_match = wrapped
        msgs = rank_msgs
        with warnings.catch_warnings():
            warnings.simplefilter("ignore")
            try:
                matches, unmatched, weak = m.full_match(centers=pts, zero=p["zero"], cand=p["cand"], refineds=pts,
                                                        peak_values=np.ones(len(pts)), peak_elevations=elev)
            except Exception as e:
                ctx.corr_case("loop", p, [f"full_match raised {type(e).__name__}: {e}"])
                continue
        filt = elev >= 0.1
        zsel = np.array([np.allclose(q, p["zero"]) for q in pts])
        methods = 2 if p["cand"] is not None else 1
        mo = drv.ask(f"fullmatch {len(pts)} {p['min_match']} {methods} {sel_bits(filt)} {sel_bits(zsel)} " + " ".join(answers)).split()
        if int(mo[0]) != len(matches):
            msgs.append(f"number of matches: impl {len(matches)} model {mo[0]}")
        else:
            if mo[1] != sel_bits(unmatched.selector):
                msgs.append(f"unmatched: impl {sel_bits(unmatched.selector)} model {mo[1]}")
            if mo[2] != sel_bits(weak.selector):
                msgs.append(f"weak: impl {sel_bits(weak.selector)} model {mo[2]}")
            for i, mt in enumerate(matches):
                if mo[3 + i] != sel_bits(mt.selector):
                    msgs.append(f"match {i}: impl {sel_bits(mt.selector)} model {mo[3 + i]}")
        ctx.corr_case("loop", p, msgs, nontrivial=(len(matches) > 0 and (unmatched.selector.any() or weak.selector.any())))
        ctx.count("kind_" + p["kind"])
    # one candidate pair of _do_match (_match_all + _tumble) against the exact rational model `Model.tumble`
    for k in range(3 * n):
        p = gen(rng, k)
        if p["kind"] == "random":
            continue
        pts, elev = np.asarray(p["pts"], dtype=np.float64), np.asarray(p["elev"], dtype=np.float64)
        s_ = [0.0, 0.3, 1.0][k % 3]
        ca = np.asarray(p["true_a"]) + rng.uniform(-1, 1, 2) * s_
        cb = np.asarray(p["true_b"]) + rng.uniform(-1, 1, 2) * s_
        z = np.asarray(p["zero"], dtype=np.float64)
        if k % 5 == 4:
            # a shallow lattice: vectors enclosing an angle one or two degrees off min_angle, candidates on the other side of it,
            # in every orientation (both vectors near the negative x axis, where polar angles jump from pi to -pi, included)
            lim = float(np.pi / 10)
            true_ang = lim + np.deg2rad(float(rng.choice([-1.0, 1.0, -2.0])))
            cand_ang = lim + np.deg2rad(float(rng.choice([1.0, -1.0, 1.5])))
            phi = np.deg2rad(float(rng.choice([172.0, 176.0, 180.0, 184.0, -176.0, 90.0, 0.0, float(rng.uniform(-180, 180))])))
            L = float(rng.uniform(30, 45))

            def vec(ang):       # (y, x) of a vector of length L at polar angle `ang`
                return L * np.array([np.sin(ang), np.cos(ang)])
            ta, tb = vec(phi - true_ang / 2), vec(phi + true_ang / 2)
            ca, cb = vec(phi - cand_ang / 2), vec(phi + cand_ang / 2)
            z = rng.uniform(100, 120, 2)
            pts = np.array([z + i * ta + j * tb for i in (-1, 0, 1) for j in (-1, 0, 1)])
            elev = np.ones(len(pts))
            p = dict(p, pts=pts, elev=elev, zero=z, tolerance=3.0, min_match=3, min_angle=lim, min_delta=0.0,
                     max_delta=float("inf"), kind="shallow")
            ctx.count("tumble_shallow")
        m = matcher_of(p)
        corr_ = grm.CorrelationResult(pts, pts, np.ones(len(pts)), elev)
        sel = grm.PointSelection(corr_, selector=elev >= 0.1)
        with warnings.catch_warnings():
            warnings.simplefilter("ignore")
            try:
                mt = m._match_all(point_selection=sel, zero=z, a=ca, b=cb)
                n1 = len(mt)
                mt = m._tumble(sel, mt)
            except np.linalg.LinAlgError:
                mt, n1 = None, -1
            except Exception as e:
                ctx.corr_case("tumble", p, [f"_tumble raised {type(e).__name__}: {e}"])
                continue
        maxd = "inf" if not np.isfinite(p["max_delta"]) else rat(Fraction(float(p["max_delta"])) ** 2)
        sin2 = Fraction(float(np.sin(p["min_angle"]))) ** 2
        line = (f"tumble {rat(p['tolerance'])} {rat(0.1)} {p['min_match']} {rat(Fraction(float(p['min_delta'])) ** 2)} {maxd} "
                f"{rat(sin2)} {rats(z)} {rats(ca)} {rats(cb)} " + rats(np.column_stack([pts, elev])))
        mo = drv.ask(line)
        msgs = []
        # the comparison is suspended next to a decision boundary of the float computation (tolerance, length limits, angle)
        def near_boundary(z_, a_, b_):
            e = float_errors(pts, z_, a_, b_)
            la, lb = np.linalg.norm(a_), np.linalg.norm(b_)
            ang = abs(np.arctan2(a_[0], a_[1]) - np.arctan2(b_[0], b_[1])) % np.pi
            lim = [p["min_delta"]] + ([p["max_delta"]] if np.isfinite(p["max_delta"]) else [])
            return bool(np.any(np.abs(e - p["tolerance"]) < 1e-6) or any(abs(l_ - q) < 1e-6 for l_ in (la, lb) for q in lim)
                        or abs(ang - p["min_angle"]) < 1e-6 or abs(ang - (np.pi - p["min_angle"])) < 1e-6)
        border = near_boundary(z, ca, cb) or (mt is not None and near_boundary(mt.zero, mt.a, mt.b))
        if mo == "degenerate" or border:
            ctx.count("tumble_suspended")
        elif mo == "none":
            if mt is not None:
                msgs.append(f"model: no match from this candidate pair, impl: selector {sel_bits(mt.selector)}")
        else:
            head, selbits, idx = mo.split(" | ")
            v = np.array([float(x) for x in fr(head[len("some "):])])
            if mt is None:
                msgs.append(f"model: match with selector {selbits}, impl: None")
            elif sel_bits(mt.selector) != selbits:
                msgs.append(f"selector differs: impl {sel_bits(mt.selector)} model {selbits}")
            elif [int(x) for x in idx.split()] != np.asarray(mt.indices).astype(int).ravel().tolist():
                msgs.append("indices differ")
            elif np.abs(np.concatenate([mt.zero, mt.a, mt.b]) - v).max() > 1e-6 * max(1.0, np.abs(v).max()):
                msgs.append(f"lattice differs: impl {np.concatenate([mt.zero, mt.a, mt.b]).tolist()} model {v.tolist()}")
        ctx.corr_case("tumble", p, msgs, nontrivial=(mo.startswith("some") and "0" in mo.split(" | ")[1]))
        ctx.count("tumble_" + mo.split()[0])


def run_case(kind, p):
    pts, elev = np.asarray(p["pts"], dtype=np.float64), np.asarray(p["elev"], dtype=np.float64)
    msgs = []
    m = matcher_of(p)
    with warnings.catch_warnings():
        warnings.simplefilter("ignore")
        try:
            if p.get("centers_dtype"):
                # integer peak centres exactly as the correlation functions return them (narrow integer dtype), no refined positions
                matches, unmatched, weak = m.full_match(centers=pts.astype(p["centers_dtype"]), zero=np.asarray(p["zero"]),
                                                        cand=p["cand"], peak_values=np.ones(len(pts)),
                                                        peak_elevations=elev.astype(np.float32))
            else:
                matches, unmatched, weak = m.full_match(centers=pts, zero=np.asarray(p["zero"]), cand=p["cand"], refineds=pts,
                                                        peak_values=np.ones(len(pts)), peak_elevations=elev)
        except Exception as e:
            return [f"full_match raised {type(e).__name__}: {e}"]
    zsel = np.array([np.allclose(q, p["zero"]) for q in pts])
    if not np.array_equal(weak.selector, elev < 0.1):
        msgs.append("weak set is not exactly the peaks with elevation < min_weight")
    member = np.zeros(len(pts), dtype=int)
    for mt in matches:
        member += mt.selector.astype(int)
    for k in range(len(pts)):
        if zsel[k] or elev[k] < 0.1:
            continue
        if int(unmatched.selector[k]) + member[k] != 1:
            msgs.append(f"peak {k}: in {member[k]} matches and unmatched={bool(unmatched.selector[k])}")
    if matches and np.any(unmatched.selector & zsel):
        msgs.append("the zero point is reported as unmatched although a match was found")
    for i, mt in enumerate(matches):
        if len(mt) < p["min_match"]:
            msgs.append(f"match {i} has {len(mt)} < min_match peaks")
        pol = make_polar(np.array([mt.a, mt.b]))
        if np.any(pol[:, 0] < p["min_delta"] - 1e-9) or np.any(pol[:, 0] > p["max_delta"] + 1e-9):
            msgs.append(f"match {i}: vector lengths {pol[:, 0].tolist()} outside [{p['min_delta']}, {p['max_delta']}]")
        d = abs(pol[0, 1] - pol[1, 1]) % np.pi
        if not (d > p["min_angle"] - 1e-9 and d < np.pi - p["min_angle"] + 1e-9):
            msgs.append(f"match {i}: angle between a and b is {d:.4f}, min_angle {p['min_angle']:.4f}")
        idx = np.asarray(mt.indices)
        if idx.shape != (len(mt), 2) or not np.array_equal(idx, np.round(idx)):
            msgs.append(f"match {i}: indices are not integers")
            continue
        w = elev[mt.selector]
        A = np.hstack([np.ones((len(idx), 1)), idx]) * np.sqrt(w)[:, None]
        if np.linalg.matrix_rank(A) == 3:
            x = np.linalg.lstsq(A, pts[mt.selector] * np.sqrt(w)[:, None], rcond=None)[0]
            dev = np.abs(np.array([mt.zero, mt.a, mt.b]) - x).max()
            if dev > 1e-6 * max(1.0, np.abs(x).max()):
                msgs.append(f"match {i}: zero/a/b are not the weighted least-squares fit of its own peaks (deviation {dev:.4g})")
    if p["kind"] == "clean":
        if not matches:
            msgs.append("noise-free lattice: no match found")
        elif not matches[0].selector.all() or not matches[0].error < (1e-3 if p.get("centers_dtype") else 1e-6):
            msgs.append(f"noise-free lattice of {len(pts)} points: first match has {len(matches[0])} points, error {matches[0].error}")
    return msgs[:6]


def documented_fom(a, b, elev_sum):
    """the figure of merit of the docstring of _find_best_vector_match, written out: (sum of elevations)^2 * |sin angle| *
    |a||b| / (|a|^2 + |b|^2)"""
    a, b = np.asarray(a, dtype=np.float64), np.asarray(b, dtype=np.float64)
    return float(elev_sum) ** 2 * abs(a[0] * b[1] - a[1] * b[0]) / (a @ a + b @ b)


def classify(kind, p, msgs):
    """known finding D20: the documented figure of merit (points^2 x orthogonality x equal length) ranks a SUBLATTICE basis (2a, b)
    above the full lattice when a is much shorter than b and the peaks of the even columns carry most of the elevation.  Keyed to
    the cause: the only failure is the first-match clause, the first match is an exact (error ~ 0) lattice through a proper subset
    of the points, and its documented figure of merit is at least that of every reduced basis of the full lattice over all
    points -- i.e. the ranking did what it is documented to do."""
    if kind != "cloud" or p.get("kind") != "clean" or p.get("centers_dtype") or len(msgs) != 1 \
            or not msgs[0].startswith("noise-free lattice of"):
        return None
    pts, elev = np.asarray(p["pts"], dtype=np.float64), np.asarray(p["elev"], dtype=np.float64)
    with warnings.catch_warnings():
        warnings.simplefilter("ignore")
        try:
            matches, _, _ = matcher_of(p).full_match(centers=pts, zero=np.asarray(p["zero"]), cand=p["cand"], refineds=pts,
                                                     peak_values=np.ones(len(pts)), peak_elevations=elev)
        except Exception:      # noqa: BLE001
            return None
    if not matches:
        return None
    mt = matches[0]
    if mt.selector.all() or not mt.error < 1e-6:
        return None
    a, b = np.asarray(p["true_a"], dtype=np.float64), np.asarray(p["true_b"], dtype=np.float64)
    full = max(documented_fom(u, v, elev.sum()) for u, v in ((a, b), (a, b + a), (a, b - a), (a + b, b), (a - b, b)))
    got = documented_fom(mt.a, mt.b, elev[mt.selector].sum())
    return "D20" if got >= full * (1 - 1e-9) else None


def unequal_lattice(rng, k, uniform):
    """a complete noise-free block of a lattice whose vectors differ in length by a factor 2.5 .. 7: three columns along the short
    vector with the zero point on the border column, or five columns with the zero point in the middle"""
    lb = float(rng.uniform(30, 50))
    ratio = float(rng.uniform(0.15, 0.4))
    phi = float(rng.uniform(0, 2 * np.pi))
    psi = phi + np.pi / 2 + float(rng.uniform(-0.2, 0.2))
    a = lb * ratio * np.array([np.sin(phi), np.cos(phi)])
    b = lb * np.array([np.sin(psi), np.cos(psi)])
    ii, jj = [((0, 1, 2), (-1, 0, 1)), ((-2, -1, 0, 1, 2), (0, 1)), ((0, -1, -2), (0, 1, 2))][k % 3]
    swap = (k // 3) % 2 == 1
    if swap:
        a, b = b, a
    idx = [((j, i) if swap else (i, j)) for i in ii for j in jj if (i, j) != (0, 0)]
    z = rng.uniform(100, 120, 2)
    pts = np.array([z] + [z + i * a + j * b for i, j in idx])
    elev = np.ones(len(pts)) if uniform else rng.uniform(0.5, 3, len(pts))
    return {"pts": pts, "elev": elev, "zero": z, "kind": "clean", "true_a": a, "true_b": b, "tolerance": 2.0, "min_match": 3,
            "min_angle": float(np.pi / 10), "min_delta": 0.0, "max_delta": float("inf"), "min_points": int(rng.choice([10, 100])),
            "cand": None}


def search(ctx, boost=1, focus=()):
    rng = np.random.default_rng(ctx.seed + 1012)
    n = (250 if ctx.tier == "thorough" else 50) * boost
    # known finding D20, pinned: |a| = 0.2 |b|, three columns along a, elevations heavy on the even columns
    z_, a_, b_ = np.array([110.0, 105.0]), np.array([7.0, 2.0]), np.array([-9.0, 33.0])
    p = {"pts": np.array([z_ + i * a_ + j * b_ for i in (0, 1, 2) for j in (0, -1, 1)]), "zero": z_, "kind": "clean",
         "elev": np.array([3.0, 2.8, 2.9, 0.5, 0.6, 0.5, 2.7, 2.9, 3.0]), "true_a": a_, "true_b": b_, "tolerance": 2.0, "min_match": 3,
         "min_angle": float(np.pi / 10), "min_delta": 0.0, "max_delta": float("inf"), "min_points": 10, "cand": None}
    msgs = run_case("cloud", p)
    ctx.oracle_case("cloud", p, msgs, key=classify("cloud", p, msgs) if msgs else None, nontrivial=True)
    # exactly `min_points` peaks (the boundary of "enough points to cluster": at most min_points peaks are matched directly with
    # all pairwise vectors, whatever a clusterer would make of them): a noise-free 2 x 5 strip whose shortest difference vectors
    # are all parallel, few candidates allowed
    for k in range(4 * boost):
        lb_ = float(rng.uniform(7, 10))
        phi_ = float(rng.uniform(0, 2 * np.pi))
        b_ = lb_ * np.array([np.sin(phi_), np.cos(phi_)])
        a_ = float(rng.uniform(4.6, 6.0)) * lb_ * np.array([np.sin(phi_ + 1.5), np.cos(phi_ + 1.5)])
        z_ = rng.uniform(100, 120, 2)
        pts_ = np.array([z_ + i * a_ + j * b_ for i in (0, 1) for j in (0, 1, 2, 3, 4)])
        p = {"pts": pts_, "elev": np.ones(10), "zero": z_, "kind": "clean", "true_a": a_, "true_b": b_, "tolerance": 2.0, "min_match": 3,
             "min_angle": float(np.pi / 10), "min_delta": 0.0, "max_delta": float("inf"), "min_points": 10, "cand": None,
             "max_candidates": [3, 4, 4, 7][k % 4]}
        msgs = run_case("cloud", p)
        ctx.oracle_case("cloud", p, msgs, key=classify("cloud", p, msgs) if msgs else None, nontrivial=True)
        ctx.count("oracle_exactly_min_points")
    # lattices with vectors of very different length: uniform elevations, and elevations 0.5 .. 3 as for the other clean lattices
    for k in range((60 if ctx.tier == "thorough" else 16) * boost):
        p = unequal_lattice(rng, k, uniform=(k // 6) % 2 == 0)
        msgs = run_case("cloud", p)
        ctx.oracle_case("cloud", p, msgs, key=classify("cloud", p, msgs) if msgs else None, nontrivial=True)
        ctx.count("oracle_unequal_lengths")
    for k in range(n):
        p = gen(rng, k)
        ctx.oracle_case("cloud", p, run_case("cloud", p), nontrivial=p["kind"] != "clean")
        ctx.count("oracle_" + p["kind"])
    # shallow lattices given with a candidate list: lattice vectors enclosing slightly LESS than min_angle, candidates slightly
    # more (so they pass the candidate filter), in every orientation -- including both vectors close to the negative x axis,
    # where the polar angles jump from +pi to -pi; whatever is returned must respect min_angle
    for k in range(6 * boost):
        lim = float(np.pi / 10)
        true_ang = lim - np.deg2rad(float(rng.choice([1.0, 2.0, 0.5])))
        cand_ang = lim + np.deg2rad(float(rng.choice([1.0, 1.5, 0.5])))
        phi = np.deg2rad([172.0, 176.0, 180.0, 184.0, -176.0, float(rng.uniform(-180, 180))][k % 6])
        L = float(rng.uniform(30, 45))

        def vec(ang):
            return L * np.array([np.sin(ang), np.cos(ang)])
        ta, tb = vec(phi - true_ang / 2), vec(phi + true_ang / 2)
        z = rng.uniform(100, 120, 2)
        pts = np.array([z] + [z + i * ta + j * tb for i in (-1, 0, 1) for j in (-1, 0, 1) if (i, j) != (0, 0)])
        p = {"pts": pts, "elev": np.ones(len(pts)), "zero": z, "kind": "shallow", "true_a": ta, "true_b": tb, "tolerance": 3.0,
             "min_match": 3, "min_angle": lim, "min_delta": 0.0, "max_delta": float("inf"), "min_points": 10,
             "cand": [vec(phi - cand_ang / 2).tolist(), vec(phi + cand_ang / 2).tolist()]}
        ctx.oracle_case("cloud", p, run_case("cloud", p), nontrivial=True)
        ctx.count("oracle_shallow")
    # noise-free lattices on a large detector, given as the integer centres the correlation returns (int16 / int32 / uint16):
    # a zero point with first-order reflections a few hundred pixels apart, small blocks of cells
    for k in range(4 * boost):
        # (main components 190..240 px, small cross components: the lattice vectors, their sum and their difference all have
        # components whose squares need more than 15 bits)
        a = np.array([int(rng.integers(190, 241)), int(rng.integers(-8, 9))])
        b = np.array([int(rng.integers(-8, 9)), int(rng.integers(190, 241))])
        z = np.array([int(rng.integers(480, 560)), int(rng.integers(480, 560))])
        idx = [[(1, 0), (-1, 0), (0, 1), (0, -1)], [(1, 0), (0, 1), (1, 1)], [(1, 0), (0, 1)], [(1, 0), (0, 1), (1, 1), (-1, 0)]][k % 4]
        pts = np.array([z] + [z + i * a + j * b for i, j in idx], dtype=np.float64)
        p = {"pts": pts, "elev": np.ones(len(pts)), "zero": z.astype(np.float64), "kind": "clean", "true_a": a, "true_b": b,
             "tolerance": 2.0, "min_match": 3, "min_angle": float(np.pi / 10), "min_delta": 0.0, "max_delta": float("inf"),
             "min_points": 10, "cand": None, "centers_dtype": ("int16", "int16", "int32", "uint16")[(k // 4 + k) % 4]}
        ctx.oracle_case("cloud", p, run_case("cloud", p), nontrivial=True)
        ctx.count("oracle_integer_centres")
    # sparse integer clouds (cheap): the re-matching rounds of the candidate search may re-index the same peaks
    corpus = [[[19, 56], [62, 27], [63, 34], [18, 33], [21, 59], [6, 14]],
              [[5, 41], [37, 18], [5, 6], [22, 23], [60, 50], [21, 29], [35, 8], [33, 4]],
              [[46, 36], [12, 57], [23, 51], [52, 55], [36, 61], [44, 28], [45, 57], [64, 6]]]
    for k in range((300 if ctx.tier == "thorough" else 60) * boost):
        p = gen(rng, 6 + 7 * k)
        if k < len(corpus):   # inputs kept from an earlier seeded change (re-indexing in the second matching round)
            p["pts"] = np.array(corpus[k], dtype=float)
            p["zero"] = p["pts"][0].copy()
            p["elev"] = np.ones(len(p["pts"]))
        ctx.oracle_case("cloud", p, run_case("cloud", p))
        ctx.count("oracle_sparse")
