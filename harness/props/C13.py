"""C13 — cropping returns the zero-padded window around each peak (both back-ends)."""
import itertools

import numpy as np

from libertem_blobfinder.base import correlation as bc

PROP = "C13"
LEAN_MODULE = "BlobfinderModel.Properties.C13"
GEN_FILES = ["Crop"]
FRAGMENTS = ["crop_cell", "sl_bounds"]
DRIVER = "drvcorr"
RULE = ("correspondence: exhaustive enumeration of frame shapes x crop sizes x peak positions "
        "(ranges in coverage.exhaustive_range) through both real back-ends and the Lean model, "
        "buffers prefilled with a sentinel, plus Python slice normalisation vs the model; "
        "oracle: window specification in plain Python on random larger shapes / dtypes. "
        "A case is non-trivial if the window is neither fully inside nor fully outside the frame "
        "(distinct = distinct (shape, c, peak, backend-dtype) tuples).")
ASSUMPTIONS = [
    "A-LOOP: numba/CPython loop nests write each cell once with the loop body's value; NumPy slice "
    "assignment behaves as documented (pySlice model compared exhaustively with real slicing)",
    "sparseconverter.for_backend is the identity on values",
]
SENT = 7


def spec_window(frame, c, p, h=None, w=None):
    """the property statement, in plain Python"""
    fy, fx = frame.shape
    h = 2 * c if h is None else h
    w = 2 * c if w is None else w
    out = [[0] * w for _ in range(h)]
    for y in range(h):
        for x in range(w):
            yy, xx = p[0] - c + y, p[1] - c + x
            if 0 <= yy < fy and 0 <= xx < fx:
                out[y][x] = frame[yy, xx]
    return np.array(out, dtype=frame.dtype).reshape(h, w)


def real_crops(frame, c, peaks, backend, dtype, h=None, w=None, sparse_frame=False, extra_slots=0, peaks_dtype="int64",
               layout=None, out_layout=None):
    h = 2 * c if h is None else h
    w = 2 * c if w is None else w
    buf = np.full((len(peaks) + extra_slots, h, w), SENT, dtype=dtype)
    if out_layout:
        # an output buffer of the documented shape that is not C-contiguous: the leading part of row-padded buffers, every second
        # slot of a larger stack, the interior of a guard-banded block, a column-major array
        n_ = len(peaks) + extra_slots
        if out_layout == "rowpad":
            buf = np.full((n_, h, w + 3), SENT, dtype=dtype)[:, :, :w]
        elif out_layout == "slots":
            buf = np.full((2 * n_, h, w), SENT, dtype=dtype)[::2]
        elif out_layout == "guard":
            buf = np.full((n_ + 2, h + 2, w + 2), SENT, dtype=dtype)[1:-1, 1:-1, 1:-1]
        else:
            buf = np.asfortranarray(np.full((n_, h, w), SENT, dtype=dtype))
    fr = frame.astype(dtype)
    if layout == "F":
        fr = np.asfortranarray(fr)
    elif layout == "strided":            # every second row and column of a larger array
        wide = np.full((2 * fr.shape[0], 2 * fr.shape[1]), SENT, dtype=fr.dtype)
        wide[::2, ::2] = fr
        fr = wide[::2, ::2]
    elif layout == "readonly":
        fr.setflags(write=False)
    # the container the integer peaks arrive in (centers buffers of the UDFs are uint16, user code passes what it has)
    pk = np.asarray(peaks, dtype=np.int64).reshape(-1, 2).astype(peaks_dtype)
    if layout in ("strided", "F"):       # ... and the peak list as a view (two columns of a wider table / column-major)
        tab = np.zeros((len(pk), 5), dtype=pk.dtype)
        tab[:, 1::2][:, :2] = pk
        pk = tab[:, 1::2][:, :2] if layout == "strided" else np.asfortranarray(pk)
    elif layout == "readonly":
        pk.setflags(write=False)
    if backend == "pixel":
        bc.crop_disks_from_frame(pk, fr, c, buf)
    else:
        if sparse_frame:
            import sparse
            fr = sparse.COO.from_numpy(fr)
        bc.crop_disks_from_frame_slicing(pk, fr, c, buf)
    return buf


def nontrivial_window(fy, fx, c, p, h, w):
    inside = 0 <= p[0] - c and p[0] - c + h <= fy and 0 <= p[1] - c and p[1] - c + w <= fx
    outside = p[0] - c + h <= 0 or p[0] - c >= fy or p[1] - c + w <= 0 or p[1] - c >= fx
    return not inside and not outside


def corr(ctx, drv):
    thorough = ctx.tier == "thorough"
    # ---- Python slicing vs Model.pySlice* (exhaustive small) -----------------------------
    vals = [None] + list(range(-9, 10))
    lines, cases = [], []
    for ln in range(0, 7):
        for lo in vals:
            for hi in vals:
                lines.append(f"pyslice {ln} {'N' if lo is None else lo} {'N' if hi is None else hi}")
                cases.append((ln, lo, hi))
    outs = drv.ask_many(lines)
    for (ln, lo, hi), out in zip(cases, outs):
        start, stop, _ = slice(lo, hi).indices(ln)
        n = len(np.arange(ln)[lo:hi])
        want = f"{start} {stop} {n}"
        # the model clips hi below lo differently only in `stop`; compare start, and the length
        got = out.split()
        msgs = []
        if got[0] != str(start) or int(got[2]) != n or (n > 0 and got[1] != str(stop)):
            msgs.append(f"pyslice len={ln} [{lo}:{hi}] model={out} python={want}")
        ctx.corr_case("pyslice", {"len": ln, "lo": lo, "hi": hi}, msgs,
                      nontrivial=lo is not None or hi is not None, hkey=("ps", ln, lo, hi))
    ctx.count("pyslice", len(cases))
    # ---- crops: exhaustive small space -----------------------------------------------------
    max_shape = 7 if thorough else 5
    cs = (1, 2, 3, 4) if thorough else (1, 2, 3)
    dtypes = [np.float32, np.float64, np.int64] if thorough else [np.float32, np.int64]
    ctx.exhaustive_range = {"frame_shapes": f"1..{max_shape} x 1..{max_shape}", "crop_sizes": list(cs),
                            "peaks": "[-2c-1, shape+2c+1]^2", "backends": ["pixel", "slicing"],
                            "dtypes": [np.dtype(d).name for d in dtypes]}
    for fy, fx in itertools.product(range(1, max_shape + 1), repeat=2):
        frame = (np.arange(fy * fx).reshape(fy, fx) + 1)
        fvals = " ".join(str(v) for v in frame.ravel())
        for c in cs:
            h = w = 2 * c
            peaks = [(py, px) for py in range(-2 * c - 1, fy + 2 * c + 2)
                     for px in range(-2 * c - 1, fx + 2 * c + 2)]
            lines = []
            for (py, px) in peaks:
                lines.append(f"crop_pixel {fy} {fx} {c} {py} {px} {h} {w} {fvals}")
                lines.append(f"crop_slice {fy} {fx} {c} {py} {px} {h} {w} {SENT} {fvals}")
            outs = drv.ask_many(lines)
            impl = {}
            for dt in dtypes:
                for be in ("pixel", "slicing"):
                    try:
                        impl[(be, dt)] = real_crops(frame, c, peaks, be, dt)
                    except Exception as e:  # the property says: never raises
                        impl[(be, dt)] = e
            for i, (py, px) in enumerate(peaks):
                nt = nontrivial_window(fy, fx, c, (py, px), h, w)
                for j, be in enumerate(("pixel", "slicing")):
                    mo = outs[2 * i + j]
                    for dt in dtypes:
                        r = impl[(be, dt)]
                        params = {"fy": fy, "fx": fx, "c": c, "peak": [py, px], "backend": be,
                                  "dtype": np.dtype(dt).name}
                        msgs = []
                        if isinstance(r, Exception):
                            msgs.append(f"implementation raised {type(r).__name__}: {r}")
                        elif mo in ("bad-op", "shape-mismatch"):
                            msgs.append(f"model says {mo}, implementation returned a crop")
                        else:
                            got = " ".join(str(int(v)) for v in r[i].ravel())
                            if got != mo:
                                msgs.append(f"crop differs: impl={got} model={mo}")
                        ctx.corr_case("crop", params, msgs, nontrivial=nt,
                                      hkey=("crop", fy, fx, c, py, px, be, np.dtype(dt).name))
            ctx.count(f"crop_c{c}", len(peaks))
    # ---- non-square buffers and sparse frames (slicing back-end), random --------------------
    rng = np.random.default_rng(ctx.seed + 13)
    n_rand = 400 if thorough else 80
    for k in range(n_rand):
        fy, fx = (int(v) for v in rng.integers(1, 12, 2))
        c = int(rng.integers(1, 6))
        h, w = (2 * c, 2 * c) if k % 2 == 0 else (int(rng.integers(1, 9)), int(rng.integers(1, 9)))
        p = (int(rng.integers(-2 * c - 2, fy + 2 * c + 3)), int(rng.integers(-2 * c - 2, fx + 2 * c + 3)))
        frame = rng.integers(1, 1000, (fy, fx))
        fvals = " ".join(str(v) for v in frame.ravel())
        sparse_frame = (k % 3 == 0)
        mo_p = drv.ask(f"crop_pixel {fy} {fx} {c} {p[0]} {p[1]} {h} {w} {fvals}")
        mo_s = drv.ask(f"crop_slice {fy} {fx} {c} {p[0]} {p[1]} {h} {w} {SENT} {fvals}")
        for be, mo in (("pixel", mo_p), ("slicing", mo_s)):
            params = {"fy": fy, "fx": fx, "c": c, "h": h, "w": w, "peak": list(p), "backend": be,
                      "sparse": sparse_frame and be == "slicing", "frame": frame}
            msgs = []
            try:
                r = real_crops(frame, c, [p], be, np.float64, h, w, sparse_frame and be == "slicing")
                got = " ".join(str(int(v)) for v in r[0].ravel())
                if got != mo:
                    msgs.append(f"crop differs: impl={got} model={mo}")
            except Exception as e:
                msgs.append(f"implementation raised {type(e).__name__}: {e} (model: {mo[:40]})")
            ctx.corr_case("crop_general", params, msgs, nontrivial=nontrivial_window(fy, fx, c, p, h, w))
    ctx.count("crop_general", n_rand)


class _Strict(np.ndarray):
    """an array that refuses element accesses outside its bounds (negative indices included: in the compiled kernel, which runs
    without bounds checks, they are reads / writes before the start of the buffer)"""

    def _chk(self, idx):
        ids = idx if isinstance(idx, tuple) else (idx,)
        for ax, i in enumerate(ids):
            if isinstance(i, (int, np.integer)) and ax < self.ndim and not (0 <= int(i) < self.shape[ax]):
                raise IndexError(f"index {int(i)} on axis {ax} of size {self.shape[ax]}")

    def __getitem__(self, idx):
        self._chk(idx)
        return super().__getitem__(idx)

    def __setitem__(self, idx, v):
        self._chk(idx)
        super().__setitem__(idx, v)


def run_case(kind, params):
    """property oracle on the real code; returns failure messages"""
    frame = np.asarray(params["frame"])
    c = int(params["c"])
    peaks = [tuple(int(v) for v in p) for p in params["peaks"]]
    dt = np.dtype(params.get("dtype", "float64"))
    msgs = []
    res = {}
    for be in ("pixel", "slicing"):
        try:
            res[be] = real_crops(frame, c, peaks, be, dt, sparse_frame=bool(params.get("sparse")),
                                 extra_slots=int(params.get("extra_slots", 0)),
                                 peaks_dtype=params.get("peaks_dtype", "int64"), layout=params.get("layout"),
                                 out_layout=params.get("out_layout"))
        except Exception as e:
            msgs.append(f"{be} back-end raised {type(e).__name__}: {e}")
    fr = frame.astype(dt)
    for i, p in enumerate(peaks):
        want = spec_window(fr, c, p)
        for be, r in res.items():
            if not np.array_equal(r[i], want, equal_nan=(fr.dtype.kind == "f")):
                msgs.append(f"{be} back-end, frame {fr.shape}, c={c}, peak {p}: got "
                            f"{r[i].tolist()} expected {want.tolist()}")
    for be, r in res.items():
        # a buffer stack with more slots than peaks (allocated for a larger block): the surplus slots belong to no peak and
        # keep what they held; the peak list is not read past its end
        if len(r) > len(peaks) and not np.all(r[len(peaks):] == np.asarray(SENT, dtype=r.dtype)):
            msgs.append(f"{be} back-end, {len(peaks)} peak(s), {len(r)} buffer slots: slots beyond the peak list were written")
    if len(res) == 2 and not np.array_equal(res["pixel"], res["slicing"], equal_nan=(fr.dtype.kind == "f")):
        msgs.append("the two back-ends disagree")
    # "never read or write out of bounds": the per-pixel kernel, run as plain Python on arrays that refuse every element access
    # outside their bounds (the compiled kernel has no bounds checks, so an access the values do not depend on goes unnoticed)
    pyf = getattr(bc.crop_disks_from_frame, "py_func", None)
    if pyf is not None and not params.get("sparse") and len(peaks) * (2 * c) ** 2 <= 4000:
        buf = np.full((len(peaks), 2 * c, 2 * c), SENT, dtype=dt).view(_Strict)
        try:
            pyf(np.asarray(peaks, dtype=np.int64).reshape(-1, 2), fr.view(_Strict), c, buf)
            for i, p in enumerate(peaks):
                if not np.array_equal(np.asarray(buf[i]), spec_window(fr, c, p), equal_nan=(fr.dtype.kind == "f")):
                    msgs.append(f"pixel back-end (interpreted), frame {fr.shape}, c={c}, peak {p}: wrong values")
                    break
        except IndexError as e:
            msgs.append(f"pixel back-end, frame {fr.shape}, c={c}, peaks {peaks}: element access outside an array ({e})")
    return msgs[:6]


def search(ctx, boost=1, focus=()):
    rng = np.random.default_rng(ctx.seed + 1013)
    n = (600 if ctx.tier == "thorough" else 150) * boost
    cases = []
    # corpus: witnesses of past defects first
    cases.append({"frame": np.arange(36.).reshape(6, 6) + 1, "c": 2, "peaks": [(0, 0), (5, 5), (-9, 3)],
                  "dtype": "float64"})
    for kind, p in focus:  # replay correspondence disagreements through the oracle
        if "fy" in p:
            fr = p.get("frame")
            if fr is None:
                fr = np.arange(p["fy"] * p["fx"]).reshape(p["fy"], p["fx"]) + 1
            if p.get("h", 2 * p["c"]) == 2 * p["c"] and p.get("w", 2 * p["c"]) == 2 * p["c"]:
                cases.append({"frame": np.asarray(fr), "c": p["c"], "peaks": [tuple(p["peak"])],
                              "dtype": p.get("dtype", "float64"), "sparse": p.get("sparse", False)})
    dts = ["float32", "float64", "int64", "uint16", "int32"]
    for k in range(n):
        fy, fx = (int(v) for v in rng.integers(1, 40, 2))
        c = int(rng.integers(1, 10))
        npk = int(rng.integers(1, 6))
        peaks = [(int(rng.integers(-2 * c - 1, fy + 2 * c + 2)), int(rng.integers(-2 * c - 1, fx + 2 * c + 2)))
                 for _ in range(npk)]
        if k % 7 == 0:
            peaks.append((-3 * c, -3 * c))  # entirely outside
        if k % 6 == 4 and (k // 6) % 2 == 0:
            # float frames with inf / -inf / NaN, also in the outermost rows and columns
            fr = rng.normal(0, 100, (fy, fx))
            for _ in range(int(rng.integers(1, 6))):
                yy = int(rng.choice([0, fy - 1, int(rng.integers(0, fy))]))
                xx = int(rng.choice([0, fx - 1, int(rng.integers(0, fx))]))
                fr[yy, xx] = [np.inf, -np.inf, np.nan][int(rng.integers(3))]
            cases.append({"frame": fr, "c": c, "peaks": peaks, "dtype": ["float32", "float64"][(k // 12) % 2], "sparse": False})
            ctx.count("non_finite")
            continue
        if k % 6 == 5:
            # values over the whole range of an integer dtype (the crop is a copy: every value comes back exactly)
            xdt = np.dtype(("uint64", "int64", "uint8", "int8", "uint32", "int16")[(k // 6) % 6])
            info = np.iinfo(xdt)
            cases.append({"frame": rng.integers(info.min, info.max, (fy, fx), dtype=xdt, endpoint=True), "c": c, "peaks": peaks,
                          "dtype": xdt.name, "sparse": False})
            ctx.count("full_range_" + xdt.name)
            continue
        if k % 6 == 3:
            # values of both signs that cancel in many windows (a +-1 checkerboard, small signed integers, signed half-integers):
            # a window whose values sum to zero is not an empty window
            yy_, xx_ = np.mgrid[0:fy, 0:fx]
            fr = [((yy_ + xx_) % 2) * 2 - 1, rng.integers(-2, 3, (fy, fx)), rng.integers(-3, 4, (fy, fx)) * 0.5][(k // 6) % 3]
            cases.append({"frame": np.asarray(fr), "c": c, "peaks": peaks,
                          "dtype": ["int64", "float64", "float32", "int32", "int8"][(k // 18) % 5], "sparse": (k // 6) % 2 == 1})
            ctx.count("cancelling_values")
            continue
        cases.append({"frame": rng.integers(1, 60000, (fy, fx)), "c": c, "peaks": peaks,
                      "dtype": dts[k % len(dts)], "sparse": k % 5 == 0, "extra_slots": int(rng.integers(1, 4)) if k % 4 == 1 else 0})
        if k % 6 == 2 and k % 5 != 0:
            cases[-1]["layout"] = ("F", "strided", "readonly")[(k // 6) % 3]
            ctx.count("layout_" + cases[-1]["layout"])
        if k % 6 == 0 and k % 5 != 0:
            cases[-1]["out_layout"] = ("rowpad", "slots", "guard", "F")[(k // 6) % 4]
            ctx.count("out_layout_" + cases[-1]["out_layout"])
    # the same integer peaks held in other integer containers (unsigned ones included: a peak next to the top / left border has
    # a window origin below zero, which the container type cannot hold)
    pdts = ("uint16", "uint8", "uint32", "uint64", "int16", "int32", "int8")
    for k in range((60 if ctx.tier == "thorough" else 24) * boost):
        pdt = np.dtype(pdts[k % len(pdts)])
        info = np.iinfo(pdt)
        fy, fx = (int(v) for v in rng.integers(1, 40, 2))
        c = int(rng.integers(1, 10))
        lo_y, hi_y = max(info.min, -2 * c - 1), min(info.max, fy + 2 * c + 1)
        lo_x, hi_x = max(info.min, -2 * c - 1), min(info.max, fx + 2 * c + 1)
        peaks = [(int(rng.integers(lo_y, hi_y + 1)), int(rng.integers(lo_x, hi_x + 1))) for _ in range(int(rng.integers(1, 5)))]
        peaks += [(max(lo_y, 0), int(rng.integers(0, fx))), (int(rng.integers(0, fy)), max(lo_x, 0)),
                  (min(c - 1, fy - 1), min(c - 1, fx - 1))]
        cases.append({"frame": rng.integers(1, 60000, (fy, fx)), "c": c, "peaks": peaks, "dtype": dts[k % 3],
                      "sparse": k % 4 == 0, "peaks_dtype": pdt.name})
        ctx.count("peaks_in_" + pdt.name)
    # large frames (an axis of 257 .. 600 px, detector sized) with windows that end exactly on the far edge, start exactly on the
    # near edge, or miss either by one pixel
    for k in range((24 if ctx.tier == "thorough" else 8) * boost):
        big, small = int(rng.integers(257, 601)), int(rng.integers(3, 60))
        fy, fx = (big, small) if k % 2 else (small, big)
        if k % 4 == 3:
            fy = fx = int(rng.integers(257, 400))
        c = int(rng.integers(1, 9))
        peaks = []
        for ax_size, ax in ((fy, 0), (fx, 1)):
            for v in (ax_size - c, ax_size - c - 1, ax_size - c + 1, c, c - 1, ax_size - 1):
                other = int(rng.integers(0, fx if ax == 0 else fy))
                peaks.append((v, other) if ax == 0 else (other, v))
        cases.append({"frame": rng.integers(1, 60000, (fy, fx)), "c": c, "peaks": peaks, "dtype": dts[k % 3], "sparse": k % 3 == 0})
        ctx.count("large_frame_edge_ties")
    for params in cases:
        msgs = run_case("crop", params)
        fr = params["frame"]
        nt = any(nontrivial_window(fr.shape[0], fr.shape[1], params["c"], p, 2 * params["c"], 2 * params["c"])
                 for p in params["peaks"])
        ctx.oracle_case("crop", params, msgs, nontrivial=nt)
    ctx.count("oracle_crop", len(cases))


def extra_coverage(ctx):
    return {"exhaustive": True, "exhaustive_range": getattr(ctx, "exhaustive_range", None)}
