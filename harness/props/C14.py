"""C14 — equivariant to translation and axis swap, invariant to intensity offset."""
import numpy as np

import impl
from common import rat
from libertem_blobfinder.base import correlation as bc

PROP = "C14"
LEAN_MODULE = "BlobfinderModel.Properties.C14"
GEN_FILES = ["Eval", "Crop", "Patterns"]
FRAGMENTS = ["shift", "log_scale", "crop_cell", "mask_center", "correlation_fft"]
DRIVER = "drvcorr"
RULE = ("correspondence: model crops / log arguments / correlation maps of a translated (resp. offset, cyclically rolled) "
        "small frame vs the untranslated one through the driver AND the same relation on the real cropping / log scaling "
        "functions; oracle: paired runs of the real pipelines (translation with windows inside: identical; cyclic roll of "
        "the full-frame method: float32 tolerance; transposition with swapped peaks; integer offsets 1..10^4 on integer "
        "data: identical) on square and non-square frames. Non-trivial: non-square frame or non-zero translation in both "
        "axes (distinct = case hashes).")
ASSUMPTIONS = ["float32 rounding of the full-frame method under cyclic shifts and the transposition of the complete "
               "evaluation (row-major argmax tie-breaking) are checked by the oracle only"]


def corr(ctx, drv):
    rng = np.random.default_rng(ctx.seed + 14)
    for k in range(40 if ctx.tier == "thorough" else 12):
        fy, fx = int(rng.integers(10, 14)), int(rng.integers(10, 14))
        c = int(rng.integers(1, 3))
        frame = rng.integers(1, 500, (fy, fx)).astype(np.float64)
        t = (int(rng.integers(-2, 3)), int(rng.integers(-2, 3)))
        p0 = (int(rng.integers(c + 2, fy - c - 1)), int(rng.integers(c + 2, fx - c - 1)))
        p1 = (p0[0] + t[0], p0[1] + t[1])
        rolled = np.roll(frame, t, axis=(0, 1))
        msgs = []
        vals = lambda a: " ".join(str(int(v)) for v in a.ravel())  # noqa: E731
        a = drv.ask(f"crop_pixel {fy} {fx} {c} {p0[0]} {p0[1]} {2 * c} {2 * c} {vals(frame)}")
        b = drv.ask(f"crop_pixel {fy} {fx} {c} {p1[0]} {p1[1]} {2 * c} {2 * c} {vals(rolled)}")
        inside = all(0 <= q - c and q + c <= s for q, s in ((p0[0], fy), (p0[1], fx), (p1[0], fy), (p1[1], fx)))
        # the roll wraps; only compare when neither window touches the wrapped seam
        seam = not all(max(0, tt) <= q - c and q + c <= s + min(0, tt) for q, s, tt in
                       ((p1[0], fy, t[0]), (p1[1], fx, t[1])))
        if inside and not seam and a != b:
            msgs.append(f"model: crop of the translated frame differs: {a} vs {b}")
        bufs = np.zeros((2, 2 * c, 2 * c))
        bc.crop_disks_from_frame(np.array([p0]), frame, c, bufs[:1])
        bc.crop_disks_from_frame(np.array([p1]), rolled, c, bufs[1:])
        if inside and not seam and not np.array_equal(bufs[0], bufs[1]):
            msgs.append("implementation: crop of the translated frame differs")
        koff = int(rng.integers(1, 10000))
        la = drv.ask("logarg crop " + vals(bufs[0]))
        lb = drv.ask("logarg crop " + vals(bufs[0] + koff))
        if la != lb:
            msgs.append(f"model: log argument changes under an offset of {koff}")
        x1, x2 = bufs[:1].astype(np.float32).copy(), (bufs[:1] + koff).astype(np.float32)
        bc.log_scale_cropbufs_inplace(x1)
        bc.log_scale_cropbufs_inplace(x2)
        if not np.array_equal(x1, x2):
            msgs.append(f"implementation: log-scaled crop changes under an offset of {koff}")
        # cyclic roll of the correlation map (model) and of the real full-frame map
        mask = np.zeros((fy, fx))
        mask[fy // 2, fx // 2] = 2
        mask[fy // 2, fx // 2 + 1] = 1
        mask[fy // 2 - 1, fx // 2] = -1
        ma = np.array(drv.ask(f"conv fft.ifftshift {fy} {fx} {vals(mask)} {vals(frame)}").split())
        mb = np.array(drv.ask(f"conv fft.ifftshift {fy} {fx} {vals(mask)} {vals(rolled)}").split())
        if not np.array_equal(np.roll(ma.reshape(fy, fx), t, axis=(0, 1)), mb.reshape(fy, fx)):
            msgs.append("model: correlation map of the rolled frame is not the rolled correlation map")
        ra = np.fft.ifftshift(np.fft.irfft2(np.fft.rfft2(mask) * np.fft.rfft2(frame), s=frame.shape))
        if np.abs(ra.ravel() - ma.astype(float)).max() > 1e-6 * np.abs(ra).max():
            msgs.append("numpy FFT correlation differs from the model's direct sum")
        ctx.corr_case("relations", {"frame": frame, "c": c, "t": list(t), "p": list(p0), "offset": koff}, msgs,
                      nontrivial=(fy != fx or (t[0] != 0 and t[1] != 0)))
    ctx.count("relations")


def same(a, b, what, exact=True, tol=1e-4, anchor_rounding=False, ref_tol=None):
    """anchor_rounding: refined positions are float32(window-relative + peak - c); translating the peak changes the
    rounding of that sum by up to one float32 ulp of the coordinate, which is not a position dependence"""
    msgs = []
    for nm, x, y in zip(("centres", "refineds", "heights", "elevations"), a, b):
        x, y = np.asarray(x, dtype=np.float64), np.asarray(y, dtype=np.float64)
        if exact and anchor_rounding and nm == "refineds":
            lim = 4 * np.spacing(np.float32(np.maximum(1.0, np.maximum(np.abs(x), np.abs(y))) + 16))
            if np.any(np.abs(x - y) > lim):
                i = np.argwhere(np.abs(x - y) > lim)[0].tolist()
                msgs.append(f"{what}: {nm} differ at {i}: {x[tuple(i)]} vs {y[tuple(i)]}")
        elif exact:
            if not np.array_equal(x, y, equal_nan=True):
                i = np.argwhere(~np.isclose(x, y, rtol=0, atol=0, equal_nan=True))[0].tolist()
                msgs.append(f"{what}: {nm} differ at {i}: {x[tuple(i)]} vs {y[tuple(i)]}")
        else:
            lim = tol * np.maximum(1.0, np.abs(x))
            if nm == "centres":
                continue
            if nm == "refineds" and ref_tol is not None:
                lim = np.maximum(lim, np.minimum(np.asarray(ref_tol, dtype=np.float64), 0.5)[:, None])
            if np.any(np.abs(x - y) > lim):
                i = np.argwhere(np.abs(x - y) > lim)[0].tolist()
                msgs.append(f"{what}: {nm} differ at {i}: {x[tuple(i)]} vs {y[tuple(i)]}")
    return msgs


def run_case(kind, p):
    if p.get("backend") == "slicing":
        # the same relations with the slicing crop function (the one the UDFs select for sparse / GPU back-ends)
        import functools
        from libertem_blobfinder.base import correlation as bc_
        keep_ = (impl.run_fast, impl.run_full)
        impl.run_fast = functools.partial(keep_[0], crop_function=bc_.crop_disks_from_frame_slicing)
        impl.run_full = functools.partial(keep_[1], crop_function=bc_.crop_disks_from_frame_slicing)
        try:
            return run_case(kind, dict(p, backend="pixel"))
        finally:
            impl.run_fast, impl.run_full = keep_
    if kind == "wide":
        return wide_case(p)
    rng = np.random.default_rng(p["seed"])
    pattern = impl.pattern_from(p["pattern"])
    c = pattern.get_crop_size()
    shape = tuple(p["shape"])
    msgs = []
    for s_ in p.get("prior_shapes", []):
        # call history: the pattern object has served frames of other shapes before (the relations are about what is computed
        # for THIS frame, whatever the object was asked earlier)
        pattern.get_template(tuple(s_))
    if p["frame_kind"] == "int":
        frame = rng.poisson(30, shape).astype(np.float32)
    else:
        frame = impl.noise_frame(rng, shape, p["frame_kind"])
    peaks = np.asarray(p["peaks"], dtype=np.int64)
    t = np.asarray(p["t"])
    us = p.get("upsample", False)      # DFT upsampling of the refined positions on / off: the statement does not depend on it
    ustag = f", upsample={us}" if us else ""
    # one frame buffer per frame shape, shared by all full-frame runs of this case (the documented way of using it)
    fbufs = {}

    def run_full(fr, pat_, pk, **kw):
        for s_ in p.get("prior_shapes", []):     # ... also right before each full-frame call (the crop-based calls in between ask
            pat_.get_template(tuple(s_))         # for templates of the window shape)
        return impl.run_full(fr, pat_, pk, frame_buf=fbufs.setdefault(fr.shape, np.zeros(fr.shape, np.float32)), **kw)
    # --- translation, crop based: embed in a larger canvas so that windows stay inside -------------
    big = np.zeros((shape[0] + 12, shape[1] + 12), np.float32) + float(frame.min())
    big2 = big.copy()
    big[6:6 + shape[0], 6:6 + shape[1]] = frame
    big2[6 + t[0]:6 + t[0] + shape[0], 6 + t[1]:6 + t[1] + shape[1]] = frame
    inner = peaks[np.all((peaks - c >= 0) & (peaks + c <= np.array(shape)), axis=1)]
    if len(inner):
        a = impl.run_fast(big, pattern, inner + 6, b=p["b"], upsample=us)
        b = impl.run_fast(big2, pattern, inner + 6 + t, b=p["b"], upsample=us)
        b = (b[0] - t, b[1] - t.astype(np.float32), b[2], b[3])
        msgs += same(a, b, f"fast, translation {t.tolist()}{ustag}", anchor_rounding=True)
    # --- cyclic roll, full frame ----------------------------------------------------------------
    rolled = np.roll(frame, tuple(t), axis=(0, 1))
    ok = np.all((peaks - c >= 0) & (peaks + c <= np.array(shape)) & (peaks + t - c >= 0)
                & (peaks + t + c <= np.array(shape)), axis=1)
    if ok.any():
        a = run_full(frame, pattern, peaks[ok], b=p["b"], upsample=us)
        b = run_full(rolled, pattern, peaks[ok] + t, b=p["b"], upsample=us)
        b = (b[0] - t, b[1] - t.astype(np.float32), b[2], b[3])
        # a centre may differ between the two runs only where the maximum is tied within float32 rounding, judged on the
        # independent float64 reference map (no FFT); such entries are compared by this rule only
        import refimpl
        keep = np.ones(len(a[0]), dtype=bool)
        pk = peaks[ok]
        for j in np.flatnonzero(np.any(np.asarray(a[0]) != np.asarray(b[0]), axis=1)):
            m_ = refimpl.ref_maps(frame.astype(np.float64), pattern, pk[j:j + 1], "full")[0]
            rel = (np.asarray(b[0][j]) - pk[j] + c).astype(int)
            if np.all(rel >= 0) and np.all(rel < 2 * c) and np.ptp(m_) > 0 and m_[rel[0], rel[1]] >= m_.max() - 2e-4 * max(1.0, abs(m_.max())):
                keep[j] = False
            else:
                msgs.append(f"full, cyclic shift {t.tolist()}{ustag}: centres differ {a[0][j].tolist()} vs {b[0][j].tolist()}")
        if us:
            # upsampled refined positions: the candidate grid has steps of 1/upsample, and two neighbouring candidates can be
            # tied within float32 rounding; a difference between the two runs is excused iff *both* results are maximisers
            # (within 2e-4 relative) of the objective the upsampling maximises, recomputed in float64 for each frame
            usf = 20 if us is True else int(us)
            d_ref = np.abs(np.asarray(a[1], dtype=np.float64) - np.asarray(b[1], dtype=np.float64)).max(axis=1)
            mask_full = pattern.get_mask(shape)
            for j in np.flatnonzero(keep & (d_ref > 1e-4)):
                ok_both = True
                for fr_, cen_, ref_ in ((frame, a[0][j], a[1][j]), (rolled, b[0][j] + t, b[1][j] + t.astype(np.float32))):
                    f64 = fr_.astype(np.float64)
                    ok_both &= refimpl.is_half_spectrum_maximiser(mask_full, np.log(f64 - f64.min() + 1),
                                                                  np.asarray(cen_, dtype=float), usf, np.asarray(ref_, dtype=float))
                if ok_both:
                    keep[j] = False
        if keep.any():
            # the centre-of-mass refinement divides by the sum of (value - minimum) over the 5x5 neighbourhood: on a plateau of the
            # correlation map (all 25 values equal to a few 1e-3) that sum is tiny and float32 rounding of the map (a few ulp of its
            # magnitude per value) moves the centre of mass by much more than an ulp -- such entries get the tolerance that the
            # conditioning of the quotient implies (from the float64 reference map), everything else the usual 1e-4
            ref_tol = np.zeros(len(a[0]))
            if not us:
                for j in np.flatnonzero(keep):
                    m_ = refimpl.ref_maps(frame.astype(np.float64), pattern, pk[j:j + 1], "full")[0]
                    rel = (np.asarray(a[0][j]) - pk[j] + c).astype(int)
                    if np.all(rel >= 0) and np.all(rel < 2 * c):
                        r_ = int(min(2, rel[0], rel[1], 2 * c - rel[0] - 1, 2 * c - rel[1] - 1))
                        if r_ > 0:
                            cut = m_[rel[0] - r_:rel[0] + r_ + 1, rel[1] - r_:rel[1] + r_ + 1]
                            s_ = float((cut - cut.min()).sum())
                            if s_ > 0:
                                ref_tol[j] = 32 * float(np.finfo(np.float32).eps) * float(np.abs(m_).max()) * cut.size * r_ / s_
            msgs += same(tuple(np.asarray(x)[keep] for x in a), tuple(np.asarray(x)[keep] for x in b),
                         f"full, cyclic shift {t.tolist()}{ustag}", exact=False, ref_tol=ref_tol[keep])
    # --- transposition -----------------------------------------------------------------------------
    for nm, runner in (("fast", impl.run_fast), ("full", run_full)):
        a = runner(frame, pattern, peaks, b=p["b"], upsample=us)
        pattern_t = pattern
        if p["pattern"].get("user_shape"):       # a non-square user template is transposed with the frame
            pattern_t = impl.pattern_from(dict(p["pattern"], user_shape=list(p["pattern"]["user_shape"])[::-1]))
        b = runner(np.ascontiguousarray(frame.T), pattern_t, peaks[:, ::-1].copy(), b=p["b"], upsample=us)
        b = (b[0][:, ::-1], b[1][:, ::-1], b[2], b[3])
        clear = np.asarray(a[3]) > 1e-3            # a unique maximum (ties break in row-major order)
        # ... and unique beyond float32 rounding: where the two runs report different centres and the independent float64
        # reference map (no FFT) has, at the other centre, a value within float32 rounding of its maximum, the maximum is
        # tied for the implementation and either answer is right (compared by this rule only)
        import refimpl
        for j in np.flatnonzero(clear & np.any(np.asarray(a[0]) != np.asarray(b[0]), axis=1)):
            m_ = refimpl.ref_maps(frame.astype(np.float64), pattern, peaks[j:j + 1], nm)[0]
            rel = (np.asarray(b[0][j]) - peaks[j] + c).astype(int)
            if np.all(rel >= 0) and np.all(rel < 2 * c) and np.ptp(m_) > 0 and m_[rel[0], rel[1]] >= m_.max() - 2e-4 * max(1.0, abs(m_.max())):
                clear[j] = False
        if clear.any():
            msgs += same(tuple(np.asarray(x)[clear] for x in a), tuple(np.asarray(x)[clear] for x in b),
                         f"{nm}, transposed{ustag}", exact=False, tol=2e-4)
            if not np.array_equal(a[0][clear], b[0][clear]):
                i = int(np.argwhere(np.any(a[0][clear] != b[0][clear], axis=1))[0][0])
                msgs.append(f"{nm}, transposed{ustag}: centres differ {a[0][clear][i].tolist()} vs {b[0][clear][i].tolist()}")
    # --- offset --------------------------------------------------------------------------------------
    if p["frame_kind"] == "int":
        for nm, runner in (("fast", impl.run_fast), ("full", run_full)):
            a = runner(frame, pattern, peaks, b=p["b"])
            b = runner(frame + np.float32(p["offset"]), pattern, peaks, b=p["b"])
            if nm == "fast":
                # windows reaching outside the frame see zero padding, whose level is not offset: inside only
                ins = np.all((peaks - c >= 0) & (peaks + c <= np.array(shape)), axis=1)
                a, b = tuple(np.asarray(x)[ins] for x in a), tuple(np.asarray(x)[ins] for x in b)
            msgs += same(a, b, f"{nm}, offset {p['offset']}")
        # the same on integer detector counts kept in an unsigned dtype (counts + pedestal fit easily: < 2**15)
        u0 = frame.astype(np.uint16) + np.uint16(p["offset"] % 7)
        u1 = u0 + np.uint16(p["offset"])
        for nm, runner in (("fast", impl.run_fast), ("full", run_full)):
            a = runner(u0, pattern, peaks, b=p["b"])
            b = runner(u1, pattern, peaks, b=p["b"])
            f = runner(u0.astype(np.float32), pattern, peaks, b=p["b"])
            if nm == "fast":
                ins = np.all((peaks - c >= 0) & (peaks + c <= np.array(shape)), axis=1)
                a, b, f = (tuple(np.asarray(x)[ins] for x in r_) for r_ in (a, b, f))
            msgs += same(a, b, f"{nm}, uint16 frame, offset {p['offset']}")
            msgs += same(a, f, f"{nm}, uint16 frame vs the same counts as float32")
    return msgs[:8]


def wide_case(p):
    """translation along a long axis through the batch helper of the full-frame method (its own output arrays), upsampling on:
    detector-sized coordinates (> 1600 px) times the upsampling factor"""
    import refimpl
    from libertem_blobfinder.common import correlation as cc
    rng = np.random.default_rng(p["seed"])
    shape = tuple(p["shape"])
    pattern = impl.pattern_from(p["pattern"])
    frame = impl.noise_frame(rng, shape, "disks")
    peaks = np.asarray(p["peaks"], dtype=np.int64)
    t = np.asarray(p["t"])
    us = p["upsample"]
    msgs = []
    try:
        a = cc.process_frames_full(pattern, frame[np.newaxis], peaks, upsample=us)
        b = cc.process_frames_full(pattern, np.roll(frame, tuple(t), axis=(0, 1))[np.newaxis], peaks + t, upsample=us)
    except Exception as e:
        return [f"process_frames_full raised {type(e).__name__}: {e}"]
    a = tuple(np.asarray(x[0]) for x in a)
    b = tuple(np.asarray(x[0]) for x in b)
    mask_full = pattern.get_mask(shape)
    logs = {}
    for j in range(len(peaks)):
        if np.any(a[0][j].astype(np.int64) != b[0][j].astype(np.int64) - t):
            continue        # tied maxima are the subject of the other clauses
        d = np.abs(a[1][j].astype(np.float64) - (b[1][j].astype(np.float64) - t))
        if d.max() <= 1e-3:
            continue
        ok_both = True
        for key, fr_, cen_, ref_ in (("a", frame, a[0][j], a[1][j]), ("b", np.roll(frame, tuple(t), axis=(0, 1)), b[0][j], b[1][j])):
            if key not in logs:
                f64 = fr_.astype(np.float64)
                logs[key] = np.log(f64 - f64.min() + 1)
            ok_both &= refimpl.is_half_spectrum_maximiser(mask_full, logs[key], np.asarray(cen_, dtype=float), int(us),
                                                          np.asarray(ref_, dtype=float))
        if not ok_both:
            msgs.append(f"process_frames_full(upsample={us}) on a {shape} frame: peak {peaks[j].tolist()} translated by {t.tolist()}: "
                        f"refined {a[1][j].tolist()} vs {(b[1][j] - t).tolist()} (translated back)")
    return msgs[:4]


def classify(kind, p, msgs):
    """known finding D15 seen through C14: with DFT upsampling on, the refined position is the maximiser of the modulus of the
    *half-spectrum* sum (rfft along the last axis), which is not the correlation; transposing the frame makes the other axis
    the half axis, so the upsampled refined positions of a frame and of its transpose are not mirror images.  Keyed to the
    cause: only refined positions of the transposition clause differ, and in *both* orientations the implementation's result
    is a maximiser of that half-spectrum objective, recomputed in float64 from its definition (refimpl)."""
    us = p.get("upsample", False)
    if not us or not msgs or not all(", transposed, upsample=" in m and ": refineds differ" in m for m in msgs):
        return None
    import refimpl
    us = 20 if us is True else int(us)
    rng = np.random.default_rng(p["seed"])
    pattern = impl.pattern_from(p["pattern"])
    c = pattern.get_crop_size()
    shape = tuple(p["shape"])
    frame = rng.poisson(30, shape).astype(np.float32) if p["frame_kind"] == "int" else impl.noise_frame(rng, shape, p["frame_kind"])
    peaks = np.asarray(p["peaks"], dtype=np.int64)
    pattern_t = pattern
    if p["pattern"].get("user_shape"):
        pattern_t = impl.pattern_from(dict(p["pattern"], user_shape=list(p["pattern"]["user_shape"])[::-1]))
    for fr, pk, pattern in ((frame, peaks, pattern), (np.ascontiguousarray(frame.T), peaks[:, ::-1].copy(), pattern_t)):
        f64 = fr.astype(np.float64)
        for nm, runner in (("fast", impl.run_fast), ("full", impl.run_full)):
            if not any(m.startswith(nm + ",") for m in msgs):
                continue
            out = runner(fr, pattern, pk, b=p["b"], upsample=us)
            for j, q in enumerate(pk):
                if nm == "full":
                    mask, data = pattern.get_mask(fr.shape), np.log(f64 - f64.min() + 1)
                    cen, ref = out[0][j], out[1][j]
                else:
                    win = refimpl.window(f64, c, q)
                    mask, data = pattern.get_mask((2 * c, 2 * c)), np.log(win - win.min() + 1)
                    cen, ref = out[0][j] - q + c, out[1][j] - q + c
                if not refimpl.is_half_spectrum_maximiser(mask, data, np.asarray(cen, dtype=float), us, np.asarray(ref, dtype=float)):
                    return None
    return "D15"


def search(ctx, boost=1, focus=()):
    rng = np.random.default_rng(ctx.seed + 1014)
    n = (160 if ctx.tier == "thorough" else 32) * boost
    for k in range(n):
        pat = impl.pattern_params(rng, rmin=2.0, rmax=5.0)
        if (k // 5) % 4 == 2:
            # a user template that is larger than the search window along one axis and smaller along the other (non-square)
            r_ = float(np.round(rng.uniform(2.0, 3.5), 2))
            c_ = int(rng.integers(6, 10))
            big, small = 2 * c_ + int(rng.choice([1, 3, 5, 4])), 2 * c_ - int(rng.choice([1, 3, 5, 7, 2]))
            small = max(small, 2 * int(np.ceil(r_)) + 3)
            pat = {"kind": "user", "radius": r_, "search": float(c_), "user_shape": [big, small] if k % 2 else [small, big]}
            if (k // 20) % 2 == 1:
                # the search range left at its default (half the diagonal of the template: the same for a template and its transpose)
                hh, ww = int(rng.integers(7, 12)), int(rng.integers(13, 18))
                pat = {"kind": "user", "radius": r_, "search": None, "user_shape": [hh, ww] if k % 2 else [ww, hh]}
        c = int(np.ceil(pat["search"])) if pat["search"] is not None else int(np.ceil(np.hypot(*pat["user_shape"]) / 2))
        shape = [int(rng.integers(2 * c + 6, 64)), int(rng.integers(2 * c + 6, 64))]
        if k % 3 == 0:
            shape[1] = shape[0]
        npk = int(rng.integers(1, 7))
        peaks = np.stack([rng.integers(c, shape[0] - c + 1, npk), rng.integers(c, shape[1] - c + 1, npk)], axis=1)
        if k % 2:
            peaks[0] = (int(rng.integers(-c, c)), int(rng.integers(0, shape[1])))
        p = {"seed": int(rng.integers(1 << 30)), "pattern": pat, "shape": shape,
             "frame_kind": ("int", "gauss", "disks", "int")[k % 4], "peaks": peaks.tolist(),
             "t": [int(rng.integers(-5, 6)), int(rng.integers(-5, 6))], "b": int(rng.integers(1, npk + 2)),
             "offset": int(rng.integers(1, 10001)), "upsample": (False, False, 20, False, int(rng.integers(2, 51)), True)[(k // 4) % 6],
             "backend": "slicing" if (k // 2) % 3 == 1 else "pixel"}
        if p["backend"] == "slicing" and k % 4 < 2:
            # a frame that is clearly wider than high (or higher than wide), peaks in the far part of the long axis
            long_ = int(rng.integers(90, 130))
            p["shape"] = [shape[0], long_] if k % 2 == 0 else [long_, shape[1]]
            shape = p["shape"]
            peaks = np.stack([rng.integers(c, shape[0] - c + 1, npk), rng.integers(c, shape[1] - c + 1, npk)], axis=1)
            peaks[0] = (shape[0] - c - int(rng.integers(0, 5)), shape[1] - c - int(rng.integers(0, 5)))
            p["peaks"] = peaks.tolist()
        if k % 3 == 1:
            # an earlier frame whose half-spectrum has the same shape (width 2n <-> 2n + 1), or its transpose, or a larger one
            tw_ = shape[1] + 1 if shape[1] % 2 == 0 else shape[1] - 1
            p["prior_shapes"] = [[[shape[0], tw_]], [[shape[1], shape[0]], [shape[0], tw_]], [[shape[0] + 6, shape[1] + 5]]][(k // 3) % 3]
            ctx.count("prior_shapes")
        msgs_ = run_case("relations", p)
        ctx.oracle_case("relations", p, msgs_, key=classify("relations", p, msgs_) if msgs_ else None,
                        nontrivial=(shape[0] != shape[1] or (p["t"][0] != 0 and p["t"][1] != 0)))
        ctx.count("oracle_" + p["frame_kind"])
    for k in range(2 if ctx.tier == "quick" else 6):
        pat = impl.pattern_params(rng, kinds=("circular", "background_subtraction", "radial_gradient"), rmin=2.0, rmax=4.0)
        c = int(np.ceil(pat["search"]))
        us = int((20, 25, 40, 20, 32, 50)[k])
        thr = int(np.ceil(2 ** 15 / us))        # coordinate * upsample passes 2**15 here
        long_n = thr + 420 + 2 * c
        shape = [int(rng.integers(2 * c + 6, 2 * c + 24)), long_n]
        if k % 2:
            shape = shape[::-1]
        long_ax = int(np.argmax(shape))
        t = [0, 0]
        t[long_ax] = int(rng.integers(60, 300))
        t[1 - long_ax] = int(rng.integers(-2, 3))
        npk = 6
        peaks = np.zeros((npk, 2), dtype=int)
        peaks[:, long_ax] = rng.integers(thr - 280, thr + 100, npk)       # some translated across that coordinate, some not
        peaks[:, 1 - long_ax] = rng.integers(c + 2, shape[1 - long_ax] - c - 2, npk)
        p = {"seed": int(rng.integers(1 << 30)), "pattern": pat, "shape": shape, "peaks": peaks.tolist(), "t": t,
             "upsample": us}
        ctx.oracle_case("wide", p, run_case("wide", p), nontrivial=True)
        ctx.count("oracle_wide")
