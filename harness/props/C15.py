"""C15 — frame dtype does not matter."""
import warnings

import numpy as np

import impl
from libertem_blobfinder.base import correlation as bc
from libertem_blobfinder.common import correlation as cc

PROP = "C15"
LEAN_MODULE = "BlobfinderModel.Properties.C15"
GEN_FILES = ["Eval"]
FRAGMENTS = ["log_scale", "dtypes", "wrappers_text"]
DRIVER = "drvcorr"
DTYPES = ["uint8", "uint16", "uint32", "uint64", "int8", "int16", "int32", "int64", "float32", "float64"]
RULE = ("correspondence: the model's dtype table (promotion with float32, value range) vs the live NumPy for all ten "
        "dtypes; log_scale / log_scale_cropbufs_inplace on arrays holding the dtype's extremes vs log of the model's exact "
        "argument; oracle: both batch entry points on the same pixel values in every dtype vs float64 input (centres equal, "
        "other outputs to float32 rounding), values spanning the whole range of 8/16-bit types, up to 2^24 for wider ones, plus a small signal on a constant level of 2^30 / 2^50 for 32 / 64-bit "
        "integers (exact in the integer dtype and in float64, not in float32). "
        "exhaustive over the dtype list. Non-trivial: integer dtype whose values include both extremes (distinct = hashes).")
ASSUMPTIONS = ["A-FLOAT: after the (exact) log argument, log / FFT / kernels run in float32 or float64; agreement 'to float32 "
               "rounding' is checked by the oracle, not proved"]


def corr(ctx, drv):
    for name in DTYPES:
        dt = np.dtype(name)
        msgs = []
        if dt.kind in "iu":
            info = np.iinfo(dt)
            lo, hi = int(info.min), int(info.max)
            if dt.itemsize > 2:
                lo, hi = max(lo, -2 ** 24), 2 ** 24
        else:
            lo, hi = -1000, 1000
        mo = drv.ask(f"dtype {name} {hi} {lo}").split()
        if mo[0] != np.result_type(dt, np.float32).name:
            msgs.append(f"promotion of {name}: numpy {np.result_type(dt, np.float32).name} model {mo[0]}")
        if dt.kind in "iu" and dt.itemsize <= 2 and (int(mo[1]), int(mo[2])) != (lo, hi):
            msgs.append(f"range of {name}: numpy {(lo, hi)} model {mo[1:3]}")
        exact = int(mo[4])
        data = np.array([[lo, hi], [lo, (lo + hi) // 2]], dtype=dt)
        with warnings.catch_warnings():
            warnings.simplefilter("ignore")
            try:
                out = bc.log_scale(data, out=None)
                want = np.log(np.array([[1.0, float(exact)], [1.0, float((lo + hi) // 2 - lo + 1)]]))
                if not np.allclose(out, want, rtol=1e-6, atol=0):
                    msgs.append(f"log_scale({name} extremes) = {out.tolist()} expected {want.tolist()} "
                                f"(in-dtype arithmetic would give {mo[3]})")
                if out.dtype != np.result_type(dt, np.float32):
                    msgs.append(f"log_scale({name}) computes in {out.dtype}")
            except Exception as e:
                msgs.append(f"log_scale({name}) raised {type(e).__name__}: {e}")
            bufs = data.astype(np.result_type(dt, np.float32))[np.newaxis].copy()
            try:
                bc.log_scale_cropbufs_inplace(bufs)
                if not np.allclose(bufs[0], want, rtol=1e-6, atol=0):
                    msgs.append(f"log_scale_cropbufs_inplace on promoted {name} data differs")
            except Exception as e:
                msgs.append(f"log_scale_cropbufs_inplace raised {type(e).__name__}: {e}")
        ctx.corr_case("dtype", {"dtype": name, "lo": lo, "hi": hi}, msgs, hkey=("dt", name))
    # float32 on integers (Model.f32int, theorem cropbuf_arg_exact_f32): numpy's float32 conversion of integers up to 2**25, and the
    # argument exp(result) of log_scale_cropbufs_inplace on float32 buffers against Model.cropArgF32
    rng = np.random.default_rng(ctx.seed + 15)
    ns = [2 ** 24, 2 ** 24 + 1, 2 ** 24 + 2, 2 ** 24 + 3, 2 ** 25 - 1, 2 ** 25, -2 ** 24 - 1, -2 ** 24 - 3, 2 ** 24 - 1, 0, 1, -1]
    ns += [int(v) for v in rng.integers(-2 ** 25, 2 ** 25 + 1, 40)] + [int(v) for v in rng.integers(2 ** 24 - 8, 2 ** 24 + 40, 20)]
    mo = drv.ask("f32 " + " ".join(str(n) for n in ns)).split()
    msgs = [f"float32({n}) = {int(np.float32(n))}, model {m}" for n, m in zip(ns, mo) if m == "-" or int(np.float32(n)) != int(m)]
    ctx.corr_case("f32int", {"ns": ns}, msgs, nontrivial=True)
    for k in range(60 if ctx.tier == "thorough" else 20):
        m_ = int(rng.integers(-2 ** 24, 2 ** 24 - 40)) if k % 3 else 2 ** 24 - int(rng.integers(2, 60))
        x_ = min(2 ** 24, m_ + int(rng.integers(0, 60))) if k % 2 else 2 ** 24
        if k % 5 == 4:
            x_ = min(2 ** 24, m_ + int(rng.integers(2 ** 24 - 3, 2 ** 24 + 3)))
        msgs = []
        mo = drv.ask(f"f32arg {x_} {m_}")
        bufs = np.array([[[m_, x_]]], dtype=np.float32)
        with warnings.catch_warnings():
            warnings.simplefilter("ignore")
            try:
                bc.log_scale_cropbufs_inplace(bufs)
                got = float(bufs[0, 0, 1])
                if mo != "-" and abs(got - float(np.float32(np.log(np.float32(int(mo)))))) > 2e-7 * max(1.0, abs(got)):
                    msgs.append(f"float32 crop buffer [{m_}, {x_}]: log-scaled value {got!r} is not log({mo}) (model argument)")
            except Exception as e:      # noqa: BLE001
                msgs.append(f"log_scale_cropbufs_inplace raised {type(e).__name__}: {e}")
        ctx.corr_case("f32arg", {"x": x_, "m": m_}, msgs, nontrivial=x_ == 2 ** 24)
        ctx.count("f32arg_model_" + ("none" if mo == "-" else "exact" if int(mo) == x_ - m_ + 1 else "rounded"))
    ctx.exhaustive_range = {"dtypes": DTYPES}


def values_for(rng, name, shape, spread):
    dt = np.dtype(name)
    if dt.kind in "iu":
        info = np.iinfo(dt)
        lo, hi = int(info.min), int(info.max)
        if dt.itemsize > 2:
            lo, hi = (0 if dt.kind == "u" else -2 ** 20), 2 ** 24
    else:
        lo, hi = -2 ** 24, 2 ** 24      # both ends of the stated range are exactly representable in float32
    if spread == "narrow":
        lo, hi = max(lo, 0), min(hi, 100)
    if spread == "lifted":
        # a detector pedestal: the smallest count is a few units above zero (unsigned) / above the dtype minimum
        lo, hi = (lo if dt.kind == "f" else max(lo, 0)) + int(rng.integers(1, 40)), min(hi, 4000 if dt.itemsize > 1 else hi)
    if spread == "min1":
        # counts that start at exactly 1 (no empty pixel): the smallest value for which log(x - min + 1) = log(x)
        lo, hi = 1, min(hi, 4000 if dt.itemsize > 1 else hi)
    if spread == "pedestal":
        # small signal on a large constant level: exactly representable in the integer dtype and in float64, but not
        # in float32 -- the float64 route and the integer route must still agree
        level = {4: 2 ** 30, 8: 2 ** 50}[dt.itemsize] * (-1 if (dt.kind == "i" and rng.random() < 0.5) else 1)
        lo, hi = level, level + 110
    if spread == "top":
        # a few counts of signal right below the upper end of the stated range (2**24 is there, 2**24 + 1 is not a float32)
        lo, hi = 2 ** 24 - int(rng.integers(3, 60)), 2 ** 24
    if spread == "bottom":
        lo, hi = -2 ** 24, -2 ** 24 + int(rng.integers(3, 60))
    base = rng.poisson(12, shape).astype(np.float64)
    for _ in range(4):
        cy, cx = rng.integers(4, shape[0] - 4), rng.integers(4, shape[1] - 4)
        yy, xx = np.mgrid[0:shape[0], 0:shape[1]]
        base += ((yy - cy) ** 2 + (xx - cx) ** 2 <= 9) * rng.uniform(20, 200)
    base = base / base.max()
    if spread == "ramp":       # a background that rises across the frame: every window has another minimum
        yy, xx = np.mgrid[0:shape[0], 0:shape[1]]
        base = 0.4 * base + 0.6 * (yy + 2 * xx) / (shape[0] + 2 * shape[1])
        lo, hi = max(lo, 0), min(hi, 30000)
    vals = np.floor(lo + base * (hi - lo))
    if spread == "top":     # the disks saturate at the upper end
        vals = np.minimum(np.floor(lo + 2.5 * base * (hi - lo)), hi)
    vals.flat[0], vals.flat[-1] = lo, hi
    return vals


def run_case(kind, p):
    rng = np.random.default_rng(p["seed"])
    shape = tuple(p["shape"])
    pattern = impl.pattern_from(p["pattern"])
    vals = values_for(rng, p["dtype"], shape, p["spread"])
    peaks = np.asarray(p["peaks"], dtype=np.int64)
    msgs = []
    with warnings.catch_warnings():
        warnings.simplefilter("ignore")
        # a two-frame stack (the same content moved by a few pixels first): the batch helpers reuse their buffers; the float64
        # reference stack is ONE array that the caller hands to both entry points, the full-frame one first
        stack = np.stack([np.roll(vals, (3, 5), axis=(0, 1)), vals])
        stack64 = stack.astype(np.float64)
        for nm, fn in (("process_frames_full", cc.process_frames_full), ("process_frames_fast", cc.process_frames_fast)):
            try:
                kw_ = {"upsample": p["upsample"]} if p.get("upsample") else {}
                ref = fn(pattern, stack64, peaks, **kw_)
                if p.get("prior_narrow"):
                    # call history: a stack of 8-bit / 16-bit frames of the same shape, same peaks, processed right before
                    fn(pattern, (np.abs(stack) % 251).astype(p["prior_narrow"]), peaks, **kw_)
                got = fn(pattern, stack.astype(p["dtype"]), peaks, **kw_)
            except Exception as e:
                msgs.append(f"{nm} with {p['dtype']} frames raised {type(e).__name__}: {e}")
                continue
            ref = tuple(np.asarray(x).reshape((-1,) + np.asarray(x).shape[2:])[np.newaxis] for x in ref)
            got = tuple(np.asarray(x).reshape((-1,) + np.asarray(x).shape[2:])[np.newaxis] for x in got)
            for onm, a, b in zip(("centres", "refineds", "heights", "elevations"), got, ref):
                a, b = np.asarray(a[0], dtype=np.float64), np.asarray(b[0], dtype=np.float64)
                if not np.isfinite(a).all():
                    msgs.append(f"{nm}({p['dtype']}): {onm} not finite")
                    break
                if onm == "centres":
                    clear = np.asarray(ref[3][0]) > 1e-3
                    # a tie of the maximum between neighbouring pixels (plateau at the zero-padded border, feature between two
                    # pixels) is decided by rounding, which legitimately differs between float32 and float64 buffers: a centre
                    # may move to a neighbour iff height and refined position still agree
                    # ... iff the independent float64 reference map (no FFT) has, at the other centre, a value within float32
                    # rounding of its maximum over the window
                    import refimpl
                    moved_ = np.flatnonzero(np.any(a != b, axis=1))
                    tie = np.zeros(len(a), dtype=bool)
                    c_ = pattern.get_crop_size()
                    pipeline_ = "fast" if nm.endswith("fast") else "full"
                    for j_ in moved_:
                        fr_, pk_ = divmod(int(j_), len(peaks))
                        m_ = refimpl.ref_maps(stack[fr_].astype(np.float64), pattern, peaks[pk_:pk_ + 1], pipeline_)[0]
                        rel = (a[j_] - peaks[pk_] + c_).astype(int)
                        if np.all(rel >= 0) and np.all(rel < 2 * c_):
                            # (an exactly constant map -- a window that sees nothing -- is computed without any rounding: no tie to excuse)
                            tie[j_] = np.ptp(m_) > 0 and m_[rel[0], rel[1]] >= m_.max() - 2e-4 * max(1.0, abs(m_.max()))
                    bad = clear & np.any(a != b, axis=1) & ~tie
                    if bad.any():
                        msgs.append(f"{nm}({p['dtype']}): centres differ from float64 input: {a[bad].tolist()} vs {b[bad].tolist()}")
                        break
                else:
                    tol = 2e-4 * np.maximum(1.0, np.abs(b)) if onm != "refineds" else 2e-3
                    if onm == "refineds" and p.get("upsample"):
                        tol = 1.0 / float(20 if p["upsample"] is True else p["upsample"]) + 2e-3    # one step of the upsampled grid
                    if onm == "elevations":
                        # (height - value) / distance with distance >= 1.5: one float32 ulp of the height in each of the two
                        # terms is float32 rounding, whatever the size of the slope itself
                        hmag = np.maximum(1.0, np.abs(np.asarray(ref[2][0], dtype=np.float64)))
                        tol = tol + 2 * np.spacing(hmag.astype(np.float32)).astype(np.float64) / 1.5
                    clear = np.asarray(ref[3][0]) > 1e-3
                    # entries whose centre moved to a tied neighbour are compared by the tie rule above only
                    moved = np.any(np.asarray(got[0][0]) != np.asarray(ref[0][0]), axis=1)
                    clear = clear & ~moved
                    d = np.abs(a - b)
                    if np.any(d[clear] > (tol[clear] if np.ndim(tol) else tol)):
                        msgs.append(f"{nm}({p['dtype']}): {onm} differ from float64 input by {d[clear].max()}")
        if not np.array_equal(stack64, stack):
            msgs.append(f"the float64 frames handed to the batch helpers were modified (max change {np.abs(stack64 - stack).max():.4g})")
    return msgs[:6]


def search(ctx, boost=1, focus=()):
    rng = np.random.default_rng(ctx.seed + 1015)
    reps = (4 if ctx.tier == "thorough" else 1) * boost
    for rep in range(reps):
        for k, name in enumerate(DTYPES):
            for spread in ("full", "narrow", "lifted") + (("min1",) if np.dtype(name).kind in "iu" else ()) + (("pedestal",) if (np.dtype(name).kind in "iu" and np.dtype(name).itemsize >= 4) else ()) + (("top",) if np.dtype(name).itemsize >= 4 else ()) + (("bottom",) if (np.dtype(name).itemsize >= 4 and np.dtype(name).kind in "if") else ()):
                pat = impl.pattern_params(rng, kinds=("radial_gradient", "background_subtraction", "circular"), rmin=2, rmax=4)
                c = int(np.ceil(pat["search"]))
                shape = [int(rng.integers(2 * c + 8, 40)), int(rng.integers(2 * c + 8, 40))]
                npk = int(rng.integers(2, 6))
                peaks = np.stack([rng.integers(0, shape[0], npk), rng.integers(0, shape[1], npk)], axis=1)
                p = {"seed": int(rng.integers(1 << 30)), "dtype": name, "spread": spread, "pattern": pat,
                     "shape": shape, "peaks": peaks.tolist()}
                if np.dtype(name).itemsize >= 4 and spread in ("pedestal", "full", "lifted"):
                    # a stack of narrow frames (same shape, same peaks) goes through the same entry point right before
                    p["prior_narrow"] = ("uint8", "int16", "uint16")[(k + rep) % 3]
                    ctx.count("prior_narrow_call")
                ctx.oracle_case("dtype", p, run_case("dtype", p),
                                nontrivial=(np.dtype(name).kind in "iu" and spread != "narrow"))
                ctx.count("oracle_" + name)
        # many peaks with a large pattern on a rising background: more crops than one block of float64 buffers holds
        # (the number of blocks depends on the buffer dtype, which follows the frame dtype)
        for name in (("uint16", "float32", "int8", "uint32") if ctx.tier == "thorough" else ("uint16", "float32")):
            r_ = float(rng.integers(12, 17))
            pat = {"kind": "circular", "radius": r_, "search": 2 * r_}
            c = int(np.ceil(pat["search"]))
            shape = [2 * c + int(rng.integers(20, 60)), 2 * c + int(rng.integers(20, 60))]
            npk = 2 ** 19 // ((2 * c) ** 2 * 8) + int(rng.integers(2, 8))
            peaks = np.stack([rng.integers(c, shape[0] - c, npk), rng.integers(c, shape[1] - c, npk)], axis=1)
            # a few positions whose window lies entirely outside the frame, anywhere in the list (also after the first block of
            # float64 buffers) and next to windows that stick out partly
            for j_ in [npk - 1, 0] + rng.choice(npk, size=min(3, npk), replace=False).tolist():
                side = int(rng.integers(4))
                peaks[j_] = [(-c - int(rng.integers(0, 40)), int(rng.integers(0, shape[1]))),
                             (shape[0] + c + int(rng.integers(0, 40)), int(rng.integers(0, shape[1]))),
                             (int(rng.integers(0, shape[0])), -c - int(rng.integers(0, 40))),
                             (int(rng.integers(0, shape[0])), shape[1] + c + int(rng.integers(0, 40)))][side]
            peaks[int(rng.integers(npk))] = [int(rng.integers(0, c)), int(rng.integers(shape[1] - c, shape[1]))]
            p = {"seed": int(rng.integers(1 << 30)), "dtype": name, "spread": "ramp", "pattern": pat, "shape": shape,
                 "peaks": peaks.tolist(), "upsample": [None, 5, None, 20][(rep + DTYPES.index(name)) % 4] if name != "uint16" else 5}
            ctx.oracle_case("dtype", p, run_case("dtype", p), nontrivial=True)
            ctx.count("oracle_many_peaks")
    _large_crop_cases(ctx, rng, boost)


def _large_crop_cases(ctx, rng, boost):
    """a search window so large that ONE float64 crop exceeds the library's default buffer limit while one float32 crop does not
    (crop sizes 129 .. 181): every dtype is still accepted and gives the float64 result"""
    for k in range(2 * boost):
        cs = int(rng.integers(130, 181))
        pat = {"kind": "circular", "radius": float(rng.integers(5, 12)), "search": float(cs)}
        shape = [int(rng.integers(30, 60)), int(rng.integers(30, 60))]
        peaks = [[int(rng.integers(5, shape[0] - 5)), int(rng.integers(5, shape[1] - 5))]]
        name = ("uint16", "int32", "uint8", "uint32", "int64", "float32")[(k + ctx.seed) % 6]
        p = {"seed": int(rng.integers(1 << 30)), "dtype": name, "spread": "narrow", "pattern": pat, "shape": shape, "peaks": peaks}
        ctx.oracle_case("dtype", p, run_case("dtype", p), nontrivial=True)
        ctx.count("oracle_large_crop")


def extra_coverage(ctx):
    return {"exhaustive": True, "exhaustive_range": getattr(ctx, "exhaustive_range", None)}
