"""C16 — pattern masks are centred, symmetric, bounded and balanced at every size."""
import warnings
from fractions import Fraction

import numpy as np

import impl
from common import rat
from libertem_blobfinder.base import masks
from libertem_blobfinder.common import patterns as pt

PROP = "C16"
LEAN_MODULE = "BlobfinderModel.Properties.C16"
GEN_FILES = ["Masks", "Patterns"]
FRAGMENTS = ["bin_val", "bin_layout", "bin_patch", "rgbs_val", "bs_combine", "crop_size_of", "ctor_circular",
             "ctor_bs", "mask_center", "user_template", "user_template_io", "rgbs_geometry"]
DRIVER = "drvmasks"
RULE = ("correspondence: exhaustive UserTemplate source 1..12 x target 1..12 on both axes (index map, widths) vs the "
        "model; mask values of Circular / RadialGradient / RGBS template pixel by pixel at the implementation's own "
        "distances (exact rationals, tol 1e-9); constructor accept/reject + defaults + crop size on a grid; "
        "oracle: the statement's clauses on real masks for random radii / outer radii / search / shapes 2..90. "
        "Non-trivial: odd or non-square shape or fractional radius (distinct = case hashes).")
ASSUMPTIONS = [
    "A-EXT: np.pad / skimage.util.crop semantics (compared exhaustively for sizes 1..12)",
    "distances (sqrt) are taken from the implementation; D12 (RGBS not balanced) and D13 (BackgroundSubtraction NaN "
    "when the ring is outside the shape) are known findings",
]


def corr(ctx, drv):
    thorough = ctx.tier == "thorough"
    # ---- user template index map, exhaustive -----------------------------------------------
    N = 12
    lines = [f"utindex {t} {s}" for s in range(1, N + 1) for t in range(1, N + 1)]
    outs = dict(zip([(s, t) for s in range(1, N + 1) for t in range(1, N + 1)], drv.ask_many(lines)))
    ctx.exhaustive_range = {"user_template_source": "1..12 x 1..12", "target": "1..12 x 1..12 (axes independent)"}
    for s0 in range(1, N + 1):
        for s1 in (range(1, N + 1) if thorough else (1, 2, 3, 4, 5, 8, 9, 12)):
            tmpl = (np.arange(s0 * s1).reshape(s0, s1) + 1).astype(np.float64)
            p = pt.UserTemplate(tmpl)
            for t0 in range(1, N + 1):
                for t1 in (range(1, N + 1) if thorough else (1, 2, 3, 4, 7, 8, 11, 12)):
                    msgs = []
                    try:
                        got = p.get_mask((t0, t1))
                    except Exception as e:
                        got = None
                        msgs.append(f"get_mask raised {type(e).__name__}: {e}")
                    m0, m1 = outs[(s0, t0)], outs[(s1, t1)]
                    if got is not None:
                        if "negative" in m0 or "negative" in m1:
                            msgs.append("model: negative pad/crop width but the implementation returned a mask")
                        else:
                            i0 = [None if v == "N" else int(v) for v in m0.split(":")[1].split()]
                            i1 = [None if v == "N" else int(v) for v in m1.split(":")[1].split()]
                            want = np.zeros((len(i0), len(i1)))
                            for a, ia in enumerate(i0):
                                for b, ib in enumerate(i1):
                                    if ia is not None and ib is not None:
                                        want[a, b] = tmpl[ia, ib]
                            if got.shape != want.shape or not np.array_equal(got, want):
                                msgs.append(f"UserTemplate {(s0, s1)} -> {(t0, t1)}: impl {got.tolist()} model {want.tolist()}")
                    ctx.corr_case("user_template", {"source": [s0, s1], "target": [t0, t1]}, msgs,
                                  nontrivial=(s0 != t0 or s1 != t1), hkey=("ut", s0, s1, t0, t1))
    ctx.count("user_template")
    # ---- mask values -------------------------------------------------------------------------
    rng = np.random.default_rng(ctx.seed + 16)
    for k in range(60 if thorough else 16):
        sy, sx = int(rng.integers(2, 40)), int(rng.integers(2, 40))
        radius = float(np.round(rng.uniform(1.5, 12), 2)) if k % 3 else float(rng.integers(2, 12))
        cy, cx = sy // 2, sx // 2
        r, _ = masks.polar_map(cx, cy, sx, sy)
        flat = r.ravel()
        msgs = []
        cidx = cy * sx + cx
        others = [i for i in range(sy * sx) if i != cidx]
        # circular
        got = pt.Circular(radius).get_mask((sy, sx)).ravel()
        mo = [float(Fraction(v)) for v in drv.ask(f"maskval circular {rat(radius)} 0 0 0 " + " ".join(rat(float(flat[i])) for i in others)).split()]
        mc = float(Fraction(drv.ask(f"maskval circular {rat(radius)} 0 0 1 {rat(float(flat[cidx]))}")))
        model = np.zeros(sy * sx)
        model[others] = mo
        model[cidx] = mc
        if np.abs(model - got).max() > 1e-9:
            i = int(np.argmax(np.abs(model - got)))
            msgs.append(f"Circular({radius}) {sy}x{sx} pixel {(i // sx, i % sx)}: impl {got[i]!r} model {model[i]!r}")
        # radial gradient: its distance comes from np.sqrt(x**2 + y**2) on an integer ogrid
        yy, xx = np.ogrid[-cy:sy - cy, -cx:sx - cx]
        rg = np.sqrt(yy ** 2 + xx ** 2).ravel()
        got = pt.RadialGradient(radius).get_mask((sy, sx)).ravel()
        mo = np.array([float(Fraction(v)) for v in drv.ask(f"maskval gradient {rat(radius)} 0 0 0 " + " ".join(rat(float(v)) for v in rg)).split()])
        if np.abs(mo - got).max() > 1e-9:
            i = int(np.argmax(np.abs(mo - got)))
            msgs.append(f"RadialGradient({radius}) {sy}x{sx} pixel {(i // sx, i % sx)}: impl {got[i]!r} model {mo[i]!r}")
        # RGBS template on its own radial map
        outer = float(np.round(radius * rng.uniform(1.1, 1.9), 2))
        pat = pt.RadialGradientBackgroundSubtraction(radius, radius_outer=outer)
        rm = pat.radial_map.ravel()
        got = pat.template.ravel()
        mo = np.array([float(Fraction(v)) for v in drv.ask(f"maskval rgbs {rat(radius)} {rat(outer)} 1 0 " + " ".join(rat(float(v)) for v in rm)).split()])
        if mo.shape != got.shape or np.abs(mo - got).max() > 1e-9:
            msgs.append(f"RGBS({radius}, outer={outer}) template differs from the model")
        geo = drv.ask(f"ctor rgbs {rat(radius)} N {rat(outer)}").split()
        if geo[0] != "ok" or pat.radial_map.shape != (int(geo[5]), int(geo[5])):
            msgs.append(f"RGBS default radial map shape {pat.radial_map.shape} model {geo}")
        elif pat.radial_map[int(geo[4]), int(geo[4])] != 0:
            msgs.append(f"RGBS default radial map is not centred on pixel {geo[4]}")
        ctx.corr_case("mask_values", {"shape": [sy, sx], "radius": radius, "outer": outer}, msgs,
                      nontrivial=(sy % 2 == 1 or sx % 2 == 1 or radius != int(radius)))
    ctx.count("mask_values")
    # ---- constructors ---------------------------------------------------------------------------
    vals = [None, 1.5, 2.0, 3.0, 4.5, 6.0, 9.0]
    classes = {"circular": pt.Circular, "radial_gradient": pt.RadialGradient,
               "background_subtraction": pt.BackgroundSubtraction, "rgbs": pt.RadialGradientBackgroundSubtraction}
    for kind, cls in classes.items():
        for radius in (1.5, 3.0, 4.0, 6.5):
            for search in vals:
                for outer in (vals if kind in ("background_subtraction", "rgbs") else [None]):
                    mo = drv.ask(f"ctor {kind} {rat(radius)} {'N' if search is None else rat(search)} {'N' if outer is None else rat(outer)}")
                    kw = {"radius": radius}
                    if search is not None:
                        kw["search"] = search
                    if outer is not None:
                        kw["radius_outer"] = outer
                    msgs = []
                    try:
                        p = cls(**kw)
                        got = f"ok {rat(p.search)} {p.get_crop_size()}"
                        if not mo.startswith(got):
                            msgs.append(f"{kind}{kw}: impl '{got}' model '{mo}'")
                    except ValueError:
                        if mo != "ValueError":
                            msgs.append(f"{kind}{kw}: impl raised ValueError, model '{mo}'")
                    except Exception as e:
                        msgs.append(f"{kind}{kw}: impl raised {type(e).__name__}: {e}")
                    ctx.corr_case("ctor", {"kind": kind, **kw}, msgs, hkey=("ctor", kind, radius, search, outer))
    ctx.count("ctor")


def sym_err(m):
    """max |m[y,x] - m[2c-y, 2c-x]| over pixels whose mirror image about shape//2 is inside"""
    sy, sx = m.shape
    cy, cx = sy // 2, sx // 2
    ys = np.arange(sy)
    xs = np.arange(sx)
    my, mx = 2 * cy - ys, 2 * cx - xs
    oky, okx = (my >= 0) & (my < sy), (mx >= 0) & (mx < sx)
    a = m[np.ix_(ys[oky], xs[okx])]
    b = m[np.ix_(my[oky], mx[okx])]
    return float(np.abs(a - b).max()) if a.size else 0.0


def run_case(kind, p):
    msgs = []
    with warnings.catch_warnings():
        warnings.simplefilter("ignore")
        if kind == "builtin":
            shape = tuple(p["shape"])
            first = None
            if p.get("neighbour"):
                # another pattern object (same class, same or nearby parameters) is used and has its own arrays -- e.g. the radius
                # map of a RadialGradientBackgroundSubtraction, which "someone may have changed" -- distorted in place before
                # the pattern under test is even created: patterns are separate objects
                first = impl.pattern_from(p["pattern"]).get_mask(shape)
                q_ = impl.pattern_from(p["neighbour"])
                q_.get_mask(shape)
                for v_ in list(vars(q_).values()):
                    if isinstance(v_, np.ndarray) and v_.dtype.kind == "f" and v_.ndim >= 1 and v_.size:
                        v_[..., : max(1, v_.shape[-1] // 2)] *= 1.5
                        v_ += 0.125
                q_.get_mask(shape)
                q_.get_template(shape)
            pat = impl.pattern_from(p["pattern"])
            # the same object may have been asked for other shapes before ("re-queried for different shapes in any order")
            for s_ in p.get("prior_shapes", []):
                pat.get_mask(tuple(s_))
                pat.get_template(tuple(s_))
            m = pat.get_mask(shape)
            if first is not None and (first.shape != m.shape or not np.array_equal(first, m, equal_nan=True)):
                msgs.append(f"{p['pattern']['kind']}{p['pattern']}: get_mask{shape} of a new pattern object changed after ANOTHER "
                            f"pattern object {p['neighbour']} had its arrays modified in place (max difference "
                            f"{np.nanmax(np.abs(first - m)) if first.shape == m.shape else 'shape'})")
            if p.get("prior_shapes"):
                fresh = impl.pattern_from(p["pattern"])
                fm = fresh.get_mask(shape)
                if fm.shape != m.shape or not np.array_equal(fm, m, equal_nan=True):
                    msgs.append(f"{p['pattern']['kind']}: get_mask{shape} after queries for {p['prior_shapes']} differs from a fresh "
                                f"pattern's mask")
                ft = fresh.get_template(shape)
                st_ = pat.get_template(shape)
                if ft.shape != st_.shape or not np.array_equal(ft, st_, equal_nan=True):
                    msgs.append(f"{p['pattern']['kind']}: get_template{shape} after queries for {p['prior_shapes']} differs from a "
                                f"fresh pattern's template")
            name = p["pattern"]["kind"]
            outer = p["pattern"].get("radius_outer", p["pattern"]["radius"])
            if m.shape != shape:
                msgs.append(f"{name}: mask shape {m.shape} != {shape}")
                return msgs
            if np.isnan(m).any():
                msgs.append(f"{name}{p['pattern']}: NaN in the mask for shape {shape}")
                return msgs
            e = sym_err(m)
            if e > 1e-9:
                msgs.append(f"{name}{p['pattern']} shape {shape}: not point-symmetric about shape//2 (max diff {e})")
            yy, xx = np.mgrid[0:shape[0], 0:shape[1]]
            r = np.sqrt((yy - shape[0] // 2) ** 2 + (xx - shape[1] // 2) ** 2)
            far = r > outer + 1 + 1e-9
            if far.any() and np.abs(m[far]).max() > 1e-12:
                msgs.append(f"{name}{p['pattern']} shape {shape}: non-zero beyond outer radius + 1 ({np.abs(m[far]).max()})")
            if m.max() > 1 + 1e-9:
                msgs.append(f"{name}{p['pattern']} shape {shape}: mask exceeds 1 ({m.max()})")
            if name in ("background_subtraction", "rgbs") and abs(m.sum()) > 1e-6 * max(1.0, np.abs(m).sum()):
                msgs.append(f"{name}{p['pattern']} shape {shape}: mask sums to {m.sum()} (should be 0)")
            t = pat.get_template(shape)
            if not np.allclose(t, np.fft.rfft2(m), rtol=1e-12, atol=1e-12):
                msgs.append(f"{name}: template is not rfft2 of the mask")
            if pat.get_crop_size() != int(np.ceil(p["pattern"]["search"])):
                msgs.append(f"{name}: crop size {pat.get_crop_size()} != ceil({p['pattern']['search']})")
            # re-query in another order
            others = [tuple(s) for s in p.get("other_shapes", [])]
            for s in others:
                pat.get_mask(s)
            if not np.array_equal(pat.get_mask(shape), m):
                msgs.append(f"{name}: re-query after other shapes changed the mask")
            # the returned array is the caller's: modifying it in place must not change a later answer
            keep = m.copy()
            mm = pat.get_mask(shape)
            mm *= -2.0
            mm += 3.0
            if not np.array_equal(pat.get_mask(shape), keep):
                msgs.append(f"{name}: re-query after the caller modified a returned mask in place differs")
            # "the template is the real FFT of the mask" also after a parameter of the (already used) object was changed
            pat.radius = pat.radius * 0.9
            m2 = pat.get_mask(shape)
            t2 = pat.get_template(shape)
            if not np.allclose(t2, np.fft.rfft2(m2), rtol=1e-12, atol=1e-12):
                msgs.append(f"{name}: after changing the radius of a used pattern the template is not rfft2 of the mask "
                            f"(max deviation {np.abs(t2 - np.fft.rfft2(m2)).max():.4g})")
        elif kind == "user":
            s = tuple(p["source"])
            t = tuple(p["target"])
            tmpl = np.zeros(s)
            tmpl[s[0] // 2, s[1] // 2] = 1
            tmpl += np.arange(s[0] * s[1]).reshape(s) * 1e-3
            got = pt.UserTemplate(tmpl).get_mask(t)
            if got.shape != t:
                msgs.append(f"user template {s}->{t}: shape {got.shape}")
            else:
                pos = np.unravel_index(np.argmax(got), got.shape)
                if tuple(int(v) for v in pos) != (t[0] // 2, t[1] // 2):
                    msgs.append(f"user template {s}->{t}: centre {s[0] // 2, s[1] // 2} mapped to {pos}, expected {(t[0] // 2, t[1] // 2)}")
                for y in range(t[0]):
                    for x in range(t[1]):
                        sy_, sx_ = y - t[0] // 2 + s[0] // 2, x - t[1] // 2 + s[1] // 2
                        want = tmpl[sy_, sx_] if (0 <= sy_ < s[0] and 0 <= sx_ < s[1]) else 0
                        if got[y, x] != want:
                            msgs.append(f"user template {s}->{t}: value at {(y, x)} is {got[y, x]} expected {want}")
                            break
                    else:
                        continue
                    break
            # "re-queried ... in any order with identical results": whatever the caller does with an array it got back
            # (it is the caller's own array) must not change later answers, nor the array handed to the constructor
            src = tmpl.copy()
            pat = pt.UserTemplate(src)
            seq = [tuple(q) for q in p.get("queries", [s, (max(1, s[0] - 1), max(1, s[1] - 2)), t])]
            for q in seq:
                mq = pat.get_mask(q)
                mq *= -3.0
                mq += 7.0
            again = pat.get_mask(t)
            if again.shape != got.shape or not np.array_equal(again, got):
                msgs.append(f"user template {s}->{t}: after the caller modified masks returned for {seq} in place, a re-query "
                            f"differs from the first answer (max diff {np.abs(again - got).max() if again.shape == got.shape else 'shape'})")
            if not np.array_equal(src, tmpl):
                msgs.append(f"user template {s}: the array handed to the constructor was modified through a returned mask "
                            f"(queries {seq})")
        elif kind == "cropsize":
            import math
            from fractions import Fraction as F
            cls = {"circular": pt.Circular, "radial_gradient": pt.RadialGradient}[p["kind"]]
            got = cls(radius=p["radius"], search=p["search"]).get_crop_size()
            want = math.ceil(F(p["search"]))          # exact ceiling of the binary value
            if got != want:
                msgs.append(f"{p['kind']}(search={p['search']!r}).get_crop_size() = {got}, ceil(search) = {want}")
        elif kind == "ctor":
            cls = {"circular": pt.Circular, "radial_gradient": pt.RadialGradient,
                   "background_subtraction": pt.BackgroundSubtraction,
                   "rgbs": pt.RadialGradientBackgroundSubtraction}[p["kind"]]
            kw = {k: v for k, v in p.items() if k in ("radius", "search", "radius_outer")}
            outer = kw.get("radius_outer", kw["radius"] * 1.5 if p["kind"] in ("background_subtraction", "rgbs") else kw["radius"])
            bad = (p["kind"] in ("background_subtraction", "rgbs") and outer <= kw["radius"]) or \
                ("search" in kw and kw["search"] < outer)
            try:
                cls(**kw)
                if bad:
                    msgs.append(f"{p['kind']}{kw}: inconsistent parameters were accepted")
            except ValueError:
                if not bad:
                    msgs.append(f"{p['kind']}{kw}: consistent parameters were rejected")
    return msgs[:6]


def classify(kind, p, msgs):
    """known findings D12 / D13 (each keyed to its specific cause)"""
    if kind != "builtin":
        return None
    name = p["pattern"]["kind"]
    if name == "rgbs" and all("should be 0" in m for m in msgs):
        return "D12"
    if name == "background_subtraction" and all("NaN in the mask" in m for m in msgs):
        # the cause of D13: the negative ring has no pixel inside the requested shape
        shape = tuple(p["shape"])
        ring = masks.ring(centerX=shape[1] // 2, centerY=shape[0] // 2, imageSizeX=shape[1], imageSizeY=shape[0],
                          radius=p["pattern"]["radius_outer"], radius_inner=p["pattern"]["radius"], antialiased=True)
        if ring.sum() == 0:
            return "D13"
    return None


def search(ctx, boost=1, focus=()):
    rng = np.random.default_rng(ctx.seed + 1016)
    thorough = ctx.tier == "thorough"
    n = (500 if thorough else 120) * boost
    # known finding D13, pinned: BackgroundSubtraction(9.4, radius_outer=14).get_mask((5, 15))
    p = {"pattern": {"kind": "background_subtraction", "radius": 9.4, "radius_outer": 14.0, "search": 18.8}, "shape": [5, 15],
         "other_shapes": []}
    msgs = run_case("builtin", p)
    ctx.oracle_case("builtin", p, msgs, key=classify("builtin", p, msgs) if msgs else None, nontrivial=True)
    for k in range(n):
        pat = impl.pattern_params(rng, kinds=("circular", "radial_gradient", "background_subtraction", "rgbs"),
                                  rmin=1.5, rmax=15.0)
        if k % 8 == 7:
            # a thin ring: inner and outer radius in the same integer cell / less than half a pixel apart
            base = int(rng.integers(1, 14))
            r_in = float(np.round(base + rng.uniform(0.05, 0.9), 2))
            r_out = float(np.round(r_in + rng.uniform(0.03, 0.45), 2))
            pat = {"kind": ("rgbs", "background_subtraction")[(k // 8) % 2], "radius": r_in, "radius_outer": r_out,
                   "search": float(np.round(r_out + rng.uniform(0, 4), 2))}
            ctx.count("thin_ring")
        if k % 8 == 3:
            # a wide ring: outer radius three to five times the inner one (a small disk on a broad background annulus)
            r_in = float(np.round(rng.uniform(1.5, 5.0), 2)) if (k // 8) % 2 else float(rng.integers(2, 5))
            r_out = float(np.round(r_in * rng.uniform(3.0, 5.0), 2))
            pat = {"kind": ("background_subtraction", "rgbs")[(k // 16) % 2], "radius": r_in, "radius_outer": r_out,
                   "search": float(np.round(r_out + rng.uniform(0, 3), 2))}
            ctx.count("wide_ring")
        shape = [int(rng.integers(2, 91)), int(rng.integers(2, 91))]
        if k % 4 == 0:
            shape = [2 * int(np.ceil(pat["search"]))] * 2
        if k % 4 == 1:
            shape = [2 * int(np.ceil(pat["search"])) + 1] * 2
        p = {"pattern": pat, "shape": shape,
             "other_shapes": [[int(rng.integers(2, 60)), int(rng.integers(2, 60))] for _ in range(2)]}
        if k % 3 == 1:    # an earlier query whose rfft2 spectrum has the same shape (width 2n <-> 2n+1), or same width
            tw = shape[1] + 1 if shape[1] % 2 == 0 else shape[1] - 1
            p["prior_shapes"] = [[shape[0], max(tw, 1)]] if k % 2 else [[shape[0], max(tw, 1)], [shape[0] + 1, shape[1]]]
        elif k % 3 == 2:  # an earlier query for a larger (even / odd) shape that contains this one
            p["prior_shapes"] = [[shape[0] + 2 * int(rng.integers(1, 6)) + int(rng.integers(0, 2)),
                                  shape[1] + 2 * int(rng.integers(1, 6)) + int(rng.integers(0, 2))]]
        if k % 5 == 3:
            # a neighbouring object of the same class: identical parameters, or the same integer bounding size
            nb = dict(pat)
            if k % 2 and "radius_outer" in pat:
                top = float(np.ceil(max(pat["radius"], pat["radius_outer"])))
                nb["radius_outer"] = float(max(pat["radius"] + 0.01, min(top, pat["radius_outer"] + 0.3)))
                nb["search"] = max(pat["search"], nb["radius_outer"])
            p["neighbour"] = nb
            ctx.count("neighbour_object")
        msgs = run_case("builtin", p)
        ctx.oracle_case("builtin", p, msgs, key=classify("builtin", p, msgs) if msgs else None,
                        nontrivial=(shape[0] % 2 == 1 or shape[0] != shape[1] or pat["radius"] != int(pat["radius"])))
        ctx.count("builtin_" + pat["kind"])
    for s0 in range(1, 13):
        for t0 in range(1, 13):
            s1, t1 = int(rng.integers(1, 13)), int(rng.integers(1, 13))
            for p in ({"source": [s0, s1], "target": [t0, t1]}, {"source": [s1, s0], "target": [t1, t0]}):
                ctx.oracle_case("user", p, run_case("user", p), hkey=("user", *p["source"], *p["target"]))
    ctx.count("user_template_oracle", 288)
    for k in range(60 * boost):
        kind = ("circular", "radial_gradient", "background_subtraction", "rgbs")[k % 4]
        p = {"kind": kind, "radius": float(np.round(rng.uniform(1.5, 10), 2))}
        if rng.random() < 0.7:
            p["search"] = float(np.round(rng.uniform(1, 25), 2))
        if kind in ("background_subtraction", "rgbs") and rng.random() < 0.7:
            p["radius_outer"] = float(np.round(rng.uniform(1, 20), 2))
        ctx.oracle_case("ctor", p, run_case("ctor", p))
    # boundaries of the guards: equality of radii is inconsistent, search equal to the outer radius is consistent
    for kind in ("circular", "radial_gradient", "background_subtraction", "rgbs"):
        for radius in (2.0, 3.5, float(np.round(rng.uniform(1.5, 10), 2))):
            bs = kind in ("background_subtraction", "rgbs")
            variants = [{"search": radius}, {"search": radius * 0.999}, {"search": radius * 1.25}]
            if bs:
                variants += [{"radius_outer": radius}, {"radius_outer": radius, "search": 3 * radius},
                             {"radius_outer": radius * 1.3, "search": radius * 1.3},
                             {"radius_outer": radius * 1.3, "search": radius * 1.299}, {"search": radius * 1.5},
                             {"search": radius * 1.49}, {"radius_outer": radius * 0.9, "search": 3 * radius}]
            # a search range just below the limit (one ulp, 1e-9, 1e-6 relative) is below the limit
            lim_ = radius * 1.3 if bs else radius
            for sv in (float(np.nextafter(lim_, 0)), lim_ * (1 - 1e-9), lim_ * (1 - 1e-6), lim_ * (1 - 5e-6)):
                variants.append({"radius_outer": radius * 1.3, "search": sv} if bs else {"search": sv})
            # an explicit zero is a value like any other (and inconsistent: the search range / outer radius cannot be below the radius)
            variants += [{"search": 0}, {"search": 0.0}]
            if bs:
                variants += [{"radius_outer": 0, "search": 3 * radius}, {"radius_outer": 0.0}, {"radius_outer": radius * 1.3, "search": 0}]
            for v in variants:
                p = {"kind": kind, "radius": radius, **v}
                ctx.oracle_case("ctor", p, run_case("ctor", p))
    # crop size = ceil(search) at the integer boundaries of search (one ulp / 1e-13 above and below an integer)
    for kind in ("circular", "radial_gradient"):
        for n_ in (3, 5, int(rng.integers(6, 40))):
            for sv in (float(n_), float(np.nextafter(n_, np.inf)), float(np.nextafter(n_, 0)), n_ + 1e-13, n_ - 1e-13, 0.1 * 10 * n_ * 3 / 3):
                p = {"kind": kind, "radius": 1.5, "search": sv}
                ctx.oracle_case("cropsize", p, run_case("cropsize", p), hkey=("cs", kind, sv))
    ctx.count("ctor_oracle", 60 * boost)


def extra_coverage(ctx):
    return {"exhaustive": True, "exhaustive_range": getattr(ctx, "exhaustive_range", None)}
