"""C17 — lattice coordinate algebra is consistent."""
import numpy as np

from common import rat
from props.lat import dy, rats, fr, lattice
from libertem_blobfinder.base import utils
from libertem_blobfinder.common import gridmatching as grm

PROP = "C17"
LEAN_MODULE = "BlobfinderModel.Properties.C17"
GEN_FILES = ["Lattice", "Polar"]
FRAGMENTS = ["within_frame", "calc_coords", "regularize", "polar"]
DRIVER = "drvlattice"
RULE = ("correspondence: calc_coords / get_indices / frame_peaks / Match.calc_coords of the real code on dyadic "
        "lattices (float arithmetic exact, so selections on the boundary are compared exactly) vs the rational "
        "model, both index layouts, shape dispatch on a grid of shapes; oracle: inverse relations, half-open margin "
        "test, per-index coordinate identity, layout equivalence, drop_zero, polar/cartesian round trip. "
        "Non-trivial: skewed lattice (a, b not axis aligned) or a peak exactly on the margin (distinct = case hashes).")
ASSUMPTIONS = [
    "np.dot / np.linalg.solve / np.concatenate(indices.T) semantics (pinned textually in Gen, compared by correspondence)",
    "polar/cartesian round trip (arctan2, sin, cos, norm) is checked by the oracle only (A-FLOAT), not proved",
]


def gen_indices(rng, layout, tiny=False):
    if layout == "mgrid":
        lo0, lo1 = int(rng.integers(-4, 1)), int(rng.integers(-4, 1))
        n, m = int(rng.integers(1, 6)), int(rng.integers(1, 6))
        idx = np.mgrid[lo0:lo0 + n, lo1:lo1 + m]
        flat = np.concatenate(idx.T)
    else:
        n = int(rng.integers(1, 12))
        idx = rng.integers(-5, 6, (n, 2)).astype(np.float64)
        if rng.random() < 0.3:
            idx = idx + rng.integers(0, 4, (n, 2)) / 4.0
        if tiny and rng.random() < 0.25:
            # (oracle only: the correspondence compares with exact arithmetic and needs exactly representable products)
            # fractional indices very close to, but not equal to, the zero order (only index (0, 0) exactly is the zero order)
            tiny = float(10.0 ** -int(rng.integers(7, 14)))
            extra = np.array([[tiny, 0.0], [0.0, -tiny], [tiny, tiny], [0.0, 0.0]])[: int(rng.integers(1, 5))]
            idx = np.vstack([idx, extra])
        flat = idx
    return idx, np.asarray(flat, dtype=np.float64)


def corr(ctx, drv):
    rng = np.random.default_rng(ctx.seed + 17)
    n = 300 if ctx.tier == "thorough" else 80
    for k in range(n):
        zero, a, b = lattice(rng)
        layout = "mgrid" if k % 3 == 0 else "list"
        if k % 7 == 0:
            layout = "list2"   # exactly two indices: shape (2, 2)
        idx, flat = gen_indices(rng, "list" if layout == "list2" else layout)
        if layout == "list2":
            idx = rng.integers(-5, 6, (2, 2)).astype(np.float64)
            flat = idx
        fy, fx = dy(rng, 20, 200, 2), dy(rng, 20, 200, 2)
        r = dy(rng, 0, 20, 2)
        if k % 2 == 0 and len(flat):   # put one peak exactly on the lower / upper boundary
            j = int(rng.integers(len(flat)))
            c = zero + flat[j] @ np.array([a, b])
            if k % 4 == 0:
                r = float(c[0])
            else:
                fy = float(c[0] + r)
        p = {"zero": zero, "a": a, "b": b, "idx": idx, "fy": fy, "fx": fx, "r": r, "layout": layout}
        msgs = []
        lat = f"{rats(zero)} {rats(a)} {rats(b)}"
        try:
            # coordinates
            got = utils.calc_coords(zero, a, b, flat)
            mo = np.array([float(v) for v in fr(drv.ask(f"coords {lat} {rats(flat)}"))]).reshape(-1, 2)
            if not np.array_equal(got, mo):
                msgs.append(f"calc_coords differs: impl {got.tolist()} model {mo.tolist()}")
            # inverse
            gi = grm.get_indices(got, zero, a, b)
            mi = np.array([float(v) for v in fr(drv.ask(f"indices {lat} {rats(got)}"))]).reshape(-1, 2)
            if np.abs(gi - mi).max() > 1e-7:
                msgs.append(f"get_indices differs by {np.abs(gi - mi).max()}")
            # frame_peaks
            ki, kp = utils.frame_peaks(fy, fx, zero, a, b, r, idx)
            mo = drv.ask(f"framepeaks {rat(fy)} {rat(fx)} {rat(r)} {lat} {rats(flat)}")
            kept, coords = mo.split(":")
            kept = [int(v) for v in kept.split()]
            mcoords = np.array([float(v) for v in fr(coords)]).reshape(-1, 2)
            if not np.array_equal(ki, flat[kept]) or not np.array_equal(kp, mcoords):
                msgs.append(f"frame_peaks differs: impl idx {np.asarray(ki).tolist()} model {flat[kept].tolist()}")
            # Match.calc_coords
            m = grm.Match(grm.CorrelationResult(np.zeros((len(flat), 2))), selector=None, zero=zero, a=a, b=b, indices=flat)
            for drop, frame in ((0, 0), (1, 0), (0, 1), (1, 1)):
                g = m.calc_coords(indices=idx, drop_zero=bool(drop), frame_shape=(fy, fx) if frame else None, r=r)
                mo = np.array([float(v) for v in fr(drv.ask(
                    f"matchcoords {drop} {frame} {rat(fy)} {rat(fx)} {rat(r)} {lat} {rats(flat)}"))]).reshape(-1, 2)
                if not np.array_equal(np.asarray(g).reshape(-1, 2), mo):
                    msgs.append(f"Match.calc_coords(drop_zero={drop}, frame={frame}) differs")
        except Exception as e:
            msgs.append(f"implementation raised {type(e).__name__}: {e}")
        skew = a[0] != 0 and a[1] != 0
        ctx.corr_case("lattice", p, msgs[:4], nontrivial=skew or k % 2 == 0)
        ctx.count("layout_" + layout)
    # shape dispatch
    for shape in [(3, 2), (2, 2), (2, 3), (2, 3, 4), (2, 2, 2), (3, 2, 2), (5,), (2, 2, 2, 2), (1, 2), (2, 1), (4, 3)]:
        arr = np.zeros(shape)
        nd, s0, s1 = len(shape), shape[0], (shape[1] if len(shape) > 1 else 0)
        mo = drv.ask(f"layout {nd} {s0} {s1}").split()
        msgs = []
        for which, fn in ((0, lambda: utils.regularize_indices(arr)),
                          (1, lambda: grm.Match(grm.CorrelationResult(np.zeros((0, 2))), None, np.zeros(2), np.array([1., 0]), np.array([0, 1.]), np.zeros((0, 2))).calc_coords(indices=arr))):
            try:
                res = fn()
                want_n = int(np.prod(shape[1:])) if mo[which] == "mgrid" else shape[0]
                if mo[which] == "ValueError" or len(res) != want_n:
                    msgs.append(f"shape {shape}: impl accepted ({len(res)} rows), model says {mo[which]}")
            except ValueError:
                if mo[which] != "ValueError":
                    msgs.append(f"shape {shape}: impl raised ValueError, model says {mo[which]}")
        ctx.corr_case("layout_dispatch", {"shape": list(shape)}, msgs, hkey=("ld", shape))


def run_case(kind, p):
    msgs = []
    zero, a, b = (np.asarray(p[k], dtype=np.float64) for k in ("zero", "a", "b"))
    idx = np.asarray(p["idx"], dtype=np.float64)
    flat = np.concatenate(idx.T) if idx.ndim == 3 else idx
    fy, fx, r = p["fy"], p["fx"], p["r"]
    coords = utils.calc_coords(zero, a, b, flat)
    want = np.array([zero + i * a + j * b for i, j in flat]).reshape(-1, 2)
    if np.abs(coords - want).max(initial=0) > 1e-9:
        msgs.append("calc_coords != zero + i*a + j*b")
    back = grm.get_indices(coords, zero, a, b)
    if np.abs(back - flat).max(initial=0) > 1e-6:
        msgs.append(f"get_indices(calc_coords(idx)) differs from idx by {np.abs(back - flat).max()}")
    # read-only inputs (the caller's arrays are input, not scratch space) and a column-major index list: same answers, and what was
    # handed in is unchanged
    def ro(x):
        x = np.array(x)
        x.setflags(write=False)
        return x
    try:
        c_ro = utils.calc_coords(ro(zero), ro(a), ro(b), ro(flat))
        b_ro = grm.get_indices(ro(coords), ro(zero), ro(a), ro(b))
        c_f = utils.calc_coords(zero, a, b, np.asfortranarray(flat))
        if not np.array_equal(c_ro, coords) or not np.array_equal(b_ro, back) or not np.array_equal(c_f, coords):
            msgs.append("read-only / column-major inputs give other coordinates or indices than ordinary arrays")
    except Exception as e:      # noqa: BLE001
        msgs.append(f"read-only / column-major inputs: raised {type(e).__name__}: {e}")
    if not np.array_equal(flat, np.concatenate(np.asarray(p["idx"], dtype=np.float64).T) if idx.ndim == 3 else np.asarray(p["idx"], dtype=np.float64)):
        msgs.append("calc_coords / get_indices modified the caller's index array")
    # the same with lattice vectors kept as integers (tuples / integer arrays) when they are integral: fractional indices stay
    # fractional
    if np.all(a == np.round(a)) and np.all(b == np.round(b)) and np.all(zero == np.round(zero)):
        fi = flat + 0.25
        for az, bz in ((tuple(int(v) for v in a), tuple(int(v) for v in b)), (a.astype(np.int64), b.astype(np.int64))):
            ci = utils.calc_coords(zero, az, bz, fi)
            wi = np.array([zero + i * a + j * b for i, j in fi]).reshape(-1, 2)
            if np.abs(ci - wi).max(initial=0) > 1e-9:
                msgs.append(f"calc_coords with integer lattice vectors {az}, {bz} and fractional indices != zero + i*a + j*b")
                break
    # call history: the same points against a lattice strained / rotated by parts per million right after the call above
    # (frame after frame of a slowly varying lattice): each call answers for the lattice it is given
    if len(flat):
        for eps_ in (1e-6, -3e-6, 2e-7):
            a2, b2 = a * (1 + eps_), b * (1 - 0.5 * eps_) + eps_ * np.array([-b[1], b[0]])
            c2 = utils.calc_coords(zero, a2, b2, flat)
            back2 = grm.get_indices(c2, zero, a2, b2)
            if np.abs(back2 - flat).max(initial=0) > 1e-9 * max(1.0, np.abs(flat).max()):
                msgs.append(f"get_indices(calc_coords(idx)) for a lattice {eps_:+.0e} away from the one of the previous call "
                            f"differs from idx by {np.abs(back2 - flat).max():.3g}")
                break
        grm.get_indices(coords, zero, a, b)
    pts = coords + 0.37
    again = utils.calc_coords(zero, a, b, grm.get_indices(pts, zero, a, b))
    if np.abs(again - pts).max(initial=0) > 1e-6:
        msgs.append("calc_coords(get_indices(p)) != p")
    ki, kp = utils.frame_peaks(fy, fx, zero, a, b, r, idx)
    sel = [(r <= c[0] < fy - r) and (r <= c[1] < fx - r) for c in coords]   # on the impl's own floats
    if not np.array_equal(np.asarray(ki, dtype=np.float64), flat[sel]):
        msgs.append(f"frame_peaks kept indices {np.asarray(ki).tolist()}, expected {flat[sel].tolist()} "
                    f"(r={r}, frame {fy}x{fx})")
    elif len(kp) and np.abs(kp - want[sel]).max() > 1e-9:
        msgs.append("frame_peaks coordinates are not zero + i*a + j*b of the returned indices")
    wf = utils.within_frame(coords, r, fy, fx) if len(want) else np.zeros(0, bool)
    if not np.array_equal(wf, np.array(sel, dtype=bool)):
        msgs.append("within_frame is not r <= p < f - r on both axes")
    # the margin test does not depend on the dtype the caller keeps its peak positions in: integer pixel positions
    # (as found by the correlation, int dtype) with a fractional margin r, and single precision positions
    if len(want):
        ip = np.round(coords).astype(np.int64)
        j = len(ip) // 2
        trips = [(r, fy, fx), (abs(float(ip[j][1])) + 0.5, fy, fx), (r, fy, float(ip[j][1]) + r + 0.5),
                 (abs(float(ip[j][0])) + 0.25, fy, fx), (r + 0.5, float(ip[j][0]) + r + 0.75, fx)]
        for r_, fy_, fx_ in trips:
            isel = [(r_ <= c[0] < fy_ - r_) and (r_ <= c[1] < fx_ - r_) for c in ip.tolist()]
            bad = False
            for dt in (np.int64, np.int32, np.uint16 if ip.min() >= 0 else np.int16):
                if np.abs(ip).max() < 30000:
                    wfi = utils.within_frame(ip.astype(dt), r_, fy_, fx_)
                    if not np.array_equal(wfi, np.array(isel, dtype=bool)):
                        msgs.append(f"within_frame on {np.dtype(dt).name} positions {ip.tolist()} is not r <= p < f - r "
                                    f"(r={r_}, frame {fy_}x{fx_}): {wfi.tolist()} expected {isel}")
                        bad = True
                        break
            if bad:
                break
        c32 = coords.astype(np.float32)
        s32 = [(r <= float(c[0]) < fy - r) and (r <= float(c[1]) < fx - r) for c in c32]
        if not np.array_equal(utils.within_frame(c32, r, fy, fx), np.array(s32, dtype=bool)):
            msgs.append(f"within_frame on float32 positions is not r <= p < f - r (r={r}, frame {fy}x{fx})")
    m = grm.Match(grm.CorrelationResult(np.zeros((len(flat), 2))), selector=None, zero=zero, a=a, b=b, indices=flat)
    c0 = m.calc_coords(indices=idx, drop_zero=True)
    keep = [not (i == 0 and j == 0) for i, j in flat]
    c0 = np.asarray(c0).reshape(-1, 2)
    if c0.shape != want[keep].shape or np.abs(c0 - want[keep]).max(initial=0) > 1e-9:
        msgs.append("drop_zero does not remove exactly index (0,0)")
    c1 = m.calc_coords(indices=idx, frame_shape=(fy, fx), r=r)
    c1 = np.asarray(c1).reshape(-1, 2)
    sel_impl = [(r <= c[0] < fy - r) and (r <= c[1] < fx - r) for c in coords]   # same floats as the impl
    if c1.shape != coords[sel_impl].shape or np.abs(c1 - coords[sel_impl]).max(initial=0) > 1e-9:
        msgs.append("Match.calc_coords(frame_shape) differs from the half-open margin test")
    pol = utils.make_polar(want) if len(want) else np.zeros((0, 2))
    if len(want) and np.abs(utils.make_cartesian(pol) - want).max() > 1e-9 * max(1.0, np.abs(want).max()):
        msgs.append("make_cartesian(make_polar(v)) != v")
    if len(want) >= 2:
        # the same vectors as a map with two leading axes (vector fields over a scan): converted vector by vector
        for lead in {(len(want), 1), (1, len(want)), (2, len(want) // 2), (len(want) // 2, 2)}:
            n_ = lead[0] * lead[1]
            vmap = want[:n_].reshape(lead + (2,))
            pmap = utils.make_polar(vmap)
            ref = pol[:n_].reshape(lead + (2,))
            if pmap.shape != vmap.shape or np.abs(pmap - ref).max() > 1e-9 * max(1.0, np.abs(ref).max()):
                msgs.append(f"make_polar of a {vmap.shape} map of vectors differs from the conversion vector by vector "
                            f"(result shape {pmap.shape})")
                break
            cmap_ = utils.make_cartesian(ref)
            if cmap_.shape != vmap.shape or np.abs(cmap_ - vmap).max() > 1e-9 * max(1.0, np.abs(vmap).max()):
                msgs.append(f"make_cartesian of a {vmap.shape} map of polar vectors differs from the conversion vector by vector")
                break
    return msgs[:6]


def search(ctx, boost=1, focus=()):
    rng = np.random.default_rng(ctx.seed + 1017)
    n = (600 if ctx.tier == "thorough" else 150) * boost
    for k in range(n):
        zero, a, b = lattice(rng, dyadic=(k % 2 == 0))
        if (k // 4) % 3 == 2:      # an integer lattice
            zero, a, b = np.round(zero), np.round(a), np.round(b)
        if k % 7 == 5:
            # lattice vectors exactly parallel to the frame axes, of unequal length and sign, in both orientations (a along x and
            # b along y as well as the other way round)
            l1, l2 = float(rng.choice([8.0, -7.5, 5.0, 12.25])), float(rng.choice([5.0, 3.0, -9.5, 6.0]))
            a, b = (np.array([0.0, l1]), np.array([l2, 0.0])) if (k // 7) % 2 == 0 else (np.array([l1, 0.0]), np.array([0.0, l2]))
            ctx.count("axis_parallel")
        if k % 11 == 7:
            # the corner of the stated range: one vector 50 .. 100 times longer than the other, enclosing the smallest angle
            # (|sin| 0.05 .. 0.07), every orientation, both orders and both handednesses
            ls_, ll_ = float(rng.uniform(1.0, 2.0)), float(rng.uniform(64.0, 100.0))
            if (k // 11) % 3 == 0:
                ls_, ll_ = 1.0, 100.0
            phi_ = float(rng.uniform(0, 2 * np.pi))
            ang_ = float(np.arcsin(rng.uniform(0.0502, 0.07))) * (1 if rng.random() < 0.5 else -1)
            if rng.random() < 0.3:
                ang_ = np.pi - ang_
            a = ls_ * np.array([np.sin(phi_), np.cos(phi_)])
            b = ll_ * np.array([np.sin(phi_ + ang_), np.cos(phi_ + ang_)])
            if (k // 11) % 2:
                a, b = b, a
            ctx.count("extreme_length_ratio")
        layout = ("mgrid", "list", "list", "list2")[k % 4]
        idx, flat = gen_indices(rng, "list" if layout == "list2" else layout, tiny=True)
        if layout == "list2":
            idx = rng.integers(-5, 6, (2, 2)).astype(np.float64)
            flat = idx
        fy, fx, r = dy(rng, 20, 200, 2), dy(rng, 20, 200, 2), dy(rng, 0, 20, 2)
        if k % 2 == 0 and len(flat):
            j = int(rng.integers(len(flat)))
            c = zero + flat[j][0] * a + flat[j][1] * b
            if k % 4 == 0:
                r = float(c[1])
            else:
                fx = float(c[1] + r)
        if k % 5 == 4 and len(flat):
            # a margin of about half of an ODD short axis: the band r <= p < f - r is one pixel row / column wide and holds the
            # lattice point that sits on the frame's centre line
            kk = int(rng.integers(6, 40))
            j = int(rng.integers(len(flat)))
            ax = (k // 5) % 2
            c = zero + flat[j][0] * a + flat[j][1] * b
            half = float(kk) + [0.0, 0.25, 0.0][k % 3]
            zero = zero.copy()
            zero[ax] += (kk + [0.0, 0.5, 0.25][(k // 3) % 3]) - c[ax]      # that lattice point lands in [kk, kk + 1)
            if ax == 0:
                fy, r = float(2 * kk + 1), half
                fx = max(fx, 4 * kk + 3.0)
            else:
                fx, r = float(2 * kk + 1), half
                fy = max(fy, 4 * kk + 3.0)
            ctx.count("half_axis_margin")
        p = {"zero": zero, "a": a, "b": b, "idx": idx, "fy": fy, "fx": fx, "r": r}
        ctx.oracle_case("lattice", p, run_case("lattice", p))
        ctx.count("oracle_" + layout)
