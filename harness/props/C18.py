"""C18 — antialiased radial masks form a partition of unity."""
from fractions import Fraction

import numpy as np

from common import rat
from libertem_blobfinder.base import masks

PROP = "C18"
LEAN_MODULE = "BlobfinderModel.Properties.C18"
GEN_FILES = ["Masks"]
FRAGMENTS = ["bin_val", "bin_layout", "bin_patch", "normalize", "disk_in"]
DRIVER = "drvmasks"
RULE = ("correspondence: real radial_bins (dense) for random continuous centres / sizes / radii / inner radii / bin "
        "counts vs the Lean model evaluated in exact rational arithmetic at the implementation's own polar_map "
        "distances (every pixel, incl. the patched centre pixel; tolerance 1e-9), bin centres vs np.linspace; "
        "oracle: the statement's clauses on the real code (range, sum 1 / 0, dense == sparse, normalisation, "
        "ring + disk = disk, area within the perimeter). Non-trivial: centre not on the pixel grid or inner radius "
        "> 0 or more than one bin (distinct = case hashes).")
ASSUMPTIONS = [
    "A-FLOAT: float64 evaluation of the ramp expression agrees with exact arithmetic to 1e-9; polar_map's "
    "distances are taken from the implementation (sqrt not modelled)",
    "np.linspace(ri, R - w, n)[k] = ri + k*w (compared by the correspondence)",
    "the clause 'total approximates pi r^2 within the perimeter' is NOT proved (oracle only)",
]


def gen_params(rng, k):
    sy, sx = int(rng.integers(1, 40)), int(rng.integers(1, 40))
    mode = k % 4
    if mode == 0:
        cy, cx = float(rng.integers(-5, sy + 6)), float(rng.integers(-5, sx + 6))
    elif mode == 1:
        cy, cx = float(rng.integers(-5, sy + 6)) + 0.5, float(rng.integers(-5, sx + 6)) + 0.5
    else:
        cy, cx = float(np.round(rng.uniform(-5, sy + 5), 3)), float(np.round(rng.uniform(-5, sx + 5), 3))
    if k % 7 == 3:
        # centre up to half a pixel outside the image (a border pixel is then closer than 0.5 px to the centre), or on the
        # outermost half pixel inside
        d = float(rng.choice([-0.45, -0.3, -0.1, 0.2, 0.4]))
        if rng.random() < 0.5:
            cy = -d if rng.random() < 0.5 else sy - 1 + d
        else:
            cx = -d if rng.random() < 0.5 else sx - 1 + d
        if rng.random() < 0.5:
            cy = float(np.clip(np.round(cy), 0, sy - 1)) if abs(cy - np.round(cy)) > 0.45 else cy
    ri = 0.0 if rng.random() < 0.5 else float(np.round(rng.uniform(0.5, 6), 2))
    if k % 9 == 4:
        ri = 0.5        # the smallest inner radius of a ring: the boundary of the centre patch
    n = int(rng.integers(1, 9))
    w = float(np.round(rng.uniform(1.0, 4.0), 2)) if rng.random() < 0.7 else float(rng.integers(1, 4))
    R = ri + n * w
    return {"cy": cy, "cx": cx, "sy": sy, "sx": sx, "R": R, "ri": ri, "n": n}


def corr(ctx, drv):
    rng = np.random.default_rng(ctx.seed + 18)
    ncase = 120 if ctx.tier == "thorough" else 30
    for k in range(ncase):
        p = gen_params(rng, k)
        cy, cx, sy, sx, R, ri, n = (p[x] for x in ("cy", "cx", "sy", "sx", "R", "ri", "n"))
        msgs = []
        try:
            got = masks.radial_bins(cx, cy, sx, sy, radius=R, radius_inner=ri, n_bins=n, use_sparse=False)
            r, _ = masks.polar_map(cx, cy, sx, sy)
        except Exception as e:
            ctx.corr_case("bins", p, [f"implementation raised {type(e).__name__}: {e}"])
            continue
        yy, xx = int(np.round(cy)), int(np.round(cx))
        flat = r.ravel()
        centre_idx = yy * sx + xx if (0 <= yy < sy and 0 <= xx < sx) else -1
        others = [i for i in range(len(flat)) if i != centre_idx]
        line = f"bins {rat(R)} {rat(ri)} {n} 0 " + " ".join(rat(float(flat[i])) for i in others)
        outs = [drv.ask(line)] if others else [""]
        model = np.zeros((n, sy * sx))
        if others:
            for i, grp in zip(others, outs[0].split(" | ")):
                model[:, i] = [float(Fraction(v)) for v in grp.split()]
        if centre_idx >= 0:
            o = drv.ask(f"bins {rat(R)} {rat(ri)} {n} 1 {rat(float(flat[centre_idx]))}")
            model[:, centre_idx] = [float(Fraction(v)) for v in o.split()]
        diff = np.abs(got.reshape(n, -1) - model)
        if diff.max() > 1e-9:
            b, i = np.unravel_index(np.argmax(diff), diff.shape)
            msgs.append(f"bin {b} pixel {(i // sx, i % sx)} r={flat[i]!r}: impl={got.reshape(n, -1)[b, i]!r} "
                        f"model={model[b, i]!r} (centre pixel index {centre_idx})")
        # bin centres
        w = (R - ri) / n
        lin = np.linspace(ri, R - w, n) + w / 2
        mc = [float(Fraction(v)) for v in drv.ask(f"bincenters {rat(R)} {rat(ri)} {n}").split()]
        if np.abs(lin - np.array(mc)).max() > 1e-9:
            msgs.append(f"bin centres differ: numpy {lin.tolist()} model {mc}")
        ctx.corr_case("bins", p, msgs, nontrivial=(cy != int(cy) or ri > 0 or n > 1))
        ctx.count("bins_centre_" + ("grid" if cy == int(cy) and cx == int(cx) else "half" if (cy * 2) == int(cy * 2) else "free"))
    # the default bin count (n_bins=None) against Model.roundHalfEven of the span (theorem default_layout_domain): dyadic spans,
    # the ties k + 1/2 among them
    import common as _common
    d2 = _common.Driver("drvlattice")
    if d2.error:
        ctx.corr_case("default_bins", {}, ["model driver drvlattice: " + d2.error])
        return
    try:
        for k in range(60 if ctx.tier == "thorough" else 24):
            ri = float(rng.choice([0.0, 0.5, 1.25, 2.0]))
            span = float(rng.integers(1, 14)) + float(rng.choice([0.5, 0.5, 0.0, 0.25, 0.75, 0.375]))
            R = ri + span
            q = {"R": R, "ri": ri, "span": span}
            msgs = []
            try:
                nb = masks.radial_bins(10.0, 9.5, 24, 23, radius=R, radius_inner=ri, use_sparse=False).shape[0]
                mo = int(d2.ask(f"round {rat(span)}"))
                if nb != mo:
                    msgs.append(f"default bin count for radius {R}, radius_inner {ri}: implementation {nb}, model (half-to-even "
                                f"rounding of the span {span}) {mo}")
            except Exception as e:      # noqa: BLE001
                msgs.append(f"radial_bins(n_bins=None) raised {type(e).__name__}: {e}")
            ctx.corr_case("default_bins", q, msgs, nontrivial=(span * 2) % 2 == 1)
            ctx.count("default_bins_tie" if (span * 2) % 2 == 1 else "default_bins")
    finally:
        d2.close()


def run_case(kind, p):
    msgs = []
    cy, cx, sy, sx, R, ri, n = (p[x] for x in ("cy", "cx", "sy", "sx", "R", "ri", "n"))
    # the same centre, coordinate by coordinate as a float, a Python int or a NumPy integer where it is integral
    ct = p.get("center_types")
    if ct:
        conv = {"float": float, "int": int, "np": np.int64}
        if cy == int(cy):
            cy = conv[ct[0]](cy)
        if cx == int(cx):
            cx = conv[ct[1]](cx)
    yg, xg = np.mgrid[0:sy, 0:sx]
    r = np.sqrt((yg - cy) ** 2 + (xg - cx) ** 2)
    eps = 1e-9
    try:
        # earlier calls in the same process, with the same geometry (centre, image size) and other radii / bin counts: the
        # clauses are about each call on its own, whatever was asked before
        for pr in p.get("prior", []):
            if pr.get("disk"):
                masks.circular(centerX=cx, centerY=cy, imageSizeX=sx, imageSizeY=sy, radius=pr["R"], antialiased=True)
            else:
                masks.radial_bins(cx, cy, sx, sy, radius=pr["R"], radius_inner=pr["ri"], n_bins=pr["n"],
                                  use_sparse=bool(pr.get("sparse", False)))
        dense = masks.radial_bins(cx, cy, sx, sy, radius=R, radius_inner=ri, n_bins=n, use_sparse=False)
        sp = masks.radial_bins(cx, cy, sx, sy, radius=R, radius_inner=ri, n_bins=n, use_sparse=True)
        auto = masks.radial_bins(cx, cy, sx, sy, radius=R, radius_inner=ri, n_bins=n)
    except Exception as e:
        return [f"radial_bins raised {type(e).__name__}: {e}"]
    spd = sp.todense()
    autod = auto.todense() if hasattr(auto, "todense") else auto
    if dense.shape != (n, sy, sx):
        msgs.append(f"shape {dense.shape}")
        return msgs
    if not np.array_equal(dense, spd) or not np.array_equal(dense, autod):
        msgs.append(f"dense and sparse results differ (max {np.abs(dense - spd).max()})")
    if dense.min() < -1e-12:
        msgs.append(f"negative bin value {dense.min()}")
    if dense.max() > 1 + 1e-12:
        msgs.append(f"bin value {dense.max()} > 1")
    tot = dense.sum(axis=0)
    inside = (r >= ri + 0.5 + eps) & (r <= R - 0.5 - eps)
    if ri == 0:
        # no inner boundary: the disk. Every pixel up to R - 0.5 is covered, including one closer than 0.5 px to the centre
        inside = (r <= R - 0.5 - eps)
    outside = (r >= R + 0.5 + eps) | (r <= ri - 0.5 - eps)
    # a pixel exactly on the centre (distance exactly 0: nothing to round) is at least 0.5 px inside the hole iff ri >= 0.5
    outside |= (r == 0) & (ri >= 0.5)
    if inside.any() and np.abs(tot[inside] - 1).max() > 1e-9:
        i = np.argmax(np.abs(tot - 1) * inside)
        msgs.append(f"bins sum to {tot.ravel()[i]!r} at pixel {(i // sx, i % sx)} with r={r.ravel()[i]:.4f} "
                    f"in [{ri}+0.5, {R}-0.5]")
    if outside.any() and np.abs(tot[outside]).max() > 1e-12:
        msgs.append(f"bins sum to {np.abs(tot[outside]).max()} outside the annulus")
    if tot.max() > 1 + 1e-9:
        i = np.argmax(tot)
        msgs.append(f"bins sum to {tot.max()!r} > 1 at pixel {(i // sx, i % sx)} r={r.ravel()[i]:.4f}")
    for us in (False, True):
        nb = masks.radial_bins(cx, cy, sx, sy, radius=R, radius_inner=ri, n_bins=n, use_sparse=us, normalize=True)
        nb = nb.todense() if us else nb
        sums = nb.reshape(n, -1).sum(axis=1)
        nonempty = dense.reshape(n, -1).sum(axis=1) > 1e-6
        if nonempty.any() and np.abs(sums[nonempty] - 1).max() > 1e-9:
            msgs.append(f"normalize=True (sparse={us}): bin sums {sums.tolist()}")
    if p.get("norm_dtype"):
        # normalisation with a result dtype of reduced precision: a bin that only just touches the frame (tiny, but non-zero sum)
        # is a non-empty bin
        ndt = np.dtype(p["norm_dtype"])
        raw = dense.reshape(n, -1).sum(axis=1)
        for us in (False, True):
            nb = masks.radial_bins(cx, cy, sx, sy, radius=R, radius_inner=ri, n_bins=n, use_sparse=us, normalize=True, dtype=ndt)
            nb = np.asarray(nb.todense() if us else nb, dtype=np.float64)
            sums = nb.reshape(n, -1).sum(axis=1)
            nonempty = raw > 1e-6
            tol_ = {"float16": 5e-3, "float32": 1e-5}.get(ndt.name, 1e-9)
            if nonempty.any() and np.abs(sums[nonempty] - 1).max() > tol_:
                msgs.append(f"normalize=True, dtype={ndt.name} (sparse={us}): non-empty bins (raw sums {raw[nonempty].tolist()}) have "
                            f"normalised sums {sums[nonempty].tolist()}")
                break
    if p.get("dtype"):
        d2 = masks.radial_bins(cx, cy, sx, sy, radius=R, radius_inner=ri, n_bins=n, use_sparse=False, dtype=np.dtype(p["dtype"]))
        if d2.dtype != np.dtype(p["dtype"]) or np.abs(d2 - dense).max() > 1e-6:
            msgs.append(f"dtype={p['dtype']} result differs")
    if ri >= 1 and R - ri >= 1:
        ring = masks.ring(cx, cy, sx, sy, radius=R, radius_inner=ri, antialiased=True)
        di = masks.circular(cx, cy, sx, sy, radius=ri, antialiased=True)
        do = masks.circular(cx, cy, sx, sy, radius=R, antialiased=True)
        if np.abs(ring + di - do).max() > 1e-9:
            i = np.argmax(np.abs(ring + di - do))
            msgs.append(f"ring + inner disk != outer disk at pixel {(i // sx, i % sx)}: {np.abs(ring + di - do).max()}")
    disk = masks.circular(cx, cy, sx, sy, radius=R, antialiased=True)
    if disk.min() < -1e-12 or disk.max() > 1 + 1e-12:
        msgs.append(f"antialiased disk outside [0,1]: {disk.min()} {disk.max()}")
    if R + 1 <= cy <= sy - 2 - R and R + 1 <= cx <= sx - 2 - R:
        area = disk.sum()
        if abs(area - np.pi * R * R) > 2 * np.pi * R + 1e-9:
            msgs.append(f"disk area {area} vs pi r^2 {np.pi * R * R} differs by more than the perimeter")
    return msgs[:6]


def search(ctx, boost=1, focus=()):
    rng = np.random.default_rng(ctx.seed + 1018)
    n = (400 if ctx.tier == "thorough" else 80) * boost
    cases = [{"cy": 10.5, "cx": 10.5, "sy": 21, "sx": 21, "R": 8.0, "ri": 0.0, "n": 8},
             {"cy": 10.0, "cx": 10.0, "sy": 21, "sx": 21, "R": 8.0, "ri": 0.0, "n": 8}]
    cases += [p for _, p in focus if "cy" in p]
    for k in range(n):
        p = gen_params(rng, k)
        if k % 5 == 0:
            p["dtype"] = ["float32", "float64"][k % 2]
        if k % 6 == 0:   # small disk fully inside a larger image: area clause
            p.update({"sy": 40, "sx": 44, "ri": 0.0, "n": 1, "R": float(np.round(rng.uniform(1.5, 9), 2))})
            p.update({"cy": float(np.round(rng.uniform(p["R"] + 1, 38 - p["R"]), 3)),
                      "cx": float(np.round(rng.uniform(p["R"] + 1, 42 - p["R"]), 3))})
        if k % 5 == 2:      # one coordinate integral and passed as an integer, the other fractional
            p["center_types"] = [["int", "float"], ["float", "int"], ["np", "float"], ["int", "np"]][(k // 5) % 4]
            if (k // 5) % 2 == 0:
                p["cy"], p["cx"] = float(int(p["cy"])), float(np.round(int(p["cx"]) + rng.choice([0.5, 0.3, 0.25]), 3))
            else:
                p["cx"], p["cy"] = float(int(p["cx"])), float(np.round(int(p["cy"]) + rng.choice([0.5, 0.3, 0.25]), 3))
        if k % 4 == 3:
            # call history: a call with an inner radius below 0.5 (centre pixel patched) before one with an inner radius in
            # [0.5, 1) or any other, same centre and image size
            p["prior"] = [{"R": float(np.round(rng.uniform(1.5, 9), 2)), "ri": float(rng.choice([0.0, 0.2, 0.45])),
                           "n": int(rng.integers(1, 5)), "sparse": bool(rng.integers(0, 2)), "disk": bool(k % 8 == 3)}]
            if k % 8 == 7:
                w_ = (p["R"] - p["ri"]) / p["n"]
                p["ri"] = float(rng.choice([0.5, 0.7, 0.95]))
                p["R"] = p["ri"] + p["n"] * w_
                if p["sy"] > 2 and p["sx"] > 2:
                    p["cy"], p["cx"] = float(rng.integers(0, p["sy"])), float(rng.integers(0, p["sx"]))
            ctx.count("with_history")
        cases.append(p)
    # centres below / left of the frame with non-dyadic coordinates, image sizes just below a power of two (where size and
    # size - centre fall into different binades: the rounding of such sums is what floating-point index ranges are built from)
    for k in range(16 * boost):
        top = int(rng.choice([8, 16, 32, 64]))
        s_a = int(rng.integers(max(1, top - 4), top))
        s_b = int(rng.integers(1, 40))
        c_a = -float(np.round(rng.uniform(0.05, 5.0), int(rng.choice([1, 2, 3]))))
        c_b = float(np.round(rng.uniform(-5, s_b + 5), 3))
        q = gen_params(rng, k)
        q.update({"sy": s_a, "sx": s_b, "cy": c_a, "cx": c_b} if k % 2 else {"sy": s_b, "sx": s_a, "cy": c_b, "cx": c_a})
        cases.append(q)
        ctx.count("centre_below_frame")
    # bins that only just touch the frame: the farthest corner pixel gets a weight of 1e-4 .. 1e-6 from the inner ramp of the
    # last bin and every other pixel none; results in float16 / float32 / float64, normalised
    for k in range(9 * boost):
        sy, sx = int(rng.integers(4, 30)), int(rng.integers(4, 30))
        w_ = [2.5e-4, 3e-5, 4e-6][k % 3]
        rmax = float(np.hypot(sy - 1, sx - 1))
        cases.append({"cy": 0.0, "cx": 0.0, "sy": sy, "sx": sx, "ri": 0.0, "n": 2, "R": 2 * (rmax + 0.5 - w_),
                      "norm_dtype": ["float16", "float32", "float64"][(k // 3) % 3]})
        ctx.count("touching_bin")
    # centres a fraction of a pixel past the middle of the frame (between the middle pixel and the middle of the extent) with bins
    # that reach beyond the farthest corner pixel: every pixel of the frame is covered, the corner pixels included
    for k in range((40 if ctx.tier == "thorough" else 12) * boost):
        sy, sx = int(rng.integers(6, 40)), int(rng.integers(6, 40))
        cy = (sy - 1) / 2 + (float(rng.uniform(0.02, 0.48)) if k % 3 != 1 else 0.0) + float(rng.integers(-1, 2)) * (k % 4 == 3)
        cx = (sx - 1) / 2 + (float(rng.uniform(0.02, 0.48)) if k % 3 != 2 else 0.0)
        far = float(np.sqrt(max(cy, sy - 1 - cy) ** 2 + max(cx, sx - 1 - cx) ** 2))
        R = float(np.ceil(far)) + float(rng.integers(1, 4))
        ri_ = 0.0 if k % 2 else float(rng.choice([0.5, 1.0, 2.5]))
        nmax_ = max(1, int(np.floor(R - ri_)))          # bins at least a pixel wide
        n_ = int(rng.integers(max(1, nmax_ // 3), nmax_ + 1))
        cases.append({"cy": cy, "cx": cx, "sy": sy, "sx": sx, "R": R, "ri": ri_, "n": n_})
        ctx.count("centre_past_the_middle")
    for p in cases:
        if "norm_dtype" not in p and rng.random() < 0.3:
            p["norm_dtype"] = ["float16", "float32"][int(rng.integers(2))]
        ctx.oracle_case("radial_bins", p, run_case("radial_bins", p),
                        nontrivial=(p["cy"] != int(p["cy"]) or p["ri"] > 0 or p["n"] > 1))
    ctx.count("oracle_bins", len(cases))
