"""C19 — sparse mask stacks equal dense stamping with clipping."""
import itertools
from fractions import Fraction

import numpy as np

import impl
from common import rat
from libertem_blobfinder.base import masks
from libertem_blobfinder.common import patterns as pt

PROP = "C19"
LEAN_MODULE = "BlobfinderModel.Properties.C19"
GEN_FILES = ["Masks", "Patterns"]
FRAGMENTS = ["stamp", "sparse_circular", "disk_in", "feature_vector", "mask_center"]
DRIVER = "drvmasks"
RULE = ("correspondence: exhaustive templates up to 3x3 (incl. non-square, distinct values) x images up to 4x4 x all "
        "offsets -t-2..img+2 through the real sparse_template_multi_stack (layers batched) vs the model's dense "
        "stamping; feature_vector / sparse_circular geometry vs the model; oracle: dense reference stamping written "
        "from the statement, layer order / independence, feature_vector centre, sparse circular vs dense disk. "
        "Non-trivial: the template is clipped by the image border (distinct = case keys).")
ASSUMPTIONS = ["A-EXT: sparse.COO(data, coords, shape).todense() places data at coords (duplicates summed)"]


def dense_ref(template, oy, ox, sy, sx):
    out = np.zeros((sy, sx), dtype=template.dtype)
    th, tw = template.shape
    for ty in range(th):
        for tx in range(tw):
            y, x = ty + oy, tx + ox
            if 0 <= y < sy and 0 <= x < sx:
                out[y, x] = template[ty, tx]
    return out


def corr(ctx, drv):
    thorough = ctx.tier == "thorough"
    tmax = 4 if thorough else 3
    imax = 6 if thorough else 4
    ctx.exhaustive_range = {"template": f"1..{tmax} x 1..{tmax}", "image": f"1..{imax} x 1..{imax}",
                            "offsets": "-t-2 .. img+2 on both axes"}
    for th, tw in itertools.product(range(1, tmax + 1), repeat=2):
        template = (np.arange(th * tw).reshape(th, tw) + 1) * np.where(np.arange(th * tw).reshape(th, tw) % 3 == 0, -1, 1)
        tv = " ".join(str(int(v)) for v in template.ravel())
        for sy, sx in itertools.product(range(1, imax + 1), repeat=2):
            offs = [(oy, ox) for oy in range(-th - 2, sy + 3) for ox in range(-tw - 2, sx + 3)]
            lines = [f"stamp {th} {tw} {oy} {ox} {sy} {sx} {tv}" for oy, ox in offs]
            outs = drv.ask_many(lines)
            try:
                st = masks.sparse_template_multi_stack(
                    mask_index=range(len(offs)), offsetX=np.array([o[1] for o in offs]),
                    offsetY=np.array([o[0] for o in offs]), template=template, imageSizeX=sx, imageSizeY=sy).todense()
                err = None
            except Exception as e:
                err = f"implementation raised {type(e).__name__}: {e}"
            for k, ((oy, ox), mo) in enumerate(zip(offs, outs)):
                msgs = []
                if err:
                    msgs.append(err)
                else:
                    got = " ".join(str(int(v)) for v in st[k].ravel())
                    if got != mo:
                        msgs.append(f"template {th}x{tw} at ({oy},{ox}) in {sy}x{sx}: impl [{got}] model [{mo}]")
                clipped = oy < 0 or ox < 0 or oy + th > sy or ox + tw > sx
                ctx.corr_case("stamp", {"th": th, "tw": tw, "oy": oy, "ox": ox, "sy": sy, "sx": sx}, msgs,
                              nontrivial=clipped, hkey=("st", th, tw, oy, ox, sy, sx))
    ctx.count("stamp")
    for c in range(0, 12):
        for peak in (-3, 0, 5, 17):
            mo = drv.ask(f"geom fv {peak} {c}").split()
            cen = drv.ask(f"geom center {mo[1]}")
            msgs = [] if int(mo[0]) + int(cen) == peak else [f"fv: offset {mo[0]} + centre {cen} != peak {peak}"]
            ctx.corr_case("fv_geom", {"c": c, "peak": peak}, msgs, hkey=("fv", c, peak))
    rng = np.random.default_rng(ctx.seed + 19)
    for k in range(40):
        radius = float(np.round(rng.uniform(0.3, 9), 2)) if k % 2 else float(rng.integers(1, 9))
        bbox, cen = (int(v) for v in drv.ask(f"geom scbbox {rat(radius)}").split())
        msgs = []
        st = masks.sparse_circular_multi_stack([0], [cen], [cen], bbox, bbox, radius).todense()[0]
        for y in range(bbox):
            for x in range(bbox):
                m = drv.ask(f"geom diskin {y - cen} {x - cen} {rat(radius)}")
                if bool(st[y, x]) != (m == "1"):
                    msgs.append(f"sparse circular r={radius}: pixel {(y, x)} impl {st[y, x]} model {m}")
        big = masks.sparse_circular_multi_stack([0], [cen + 3], [cen + 3], bbox + 6, bbox + 6, radius).todense()[0]
        if big.sum() != st.sum():
            msgs.append(f"sparse circular r={radius}: bounding box {bbox} cuts the disk ({big.sum()} vs {st.sum()})")
        ctx.corr_case("sparse_circular", {"radius": radius}, msgs)
    ctx.count("sparse_circular", 40)


def run_case(kind, p):
    msgs = []
    if kind == "stack":
        template = np.asarray(p["template"])
        # same values, another memory layout (the stamp is defined on the values, not on how the caller stores them)
        lay = p.get("layout", "C")
        if lay == "F":
            template = np.asfortranarray(template)
        elif lay == "T":      # a transposed view of a C-ordered array
            template = np.ascontiguousarray(template.T).T
        elif lay == "S":      # a strided view into a larger array
            big = np.zeros((2 * template.shape[0], 3 * template.shape[1]), dtype=template.dtype)
            big[::2, ::3] = template
            template = big[::2, ::3]
        elif lay == "R":      # reversed strides
            template = np.ascontiguousarray(template[::-1, ::-1])[::-1, ::-1]
        sy, sx = p["sy"], p["sx"]
        offs = p["offsets"]
        idx = p.get("mask_index", list(range(len(offs))))
        try:
            st = masks.sparse_template_multi_stack(mask_index=idx, offsetX=np.array([o[1] for o in offs]),
                                                   offsetY=np.array([o[0] for o in offs]), template=template,
                                                   imageSizeX=sx, imageSizeY=sy)
        except Exception as e:
            return [f"raised {type(e).__name__}: {e}"]
        d = st.todense()
        if d.shape != (max(idx) + 1, sy, sx):
            msgs.append(f"stack shape {d.shape}")
            return msgs
        for k, (oy, ox) in zip(idx, offs):
            ref = dense_ref(template, oy, ox, sy, sx)
            if not np.array_equal(d[k], ref):
                msgs.append(f"template {template.shape} offset ({oy},{ox}) image {sy}x{sx} layer {k}: "
                            f"{d[k].tolist()} expected {ref.tolist()}")
        # "the template has been copied": the caller refills its template buffer afterwards (the next stack is built from the same
        # array); the stack built before keeps the values it was built from
        if template.flags.writeable and not msgs:
            before = np.asarray(st.todense()).copy()
            keep_t = template.copy()
            template *= -3
            template += 1
            if not np.array_equal(np.asarray(st.todense()), before):
                msgs.append(f"template {template.shape}, {len(offs)} layer(s), offsets {offs}, image {sy}x{sx}: the stack changed when "
                            f"the caller modified its template array afterwards")
            template[...] = keep_t
        # the stack as it is used (layer selection, sum over layers, application to a frame as a sparse matrix), not only
        # its dense form
        try:
            for k in idx:
                if not np.array_equal(np.asarray(st[k].todense()), d[k]):
                    msgs.append(f"mask_index {idx}: stack[{k}] differs from layer {k} of stack.todense()")
                    break
            tot = np.asarray(st.sum(axis=0).todense())
            if not np.allclose(tot, d.sum(axis=0), rtol=0, atol=1e-9):
                msgs.append(f"mask_index {idx}: stack.sum(axis=0) differs from the sum of the dense layers")
            fr = np.arange(1, sy * sx + 1, dtype=np.float64)
            got = np.asarray(st.reshape((d.shape[0], -1)).tocsr() @ fr).ravel()
            want = d.reshape(d.shape[0], -1).astype(np.float64) @ fr
            if not np.allclose(got, want, rtol=1e-12, atol=1e-9):
                msgs.append(f"mask_index {idx}: the stack applied to a frame as a sparse matrix gives {got.tolist()}, the dense "
                            f"layers give {want.tolist()}")
        except Exception as e:
            msgs.append(f"using the stack raised {type(e).__name__}: {e}")
    elif kind == "feature_vector":
        pat = impl.pattern_from(p["pattern"])
        if p.get("radial_map"):
            # a RadialGradientBackgroundSubtraction with the caller's own radius map (elliptical, or in other units than pixels):
            # the support of its mask is not bounded by radius_outer in pixels
            rm = p["radial_map"]
            size = int(rm["size"])
            rmap, _ = masks.polar_map(centerX=size // 2, centerY=size // 2, imageSizeX=size, imageSizeY=size,
                                      stretchY=rm["stretch"], angle=rm["angle"])
            pat = pt.RadialGradientBackgroundSubtraction(radius=p["pattern"]["radius"], search=p["pattern"]["search"],
                                                         radius_outer=p["pattern"]["radius_outer"], radial_map=rmap * rm["unit"])
        peaks = np.asarray(p["peaks"])
        sy, sx = p["sy"], p["sx"]
        c = pat.get_crop_size()
        st = pt.feature_vector(sx, sy, peaks, pat).todense()
        m = pat.get_mask((2 * c + 1, 2 * c + 1))
        for k, (py, px) in enumerate(peaks):
            ref = dense_ref(m, int(py) - c, int(px) - c, sy, sx)   # mask centre (c, c) on the peak
            if not np.allclose(st[k], ref, atol=0, rtol=0):
                msgs.append(f"feature_vector layer {k} peak {(int(py), int(px))}: mask centre is not on the peak")
        # the same pattern object again after one of its mask-defining parameters was changed (search, hence the stamp size,
        # unchanged), for another frame shape and peak list: the stack shows the pattern's CURRENT mask
        if hasattr(pat, "radius") and not msgs:
            pat.radius = float(pat.radius) * 0.8
            if hasattr(pat, "template"):
                pat.template = pat.template * -2.0
            peaks2 = peaks[::-1] + 1
            st2 = pt.feature_vector(sx + 1, sy + 2, peaks2, pat).todense()
            m2 = pat.get_mask((2 * c + 1, 2 * c + 1))
            for k, (py, px) in enumerate(peaks2):
                ref = dense_ref(m2, int(py) - c, int(px) - c, sy + 2, sx + 1)
                if not np.allclose(st2[k], ref, atol=0, rtol=0):
                    msgs.append(f"feature_vector layer {k} peak {(int(py), int(px))} after the radius of the (already used) pattern "
                                f"object was changed: the layer is not the pattern's current mask centred on the peak")
                    break
    elif kind == "circular":
        sy, sx, radius = p["sy"], p["sx"], p["radius"]
        cen = p["centers"]
        cxs, cys = [c[1] for c in cen], [c[0] for c in cen]
        cdt = p.get("center_dtype")
        if cdt and (np.dtype(cdt).kind != "u" or min(cxs + cys) >= 0):    # the same integer centres in another container / dtype
            cxs, cys = np.asarray(cxs, dtype=cdt), np.asarray(cys, dtype=cdt)
        st = masks.sparse_circular_multi_stack(list(range(len(cen))), cxs, cys, sx, sy, radius).todense()
        for k, (cy, cx) in enumerate(cen):
            ref = masks.circular(centerX=cx, centerY=cy, imageSizeX=sx, imageSizeY=sy, radius=radius)
            if not np.array_equal(st[k].astype(bool), ref):
                msgs.append(f"sparse circular r={radius} centre {(cy, cx)} in {sy}x{sx} differs from the dense disk")
    return msgs[:5]


def search(ctx, boost=1, focus=()):
    rng = np.random.default_rng(ctx.seed + 1019)
    n = (400 if ctx.tier == "thorough" else 100) * boost
    for k in range(n):
        th, tw = int(rng.integers(1, 10)), int(rng.integers(1, 10))
        sy, sx = int(rng.integers(1, 41)), int(rng.integers(1, 41))
        nl = int(rng.integers(1, 9))
        template = rng.integers(-9, 10, (th, tw)).astype(np.float64 if k % 2 else np.int64)
        template[template == 0] = 5
        if k % 4 == 1:
            # templates with empty parts: zero rows / columns on some sides only (the non-zero support sits in a corner or along
            # an edge), scattered zeros, a single non-zero pixel anywhere
            mode = (k // 4) % 4
            if mode == 0:
                template[:int(rng.integers(1, th + 1)) - 1 if th > 1 else 0, :] = 0
                template[:, :int(rng.integers(1, tw + 1)) - 1 if tw > 1 else 0] = 0
            elif mode == 1:
                template[rng.random((th, tw)) < 0.6] = 0
            elif mode == 2:
                keep_ = template[int(rng.integers(th)), int(rng.integers(tw))]
                template[:] = 0
                template[int(rng.integers(th)), int(rng.integers(tw))] = keep_
            else:
                template[th - int(rng.integers(0, th)):, :] = 0
                template[:, tw - int(rng.integers(0, tw)):] = 0
            ctx.count("template_with_empty_parts")
        offs = [[int(rng.integers(-th - 2, sy + 3)), int(rng.integers(-tw - 2, sx + 3))] for _ in range(nl)]
        p = {"template": template, "sy": sy, "sx": sx, "offsets": offs}
        if k % 3 == 0:
            p["mask_index"] = rng.permutation(nl).tolist()
        p["layout"] = "CFTSR"[(k // 6) % 5]
        if k % 10 == 9:
            # one layer, the stamp completely inside the image, the template an ordinary C-ordered array
            sy, sx = max(sy, th + 2), max(sx, tw + 2)
            p.update({"sy": sy, "sx": sx, "offsets": [[int(rng.integers(0, sy - th + 1)), int(rng.integers(0, sx - tw + 1))]],
                      "layout": "C"})
            p.pop("mask_index", None)
            offs = p["offsets"]
        ctx.count("layout_" + p["layout"])
        ctx.oracle_case("stack", p, run_case("stack", p),
                        nontrivial=any(o[0] < 0 or o[1] < 0 or o[0] + th > sy or o[1] + tw > sx for o in offs))
    ctx.count("stack", n)
    for k in range(n // 4):
        pat = impl.pattern_params(rng, rmax=6.0)
        sy, sx = int(rng.integers(4, 41)), int(rng.integers(4, 41))
        peaks = np.stack([rng.integers(-2, sy + 2, 5), rng.integers(-2, sx + 2, 5)], axis=1)
        p = {"pattern": pat, "peaks": peaks, "sy": sy, "sx": sx}
        if (k // 4) % 2 == 1:
            r_ = float(rng.integers(2, 5))
            srch = float(rng.integers(9, 14))
            p = {"pattern": {"kind": "rgbs", "radius": r_, "radius_outer": r_ * 1.5, "search": srch}, "peaks": peaks, "sy": sy, "sx": sx,
                 "radial_map": {"size": 2 * int(srch) + 6, "stretch": float(rng.choice([2.0, 0.5, 1.0])),
                                "angle": float(rng.uniform(0, 3.1)), "unit": float(rng.choice([0.5, 1.0, 0.4]))}}
            ctx.count("feature_vector_radial_map")
        ctx.oracle_case("feature_vector", p, run_case("feature_vector", p))
        p = {"sy": sy, "sx": sx, "radius": float(np.round(rng.uniform(0.5, 8), 2)) if k % 3 else
             float(np.hypot(int(rng.integers(0, 7)), int(rng.integers(1, 7)))),      # the distance of a lattice neighbour
             "centers": [[int(rng.integers(-3, sy + 3)), int(rng.integers(-3, sx + 3))] for _ in range(4)],
             "center_dtype": [None, "int64", "uint8", "uint16", "int16", "uint64", "float64", "uint32"][k % 8]}
        if p["center_dtype"] and np.dtype(p["center_dtype"]).kind == "u":
            p["centers"] = [[int(rng.integers(0, sy)), int(rng.integers(0, sx))] for _ in range(3)] + [[0, int(rng.integers(0, sx))]]
        ctx.oracle_case("circular", p, run_case("circular", p))
    ctx.count("feature_vector+circular", n // 4)


def extra_coverage(ctx):
    return {"exhaustive": True, "exhaustive_range": getattr(ctx, "exhaustive_range", None)}
