"""C20 — affine transformation helpers round-trip and find the fixed point."""
import numpy as np

from props.lat import rats, fr
from libertem_blobfinder.common import gridmatching as grm

PROP = "C20"
LEAN_MODULE = "BlobfinderModel.Properties.C20"
GEN_FILES = ["Lattice"]
FRAGMENTS = ["transformation"]
DRIVER = "drvlattice"
RULE = ("correspondence: get_transformation (with centre and weights) vs the model's exact WLS solution with design "
        "(ref - centre, 1) and squared weights, column by column; oracle: exact round trip through do_transformation "
        "for any centre / positive weights, optimality for squared weights under residuals, fixed point of "
        "find_center. Non-trivial: non-zero centre and non-uniform weights (distinct = case hashes).")
ASSUMPTIONS = ["A-LA: np.linalg.lstsq / solve; float conditioning (condition <= 100 in the generators)"]


def gen(rng, k):
    n = int(rng.integers(3, 41))
    while True:
        ref = rng.uniform(-60, 60, (n, 2))
        if np.linalg.matrix_rank(np.hstack([ref, np.ones((n, 1))]), tol=1e-3) == 3:
            break
    while True:
        ang, sh = rng.uniform(0, 2 * np.pi), rng.uniform(-0.5, 0.5)
        R = np.array([[np.cos(ang), -np.sin(ang)], [np.sin(ang), np.cos(ang)]])
        L = R @ np.array([[1, sh], [0, 1]]) @ np.diag(rng.uniform(0.5, 2, 2))
        if np.linalg.cond(L) <= 100 and abs(np.linalg.det(L - np.eye(2))) > 0.05:
            break
    if (k // 5) % 4 == 3:
        # maps whose linear part has the complex eigenvalues 1 +- i w (trace 2, no real eigenvalue 1): first-order rotations,
        # rotation with s cos(theta) = 1, traceless strain plus rotation -- the fixed point is unique and well conditioned
        w_ = float(rng.choice([1.0, 0.5, 0.1, 0.05, -0.3]))
        e_ = float(rng.choice([0.0, 0.0, 0.01])) if abs(w_) > 0.04 else 0.0
        L = np.array([[1 + e_, w_], [-w_ * float(rng.choice([1.0, 0.6])), 1 - e_]])
    if (k // 3) % 5 == 2:
        # a linear part with a diagonal entry EXACTLY 1 and no eigenvalue 1 (both off-diagonal entries non-zero): shear-like maps
        # such as [[2, .5], [.5, 1]], [[1, .3], [-.2, 1]]
        o1, o2 = float(rng.choice([0.5, -0.2, 0.3, 1.0, -1.0])), float(rng.choice([0.5, 0.3, -0.4, 1.0]))
        d_ = float(rng.choice([2.0, 0.5, 1.0, 1.5]))
        L = np.array([[d_, o1], [o2, 1.0]]) if k % 2 else np.array([[1.0, o1], [o2, d_]])
    t = rng.uniform(-30, 30, 2)
    p = {"ref": ref, "L": L, "t": t, "noise": [0.0, 0.5][k % 2],
         "center": None if k % 3 == 0 else rng.uniform(-40, 40, 2),
         "w": None if k % 4 == 0 else rng.uniform(0.1, 10, n), "seed": int(rng.integers(1 << 30))}
    if (k // 4) % 5 == 1 and p["center"] is not None:
        # a centre ON a coordinate axis (one component exactly zero, in any container / sign of zero), or the origin itself
        c_ = np.asarray(p["center"], dtype=float).copy()
        c_[int(rng.integers(2))] = [0.0, -0.0, 0.0][k % 3]
        if k % 16 == 4:
            c_[:] = 0.0
        p["center"] = tuple(c_.tolist()) if k % 2 else c_
    elif (k // 7) % 3 == 2 and p["center"] is not None:
        # a centre far from the points compared with their spread (e.g. a detector corner as the origin)
        p["center"] = (np.asarray(p["center"]) + rng.choice([-1, 1], 2) * rng.uniform(1.5e4, 3e4, 2))
    if p["w"] is not None and (k // 3) % 4 == 3:
        # the same relative weights at a tiny / huge overall magnitude (a common factor does not change the optimum)
        p["w"] = p["w"] * float(rng.choice([1e-9, 1e-12, 1e6]))
    if k % 9 == 4:
        # reference positions in lattice order (row by row, three or more per row: the first points are exactly collinear), on
        # integer / dyadic coordinates; noise-free and noisy targets alternate as for the other point sets
        ni, nj = int(rng.integers(2, 6)), int(rng.integers(3, 7))
        va = np.array([float(rng.integers(4, 20)), float(rng.integers(-3, 4))]) * float(rng.choice([1.0, 0.5, 0.25]))
        vb = np.array([float(rng.integers(-3, 4)), float(rng.integers(4, 20))])
        z0 = np.array([float(rng.integers(-40, 40)), float(rng.integers(-40, 40))])
        ref = np.array([z0 + i * vb + j * va for i in range(ni) for j in range(nj)])
        if (k // 9) % 2:
            ref = np.array([z0 + j * va for j in range(nj)] + [z0 + vb])       # one row plus a single point off it
        p["ref"] = ref
        if p["w"] is not None:
            p["w"] = rng.uniform(0.1, 10, len(ref))
        k = 0       # (not the integer-dtype variant below)
    if k % 8 == 5:
        # centres that coincide with something: a corner of the bounding box of the reference points, one of the reference points,
        # their mean, or the default centre with the points moved so that their largest (smallest) coordinate is exactly 0
        r_ = np.asarray(p["ref"], dtype=np.float64)
        mode = (k // 8) % 6
        if mode < 4:
            p["center"] = np.array([(r_[:, 0].max(), r_[:, 0].min())[mode % 2], (r_[:, 1].max(), r_[:, 1].min())[mode // 2]])
        elif mode == 4:
            p["center"] = r_[int(np.argmax(r_.sum(axis=1)))].copy() if (k // 48) % 2 == 0 else r_.mean(axis=0)
        else:
            p["ref"] = r_ - (r_.max(axis=0) if (k // 48) % 2 == 0 else r_.min(axis=0))
            p["center"] = None if (k // 96) % 2 == 0 else (0.0, 0.0)
    # reference positions kept as integer pixel positions (integer dtype) by the caller, fractional centre
    p["int_ref"] = (k // 12) % 3 == 1 and np.linalg.matrix_rank(np.hstack([np.round(ref), np.ones((len(ref), 1))]), tol=1e-3) == 3
    return p


def ref_of(p):
    ref = np.asarray(p["ref"])
    return np.round(ref).astype(np.int64) if p.get("int_ref") else ref


def targets(p):
    rng = np.random.default_rng(p["seed"])
    ref = ref_of(p)
    return ref @ np.asarray(p["L"]).T + np.asarray(p["t"]) + rng.normal(0, 1, ref.shape) * p["noise"]


def corr(ctx, drv):
    rng = np.random.default_rng(ctx.seed + 20)
    n = 150 if ctx.tier == "thorough" else 40
    for k in range(n):
        p = gen(rng, k)
        ref, peaks = ref_of(p), targets(p)
        c = np.zeros(2) if p["center"] is None else np.asarray(p["center"])
        w = np.ones(len(ref)) if p["w"] is None else np.asarray(p["w"])
        msgs = []
        try:
            fit = grm.get_transformation(ref, peaks, center=p["center"], weighs=p["w"])
            # model: design (1, u, v) with u, v = ref - centre; weights squared; targets peaks - centre
            vals = np.column_stack([ref - c, w ** 2, peaks - c])
            out = drv.ask("wls " + rats(vals))
            if out == "singular":
                msgs.append("model: singular")
            else:
                v = [float(x) for x in fr(out)]
                # model order: zero(y,x), a(y,x), b(y,x)  ->  fit rows: u, v, 1
                want = np.array([[v[2], v[3]], [v[4], v[5]], [v[0], v[1]]])
                if np.abs(fit[:, 0:2] - want).max() > 1e-6 * max(1.0, np.abs(want).max()):
                    msgs.append(f"get_transformation: impl {fit[:, 0:2].tolist()} exact {want.tolist()}")
                if np.abs(fit[:, 2] - np.array([0, 0, 1])).max() > 1e-8:
                    msgs.append(f"third column of the fit is {fit[:, 2].tolist()}")
        except Exception as e:
            msgs.append(f"implementation raised {type(e).__name__}: {e}")
        ctx.corr_case("transformation", p, msgs, nontrivial=(p["center"] is not None and p["w"] is not None))
        ctx.count("transformation")


def run_case(kind, p):
    msgs = []
    ref, peaks = ref_of(p), targets(p)
    w = p["w"]
    c = p["center"]
    fit = grm.get_transformation(ref, peaks, center=c, weighs=w)
    back = grm.do_transformation(fit, ref, center=c)
    scale = max(1.0, np.abs(peaks).max())
    if p["noise"] == 0:
        if np.abs(back - peaks).max() > 1e-7 * scale:
            msgs.append(f"exact affine relation is not reproduced: max error {np.abs(back - peaks).max()} "
                        f"(centre {None if c is None else np.asarray(c).tolist()}, weights {'yes' if w is not None else 'no'})")
    else:
        ww = np.ones(len(ref)) if w is None else np.asarray(w) ** 2
        ww = ww / ww.max()        # the optimum does not depend on a common factor of the weights; neither does this test
        best = float((ww * ((back - peaks) ** 2).sum(axis=1)).sum())
        rng = np.random.default_rng(p["seed"] + 1)
        for _ in range(40):
            f2 = fit + rng.normal(0, 10 ** rng.uniform(-5, -1), fit.shape) * np.array([[1, 1, 0]] * 3)
            b2 = grm.do_transformation(f2, ref, center=c)
            if float((ww * ((b2 - peaks) ** 2).sum(axis=1)).sum()) < best - 1e-9 * max(1.0, best):
                msgs.append("fit is not the least-squares optimum for squared weights")
                break
    # the caller's arrays are input, not scratch space: read-only reference points / targets / weights / centre give the same fit
    # and the same image, and the arrays handed in are unchanged afterwards
    def ro(x):
        x = np.array(x)
        x.setflags(write=False)
        return x
    ref_c, peaks_c = np.array(ref), np.array(peaks)
    w_c = None if w is None else np.array(w)
    try:
        fit_ro = grm.get_transformation(ro(ref), ro(peaks), center=None if c is None else ro(np.asarray(c, dtype=float)),
                                        weighs=None if w is None else ro(w))
        back_ro = grm.do_transformation(ro(fit), ro(ref), center=None if c is None else ro(np.asarray(c, dtype=float)))
        if not np.array_equal(fit_ro, fit) or not np.array_equal(back_ro, back):
            msgs.append("read-only input arrays give another fit / image than writable ones")
    except Exception as e:      # noqa: BLE001
        msgs.append(f"read-only input arrays: raised {type(e).__name__}: {e}")
    if not np.array_equal(ref_c, ref) or not np.array_equal(peaks_c, peaks) or (w is not None and not np.array_equal(w_c, w)):
        msgs.append("get_transformation / do_transformation modified the caller's arrays")
    exact = grm.get_transformation(ref, ref @ np.asarray(p["L"]).T + np.asarray(p["t"]))
    cen = grm.find_center(exact)
    img = grm.do_transformation(exact, cen[np.newaxis, :])[0]
    if np.abs(img - cen).max() > 1e-6 * max(1.0, np.abs(cen).max()):
        msgs.append(f"find_center result {cen.tolist()} is mapped to {img.tolist()}")
    # the same with the fit's own centre argument and weights: the exact relation is fitted with any positive weights, and
    # the centre found for that fit is the fixed point of the map (in coordinates relative to the centre argument)
    cc = np.zeros(2) if c is None else np.asarray(c, dtype=float)
    fitw = grm.get_transformation(ref, ref @ np.asarray(p["L"]).T + np.asarray(p["t"]), center=c, weighs=w)
    cen_w = grm.find_center(fitw) + cc
    img_w = grm.do_transformation(fitw, cen_w[np.newaxis, :], center=c)[0]
    true_img = np.asarray(p["L"]) @ cen_w + np.asarray(p["t"])
    tol = 1e-6 * max(1.0, np.abs(cen_w).max(), np.abs(cc).max())
    if np.abs(img_w - cen_w).max() > tol or np.abs(true_img - cen_w).max() > tol * 10:
        msgs.append(f"find_center of the fit with centre {None if c is None else cc.tolist()} and weights "
                    f"{'yes' if w is not None else 'no'} gives {cen_w.tolist()}, which the fitted map sends to {img_w.tolist()} "
                    f"and the true map to {true_img.tolist()}")
    # call history: the caller's reference buffer is refilled in place with other points between calls (frame after frame,
    # with and without weights, same centre): every fit is the fit of what the buffer holds at the time of the call
    rng2 = np.random.default_rng(p["seed"] + 7)
    buf = np.array(ref, dtype=np.float64)
    L, t = np.asarray(p["L"]), np.asarray(p["t"])
    for step in range(3):
        w_ = None if step != 1 else w
        tgt = buf @ L.T + t
        f_ = grm.get_transformation(buf, tgt, center=c, weighs=w_)
        b_ = grm.do_transformation(f_, buf, center=c)
        if np.abs(b_ - tgt).max() > 1e-7 * max(1.0, np.abs(tgt).max()):
            msgs.append(f"call {step + 1} with a reference buffer refilled in place (weights {'yes' if w_ is not None else 'no'}): "
                        f"the exact affine relation is not reproduced, max error {np.abs(b_ - tgt).max():.3g}")
            break
        if step == 0:
            buf[:] = buf[::-1] * rng2.uniform(0.5, 1.5) + rng2.uniform(-20, 20, 2)      # other points, same array object
        else:
            buf += rng2.uniform(-8, 8, 2)                                              # drift corrected in place
    return msgs


def search(ctx, boost=1, focus=()):
    rng = np.random.default_rng(ctx.seed + 1020)
    n = (400 if ctx.tier == "thorough" else 100) * boost
    for k in range(n):
        p = gen(rng, k)
        ctx.count("int_ref" if p["int_ref"] else "float_ref")
        ctx.oracle_case("transformation", p, run_case("transformation", p),
                        nontrivial=(p["center"] is not None and p["w"] is not None))
    ctx.count("oracle_transformation", n)
