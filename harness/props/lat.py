"""shared helpers for the lattice properties (C05, C06, C17, C20)"""
from fractions import Fraction

import numpy as np

from common import rat


def dy(rng, lo, hi, bits=6):
    """random dyadic rational (exact in float64 arithmetic of the sizes used here)"""
    q = 1 << bits
    return float(rng.integers(int(lo * q), int(hi * q) + 1)) / q


def rats(vals):
    return " ".join(rat(float(v)) for v in np.asarray(vals, dtype=np.float64).ravel())


def fr(s):
    return [Fraction(x) for x in s.split()]


def lattice(rng, dyadic=True):
    """zero, a, b with |a|,|b| in 1..100 and |sin(angle)| >= 0.05"""
    while True:
        if dyadic:
            a = np.array([dy(rng, -60, 60), dy(rng, -60, 60)])
            b = np.array([dy(rng, -60, 60), dy(rng, -60, 60)])
            zero = np.array([dy(rng, -50, 150), dy(rng, -50, 150)])
        else:
            a, b = rng.uniform(-60, 60, 2), rng.uniform(-60, 60, 2)
            zero = rng.uniform(-50, 150, 2)
        na, nb = np.linalg.norm(a), np.linalg.norm(b)
        if 1 <= na <= 100 and 1 <= nb <= 100 and abs(a[0] * b[1] - a[1] * b[0]) >= 0.05 * na * nb:
            return zero, a, b
