"""Independent reference for the documented definitions of the correlation outputs (float64, no FFT),
and stage capture of the real pipelines.  Used by the oracles of C01-C04, C14, C15."""
import numpy as np

from libertem_blobfinder.base import correlation as bc


def direct_corr(mask, data):
    """out[j] = sum_m mask[m] * data[(j + N//2 - m) mod N]  (mask centred on N//2, circular)"""
    h, w = data.shape
    out = np.zeros((h, w), dtype=np.float64)
    ys, xs = np.nonzero(mask)
    for my, mx in zip(ys, xs):
        out += mask[my, mx] * np.roll(data, (my - h // 2, mx - w // 2), axis=(0, 1))
    return out


def window(frame, c, p):
    """zero-padded window rows p0-c..p0+c-1"""
    fy, fx = frame.shape
    out = np.zeros((2 * c, 2 * c), dtype=np.float64)
    for y in range(2 * c):
        yy = p[0] - c + y
        if 0 <= yy < fy:
            x0, x1 = p[1] - c, p[1] + c
            lo, hi = max(x0, 0), min(x1, fx)
            if lo < hi:
                out[y, lo - x0:hi - x0] = frame[yy, lo:hi]
    return out


def ref_maps(frame, pattern, peaks, pipeline):
    """per peak: the documented correlation map restricted to the search window (2c x 2c)"""
    c = pattern.get_crop_size()
    frame = np.asarray(frame, dtype=np.float64)
    maps = []
    if pipeline == "fast":
        mask = np.asarray(pattern.get_mask((2 * c, 2 * c)), dtype=np.float64)
        for p in peaks:
            win = window(frame, c, p)
            maps.append(direct_corr(mask, np.log(win - win.min() + 1)))
    else:
        mask = np.asarray(pattern.get_mask(frame.shape), dtype=np.float64)
        full = direct_corr(mask, np.log(frame - frame.min() + 1))
        for p in peaks:
            maps.append(window(full, c, p))
    return maps


def ref_refined(m, cy, cx):
    h, w = m.shape
    r = min(2, cy, cx, h - cy - 1, w - cx - 1)
    if r <= 0:
        return float(cy), float(cx)
    cut = m[cy - r:cy + r + 1, cx - r:cx + r + 1]
    wgt = cut - cut.min()
    s = wgt.sum()
    yy, xx = np.mgrid[0:2 * r + 1, 0:2 * r + 1]
    return cy + (wgt * yy).sum() / s - r, cx + (wgt * xx).sum() / s - r


def ref_elevation(m, ry, rx, height):
    h, w = m.shape
    yy, xx = np.mgrid[0:h, 0:w]
    d = np.sqrt((yy - ry) ** 2 + (xx - rx) ** 2)
    sel = d >= 1.5
    if not sel.any():
        return np.inf
    return max(0.0, float(((height - m[sel]) / d[sel]).min()))


def check_outputs(maps, peaks, c, outs, tol_rel=2e-4):
    """the statement of C03 against reference maps; returns messages"""
    msgs = []
    cen, ref, hgt, elv = (np.asarray(a, dtype=np.float64) for a in outs)
    for i, (m, p) in enumerate(zip(maps, peaks)):
        scale = max(1.0, np.abs(m).max())
        tol = tol_rel * scale
        if not np.isfinite(m).all():
            continue
        wy, wx = int(cen[i][0] - p[0] + c), int(cen[i][1] - p[1] + c)
        if not (0 <= wy < 2 * c and 0 <= wx < 2 * c):
            msgs.append(f"peak #{i} {tuple(p)}: centre {cen[i].tolist()} outside the search window")
            continue
        if abs(hgt[i] - m.max()) > tol:
            msgs.append(f"peak #{i} {tuple(p)}: height {hgt[i]} != max of the documented correlation {m.max()}")
            continue
        if m[wy, wx] < m.max() - tol:
            msgs.append(f"peak #{i} {tuple(p)}: centre {cen[i].tolist()} does not attain the maximum "
                        f"({m[wy, wx]} < {m.max()})")
            continue
        # near ties: the refinement is only compared when the maximum is clear of the runner-up
        second = np.partition(m.ravel(), -2)[-2] if m.size > 1 else -np.inf
        ry, rx = ref_refined(m, wy, wx)
        near_flat = (m.max() - m.min()) < 1e-3 * scale
        if not near_flat:
            r = min(2, wy, wx, 2 * c - wy - 1, 2 * c - wx - 1)
            cutspan = 1.0
            if r > 0:
                cut = m[wy - r:wy + r + 1, wx - r:wx + r + 1]
                cutspan = (cut - cut.min()).sum() / scale
            rtol = 2e-3 + 2e-5 / max(cutspan, 1e-12)
            got = ref[i] - np.asarray(p) + c
            if abs(got[0] - ry) > rtol or abs(got[1] - rx) > rtol:
                msgs.append(f"peak #{i} {tuple(p)}: refined (window coords) {got.tolist()} != centre of mass of the "
                            f"min-subtracted neighbourhood {[ry, rx]} (integer centre {[wy, wx]})")
                continue
            e = ref_elevation(m, got[0], got[1], m[wy, wx])
            if np.isfinite(e) and abs(elv[i] - e) > 5e-3 * max(e, scale * 1e-2):
                msgs.append(f"peak #{i} {tuple(p)}: elevation {elv[i]} != smallest slope at distance >= 1.5: {e}")
    return msgs


class Stages:
    """capture the intermediate arrays of one process_frame_fast / _full call by wrapping the stage functions"""

    def __init__(self):
        self.blocks = []
        self.cur = None

    def run_fast(self, runner):
        o_log, o_corr, o_eval = bc.log_scale_cropbufs_inplace, bc.do_correlations, bc.evaluate_correlations
        st = self

        def log_(crop_bufs):      # same signature as the wrapped function: the caller may use keywords
            st.cur = {"cropped": np.array(crop_bufs)}
            st.blocks.append(st.cur)
            o_log(crop_bufs)
            st.cur["logged"] = np.array(crop_bufs)

        def corr_(template, crop_parts, with_specs=False):
            st.cur["corr_in"] = np.array(crop_parts)
            r = o_corr(template, crop_parts, with_specs)
            st.cur["corrs"] = np.array(r[0] if with_specs else r)
            return r

        def eval_(corrs, peaks, crop_size, out_centers, out_refineds, out_heights, out_elevations):
            st.cur["eval_in"] = np.array(corrs)
            st.cur["peaks"] = np.array(peaks)
            o_eval(corrs=corrs, peaks=peaks, crop_size=crop_size, out_centers=out_centers,
                   out_refineds=out_refineds, out_heights=out_heights, out_elevations=out_elevations)
            st.cur["outs"] = tuple(np.array(a) for a in (out_centers, out_refineds, out_heights, out_elevations))
        bc.log_scale_cropbufs_inplace, bc.do_correlations, bc.evaluate_correlations = log_, corr_, eval_
        try:
            return runner()
        finally:
            bc.log_scale_cropbufs_inplace, bc.do_correlations, bc.evaluate_correlations = o_log, o_corr, o_eval

    def run_full(self, runner_with_crop):
        o_eval = bc.evaluate_correlations
        st = self

        def crop(peaks, frame, crop_size, out_crop_bufs):
            st.corr = np.array(frame)
            st.cur = {"peaks": np.array(peaks)}
            st.blocks.append(st.cur)
            bc.crop_disks_from_frame(peaks=peaks, frame=frame, crop_size=crop_size, out_crop_bufs=out_crop_bufs)

        def eval_(corrs, peaks, crop_size, out_centers, out_refineds, out_heights, out_elevations):
            st.cur["eval_in"] = np.array(corrs)
            o_eval(corrs=corrs, peaks=peaks, crop_size=crop_size, out_centers=out_centers,
                   out_refineds=out_refineds, out_heights=out_heights, out_elevations=out_elevations)
            st.cur["outs"] = tuple(np.array(a) for a in (out_centers, out_refineds, out_heights, out_elevations))
        bc.evaluate_correlations = eval_
        try:
            return runner_with_crop(crop)
        finally:
            bc.evaluate_correlations = o_eval


def half_spectrum_objective(mask, data, cen, us):
    """What the DFT upsampling maximises (known finding D15), re-implemented in float64 from the definition: the modulus of
    the *half-spectrum* sum  | sum_{k1, 0 <= k2 <= W/2} S[k1, k2] exp(2 pi i (f1[k1] y + f2[k2] x)) |  with S the product of the
    rfft2 spectra of mask and data, on the grid y = cen_y - ceil(H/2) + (i - d)/us, x likewise, i = 0 .. ceil(1.5 us) - 1,
    d = fix(ceil(1.5 us)/2).  Returns (ys, xs, values): candidate positions in map coordinates and the objective."""
    mask = np.asarray(mask, dtype=np.float64)
    data = np.asarray(data, dtype=np.float64)
    h, w = data.shape
    spec = np.fft.rfft2(mask) * np.fft.rfft2(data)
    region = int(np.ceil(us * 1.5))
    d = int(np.fix(region / 2.0))
    centre = np.ceil(np.array([h, w]) / 2)
    off = (np.arange(region) - d) / us
    ys = cen[0] - centre[0] + off
    xs = cen[1] - centre[1] + off
    ky = np.exp(2j * np.pi * np.fft.fftfreq(h)[None, :] * ys[:, None])
    kx = np.exp(2j * np.pi * np.fft.rfftfreq(w)[None, :] * xs[:, None])
    vals = np.abs(ky @ spec @ kx.T)
    return ys + centre[0], xs + centre[1], vals


def is_half_spectrum_maximiser(mask, data, cen, us, refined, rel=2e-4):
    """the reported refined position lies on the candidate grid around `cen` and (nearly) maximises the objective above"""
    ys, xs, vals = half_spectrum_objective(mask, data, cen, us)
    i, j = int(np.argmin(np.abs(ys - refined[0]))), int(np.argmin(np.abs(xs - refined[1])))
    if abs(ys[i] - refined[0]) > 1e-3 or abs(xs[j] - refined[1]) > 1e-3:
        return False
    return bool(vals[i, j] >= vals.max() * (1 - rel))
