#!/bin/bash
# usage: seedconfirm.sh <name> [<dest-id>]  -- confirm a seeded change produced in /tmp/seed/<name> and keep it in /verif/seeded/<dest-id>
name=$1; dest=${2:-$1}; wt=/tmp/seed/$name
cd $wt || exit 9
git diff -- src > /tmp/seed/$name.cur.diff
if ! diff -q /tmp/seed/$name.cur.diff demo/patch.diff >/dev/null; then echo "NOTE: working tree differs from demo/patch.diff; using patch.diff"; git checkout -- src; git apply demo/patch.diff || exit 8; fi
t=$(PYTHONPATH=$wt/src /venv/bin/python -m pytest -q -p no:cacheprovider --timeout=900 2>&1 | tail -1)
echo "tests with change: $t"
(cd demo && PYTHONPATH=$wt/src /venv/bin/python demo.py >/tmp/seed/$name.with.log 2>&1); rc_with=$?
git checkout -- src
(cd demo && PYTHONPATH=$wt/src /venv/bin/python demo.py >/tmp/seed/$name.without.log 2>&1); rc_without=$?
echo "demo rc with change: $rc_with, without: $rc_without"
if [[ "$t" == *"61 passed"* && $rc_with -ne 0 && $rc_without -eq 0 ]]; then
  mkdir -p /verif/seeded/$dest
  cp demo/patch.diff demo/demo.py /verif/seeded/$dest/
  for extra in demo/*/; do [ -d "$extra" ] && [ "$(basename $extra)" != __pycache__ ] && rsync -a --exclude __pycache__ "$extra" /verif/seeded/$dest/$(basename $extra)/; done
  python3 - <<PY
import json
m=json.load(open('$wt/demo/meta.json'))
m['confirmed']={'tests_with_change':'$t','demo_rc_with_change':$rc_with,'demo_rc_without_change':$rc_without,
 'ran':'harness/seedconfirm.sh: pytest with PYTHONPATH=<worktree>/src; demo.py with the patch applied and after git checkout -- src'}
json.dump(m,open('/verif/seeded/$dest/meta.json','w'),indent=1)
PY
  echo "KEPT as /verif/seeded/$dest"
else
  echo "REJECTED"
fi
cd / && git -C /repo worktree remove --force $wt
