#!/bin/bash
# run every kept seeded change against its own property's quick check (and related ones); one line per pair
V=$(cd "$(dirname "$0")/.." && pwd)
out=$V/seeded/RESULTS.txt
: > $out
declare -A extra=( [C13]="C09 C04 C10" [C09]="C13 C10" [C04]="C13 C14 C03" [C14]="C13 C04" [C10]="C13 C09" [C01]="C02" [C02]="C01" [C03]="C04" [C05]="C12 C11" [C06]="C05 C20" [C16]="C19 C01" [C17]="C11" [C15]="C10" [C08]="C10" [C07]="" [C11]="" [C12]="" [C18]="C16" [C19]="C10" [C20]="")
for d in $V/seeded/C*/; do
  id=$(basename $d)
  for p in $id ${extra[$id]}; do
    r=$($V/harness/seedtest.sh $d/patch.diff $p 2>&1 | grep -E "VIOLATION|rc=" | tr '\n' ' ' | cut -c1-160)
    echo "$id -> $p : $r" >> $out
  done
done
echo DONE >> $out
