#!/bin/bash
# usage: seedtest.sh <patch.diff> <prop> [<prop> ...]   -- apply a seeded change to /repo, run quick checks, undo
patch=$1; shift
R=${VERIF_REPO:-/repo}; V=$(cd "$(dirname "$0")/.." && pwd)
git -C $R apply "$patch" || exit 9
bk=$(mktemp -d); cp -r $V/evidence "$bk/"
for p in "$@"; do
  $V/check $p --tier quick 2>/dev/null | grep -E "VIOLATION|KNOWN" | cut -c1-200; echo "  -> $p rc=${PIPESTATUS[0]}"
done
git -C $R checkout -- .
rm -rf $V/evidence; cp -r "$bk/evidence" $V/evidence; rm -rf "$bk"
/venv/bin/python $V/harness/translate.py >/dev/null
