#!/bin/bash
# usage: seedtest.sh <patch.diff> <prop> [<prop> ...]   -- apply a seeded change to /repo, run quick checks, undo
patch=$1; shift
git -C /repo apply "$patch" || exit 9
bk=$(mktemp -d); cp -r /verif/evidence "$bk/"
for p in "$@"; do
  /verif/check $p --tier quick 2>/dev/null | grep -E "VIOLATION|KNOWN" | cut -c1-200; echo "  -> $p rc=${PIPESTATUS[0]}"
done
git -C /repo checkout -- .
rm -rf /verif/evidence; cp -r "$bk/evidence" /verif/evidence; rm -rf "$bk"
/venv/bin/python /verif/harness/translate.py >/dev/null
