from .__version__ import __version__

__all__ = ['__version__']
