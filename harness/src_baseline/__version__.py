__version__ = "0.7.0.dev0"
