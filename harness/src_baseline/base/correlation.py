import os
from typing import Union, Tuple

import numpy as np
import numpy.typing as npt
import numba
import sparseconverter


fft = np.fft
zeros = np.zeros

# Necessary to work with JIT disabled for coverage and testing purposes
# https://github.com/LiberTEM/LiberTEM/issues/539
if os.getenv('NUMBA_DISABLE_JIT'):
    def to_fixed_tuple(array, length):
        return tuple(array)
else:
    from numba.np.unsafe.ndarray import to_fixed_tuple


def _upsampled_dft(
    corrspecs: npt.NDArray,
    frequencies: Tuple[np.ndarray, np.ndarray],
    upsampled_region_size: int,
    axis_offsets: Tuple[float, float],
) -> np.ndarray:
    """
    Heavily adapted from skimage.registration._phase_cross_correlation.py
    which is itself based on code by Manuel Guizar released initially under a
    BSD 3-Clause license @ https://www.mathworks.com/matlabcentral/fileexchange/18401

    :meta private:
    """
    im2pi = -1j * 2 * np.pi
    upsampled = corrspecs
    for (ax_freq, ax_offset) in zip(frequencies[::-1], axis_offsets[::-1]):
        kernel = np.linspace(
            -ax_offset,
            (-ax_offset + upsampled_region_size - 1),
            num=int(upsampled_region_size),
        )
        kernel = np.exp(kernel[:, None] * ax_freq * im2pi, dtype=np.complex64)
        # Equivalent to:
        #   data[i, j, k] = kernel[i, :] @ data[j, k].T
        upsampled = np.tensordot(kernel, upsampled, axes=(1, -1))
    return upsampled


def refine_center_upsampling(
    corrmap_center: npt.NDArray,
    upsample_pos: npt.NDArray,
    corrspecs: npt.NDArray,
    frequencies: Tuple[npt.NDArray, npt.NDArray],
    upsample_factor: int,
) -> npt.NDArray:
    '''
    Parameters
    ----------
    corrmap_center : np.ndarray[(2,), np.float32]
        The centre of the correlation map resulting from irfft(corrspecs)
    upsample_pos : np.ndarray[(2,), np.float32]
        (y, x) coordinates of the argmax position within the correlation map
    corrspecs : np.ndarray[(2,), np.float32]
        The rfft2 of the correlation map (last dimension halved + 1, normally)
    frequencies : Tuple[np.ndarray[(2,), np.float32]]
        The fft frequencies corresponding to the axes of corrspecs
    upsample_factor : int
        The number of upsampled pixels per pixel in the original correlation map
        when finding the refined position. Directly determines the precision of the
        result (e.g. 20 => 0.05 pixel precision).

    Returns
    -------
    refined : np.ndarray[(2,), np.float32]
        The position of the refined maximum

    :meta private:
    '''
    # Same license info as in the function _upsampled_dft

    # Move the real position in corr to the position
    # in the fft (essentially apply fftshift without wrapping)
    shift = upsample_pos - corrmap_center
    shift_us = np.round(shift * upsample_factor)

    upsampled_region_size = np.ceil(upsample_factor * 1.5)
    dftshift = np.fix(upsampled_region_size / 2.0)
    sample_region_offset = dftshift - shift_us

    cross_correlation_us = _upsampled_dft(
        corrspecs=corrspecs.conj(),
        frequencies=frequencies,
        upsampled_region_size=upsampled_region_size,
        axis_offsets=sample_region_offset,
    ).conj()

    # Find the argmax in the upsampled corrmap
    maxima = np.unravel_index(
        np.abs(cross_correlation_us).argmax(),
        cross_correlation_us.shape,
    )
    maxima = np.stack(maxima).astype(np.float32, copy=False)
    maxima -= dftshift

    # Transform the maximum back into the coordinate system of corr
    shift += maxima / upsample_factor
    shift += corrmap_center
    return shift.astype(np.float32)


@numba.njit
def center_of_mass(arr):
    r_y = r_x = np.float32(0)
    for y in range(arr.shape[0]):
        for x in range(arr.shape[1]):
            r_y += np.float32(arr[y, x]*y)
            r_x += np.float32(arr[y, x]*x)
    s = arr.sum()
    return (np.float32(r_y/s), np.float32(r_x/s))


@numba.njit
def refine_center(center, r, corrmap):
    (y, x) = center
    s = corrmap.shape
    r = min(r, y, x, s[0] - y - 1, s[1] - x - 1)
    if r <= 0:
        return (np.float32(y), np.float32(x))
    else:
        # FIXME See and compare with Extension of Phase Correlation to Subpixel Registration
        # Hassan Foroosh
        # That one or a close/similar/cited one
        cutout = corrmap[y-r:y+r+1, x-r:x+r+1]
        m = np.min(cutout)
        ry, rx = center_of_mass(cutout - m)
        refined_y = y + ry - r
        refined_x = x + rx - r
        # print(y, x, refined_y, refined_x, "\n", cutout)
        return (np.float32(refined_y), np.float32(refined_x))


@numba.njit
def peak_elevation(center, corrmap, height, r_min=1.5, r_max=np.inf):
    '''
    Return the slope of the tightest cone around :code:`center` with height :code:`height`
    that touches :code:`corrmap` between :code:`r_min` and :code:`r_max`.

    The correlation of two disks -- mask and perfect diffraction spot -- has the shape of a cone.
    The function's return value correlates with the quality of a correlation. Higher slope
    means a strong peak and
    no side maxima, while weak signal or side maxima lead to a flatter slope.

    Parameters
    ----------
    center : numpy.ndarray
        (y, x) coordinates of the center within the :code:`corrmap`
    corrmap : numpy.ndarray
        Correlation map
    height : float
        The height is provided as a parameter since center can be float values from refinement
        and the height value is conveniently available from the calling function.
    r_min : float, optional
        Masks out a small local plateau around the peak that would distort and dominate
        the calculation.
    r_max : float, optional
        Mask out neighboring peaks if a large area with several legitimate peaks is
        correlated.

    Returns
    -------
    elevation : float
        Elevation of the tightest cone that fits the correlation map within the given
        parameter range.
    '''
    peak_y, peak_x = center
    (size_y, size_x) = corrmap.shape
    result = np.float32(np.inf)

    for y in range(size_y):
        for x in range(size_x):
            dist = np.sqrt((y - peak_y)**2 + (x - peak_x)**2)
            if (dist >= r_min) and (dist < r_max):
                result = min((result, np.float32((height - corrmap[y, x]) / dist)))
    return max(0, result)


def do_correlations(template, crop_parts, with_specs: bool = False):
    '''
    Calculate the correlation of the pre-calculated template with a stack
    of cropped peaks using fast correlation.

    Parameters
    ----------
    template : numpy.ndarray
        Real Fourier transform of the correlation pattern.
        The source pattern should have the same size as the cropped parts. Please note that
        the real Fourier transform (fft.rfft2) of the source pattern has a different shape!
    crop_parts : numpy.ndarray
        Stack of peaks cropped from the frame.
    with_specs: bool, optional
        Whether to return the FFT correlation maps before inversion,
        used for FFT upsampling. By default, False.

    Returns
    -------
    corrs : numpy.ndarray
        Correlation of the correlation pattern and the peaks.
    corrspecs : numpy.ndarray
        The FFT correlation maps before inversion, returned only
        if with_specs is True.
    '''
    spec_parts = fft.rfft2(crop_parts)
    corrspecs = template * spec_parts
    corrs = fft.ifftshift(
        fft.irfft2(
            corrspecs,
            s=crop_parts.shape[-2:],
        ),
        axes=(-2, -1),
    )
    if with_specs:
        return corrs, corrspecs
    return corrs


@numba.njit
def unravel_index(index, shape):
    sizes = np.zeros(len(shape), dtype=np.int64)
    result = np.zeros(len(shape), dtype=np.int64)
    sizes[-1] = 1
    for i in range(len(shape) - 2, -1, -1):
        sizes[i] = sizes[i + 1] * shape[i + 1]
    remainder = index
    for i in range(len(shape)):
        result[i] = remainder // sizes[i]
        remainder %= sizes[i]
    return to_fixed_tuple(result, len(shape))


@numba.njit
def evaluate_correlations(corrs, peaks, crop_size,
        out_centers, out_refineds, out_heights, out_elevations):
    for i in range(len(corrs)):
        corr = corrs[i]
        center = unravel_index(np.argmax(corr), corr.shape)
        refined = np.array(refine_center(center, 2, corr), dtype=np.float32)
        height = np.float32(corr[center])
        out_centers[i] = _shift(np.array(center), peaks[i], crop_size)
        out_refineds[i] = _shift(refined, peaks[i], crop_size)
        out_heights[i] = height
        out_elevations[i] = np.float32(peak_elevation(refined, corr, height))


def evaluate_upsampling(corrspecs, corrs, peaks, crop_size, sig_shape, upsample_factor,
        out_centers, out_refineds):
    """
    Evaluate the refined peak positions using DFT upsampling

    Internally re-inverts corrspecs with upsampling around
    the positions found in out_centers, and places the
    argmax of these new corrmaps into out_refineds.

    This function operates either on a full-frame corrspecs (ndim of 2)
    or a stack of corrspecs (ndim of 3) when using the 'fast' processing
    mode (crops of the frame).

    Parameters
    ----------
    corrspecs : numpy.ndarray
        The rFFT correlations before inversion. If :code:`ndim == 3`
        we are processing a stack of crops from a frame, while if
        :code:`ndim == 2` we are processing the correlation map of
        the whole frame.
    corrs : numpy.ndarray
        Stack of correlation maps, either matching the stack of corrspecs
        (fast processing), or crops from the full-frame correlation map.
    peaks : np.ndarray
        List of peaks of shape (n_peaks, 2) in full-frame frame coordinates,
        matching the order of corrs if processing crops.
    crop_size : int
        Half the size of the correlation pattern used to compute corrspecs.
    sig_shape : Tuple[int, int]
        The shape of the full frame
    upsample_factor : int
        The degree to upsample the frame, determines the precision
        of the result (:code:`1 / upsample_factor`).
    out_centers : np.ndarray
        Buffer filled with for unrefined peak positions of shape (n_peaks, 2).
        These are read to know the upsampling location.
    out_refineds : np.ndarray
        Output buffer for refined center positions of shape (n_peaks, 2)
        and float dtype, values will be overwritten with the upsampled coordinates.

    :meta private:
    """
    # A corrspec stack means we are processing corrspecs of crops of the frame
    # and corrs are the irfft2 of each corrspec. Otherwise, corrspecs is the single rfft2
    # of the whole frame and corrs are the crops from the irfft2 of corrspecs.
    # An alternative to these gynmastics is specialise evaluate_upsampling into
    # evaluate_upsampling_fast and evaluate_upsampling_full
    corrspec_stack = corrspecs.ndim == 3
    corr_shape = corrs.shape[1:] if corrspec_stack else sig_shape
    corr_center = np.ceil(np.asarray(corr_shape) / 2, dtype=np.float32)

    frequencies = (
        fft.fftfreq(corr_shape[0], upsample_factor),
        fft.rfftfreq(corr_shape[1], upsample_factor),
    )

    for i in range(len(corrs)):
        corrspec = corrspecs[i] if corrspec_stack else corrspecs
        center = out_centers[i]
        if corrspec_stack:
            center = _unshift(center, peaks[i], crop_size)
        out_refineds[i] = refine_center_upsampling(
            corr_center, center, corrspec, frequencies, upsample_factor=upsample_factor
        )
        if corrspec_stack:
            out_refineds[i] = _shift(out_refineds[i], peaks[i], crop_size)


def log_scale(data, out):
    # Promote first: integer input wraps around in x - min + 1, and small
    # integer types would be log-scaled with float16 precision
    dtype = np.result_type(data.dtype, np.float32)
    return np.log(data.astype(dtype, copy=False) - np.min(data) + 1, out=out)


def log_scale_cropbufs_inplace(crop_bufs):
    # Subtract the minimum first: min - 1 is not representable in float32
    # buffers for |min| >= 2**24 and log(x - (min - 1)) gives -inf or a
    # wrong offset there
    m = np.min(crop_bufs, axis=(-1, -2))
    np.log(crop_bufs - m[:, np.newaxis, np.newaxis] + 1, out=crop_bufs)


@numba.njit
def crop_disks_from_frame(peaks, frame, crop_size, out_crop_bufs):

    def frame_coord_y(peak, y):
        return y + peak[0] - crop_size

    def frame_coord_x(peak, x):
        return x + peak[1] - crop_size

    fy, fx = frame.shape
    for i in range(len(peaks)):
        peak = peaks[i]
        for y in range(out_crop_bufs.shape[1]):
            yy = frame_coord_y(peak, y)
            y_outside = yy < 0 or yy >= fy
            for x in range(out_crop_bufs.shape[2]):
                xx = frame_coord_x(peak, x)
                x_outside = xx < 0 or xx >= fx
                if y_outside or x_outside:
                    out_crop_bufs[i, y, x] = 0
                else:
                    out_crop_bufs[i, y, x] = frame[yy, xx]


def crop_disks_from_frame_slicing(peaks, frame, crop_size, out_crop_bufs):

    def frame_coord_y(peak, y):
        return y + int(peak[0]) - crop_size

    def frame_coord_x(peak, x):
        return x + int(peak[1]) - crop_size

    fy, fx = frame.shape
    target_backend = sparseconverter.get_backend(out_crop_bufs)
    for i in range(len(peaks)):
        peak = peaks[i]
        origin_y = frame_coord_y(peak, 0)
        origin_x = frame_coord_x(peak, 0)
        end_y = frame_coord_y(peak, out_crop_bufs.shape[1])
        end_x = frame_coord_x(peak, out_crop_bufs.shape[2])
        skip_y = max(-origin_y, 0)
        skip_x = max(-origin_x, 0)

        cut_y = fy - end_y
        if cut_y >= 0:
            cut_y = None
        cut_x = fx - end_x
        if cut_x >= 0:
            cut_x = None

        # The part of the window outside of the frame has to be defined, too
        out_crop_bufs[i] = 0
        out_crop_bufs[i, skip_y:cut_y, skip_x:cut_x] = sparseconverter.for_backend(
            frame[
                max(origin_y, 0):max(end_y, 0),
                max(origin_x, 0):max(end_x, 0)
            ],
            target_backend
        )


@numba.njit
def _shift(relative_center, anchor, crop_size):
    return relative_center + anchor - np.array((crop_size, crop_size))


@numba.njit
def _unshift(center, anchor, crop_size):
    return center - anchor + np.array((crop_size, crop_size))


def get_buf_count(crop_size, n_peaks, dtype, limit=2**19):
    '''
    Calculate the optimal number of peaks in a stack to fit
    within the limit.

    Parameters
    ----------
    crop_size : int
        The cropped parts will have size (2 * crop-size, 2 * crop_size)
    n_peaks : int
        Number of peaks
    dtype : numpy.dtype
        dtype of the data for size calculation
    limit : int, optional
        Upper limit, default 1/2 MB to be L3 cache friendly

    Returns
    -------
    int
    '''
    dtype = np.dtype(dtype)
    full_size = (2 * crop_size)**2 * dtype.itemsize
    return min(max(1, limit // full_size), n_peaks)


def allocate_crop_bufs(crop_size, n_peaks, dtype, limit=2**19, xp=np):
    '''
    Allocate buffer for stack of cropped peaks

    The size is optimized to fit within :code:`limit`. An aligned buffer for the FFT
    back-end is created if possible.

    Parameters
    ----------
    crop_size : int
        The cropped parts will have size (2 * crop-size, 2 * crop_size)
    n_peaks : int
        Number of peaks
    dtype : numpy.dtype
        dtype of the buffer
    limit : int, optional
        Upper limit, default 1/2 MB to be L3 cache friendly

    Returns
    -------
    crop_bufs: np.ndarray
        Shape (n, 2*crop_size, 2*crop_size)
    '''
    buf_count = get_buf_count(crop_size, n_peaks, dtype, limit)
    crop_bufs = xp.zeros((buf_count, 2 * crop_size, 2 * crop_size), dtype=dtype)
    return crop_bufs


def process_frame_fast(
    template, crop_size, frame, peaks,
    out_centers, out_refineds, out_heights, out_elevations,
    crop_bufs, upsample: Union[bool, int] = False,
    crop_function=crop_disks_from_frame,
):
    '''
    Find the parameters of peaks in a diffraction pattern by correlation with a template

    This function is designed to be used in an optimized pipeline with a pre-calculated
    Fourier transform of the match pattern and optional pre-allocated buffers.
    It is the engine of the :class:`libertem_blobfinder.udf.correlation.FastCorrelationUDF` for
    stand-alone use independent of LiberTEM.

    :meth:`libertem_blobfinder.common.correlation.process_frames_fast` offers a more
    convenient interface for batch processing.

    Parameters
    ----------
    template : numpy.ndarray
        Real Fourier transform of the correlation pattern.
        The source pattern shape should match the shape[1:] of crop_bufs.
        Please note that the real Fourier transform (fft.rfft2) of the
        source pattern has a different shape!
    crop_size : int
        Half the size of the correlation pattern. Given as a parameter since real Fourier
        transform changes the size.
    frame : np.ndarray
        Frame data. Currently, only Real values are supported.
    peaks : np.ndarray
        List of peaks of shape (n_peaks, 2)
    out_centers : np.ndarray
        Output buffer for center positions of shape (n_peaks, 2) and integer dtype.
    out_refineds : np.ndarray
        Output buffer for refined center positions of shape (n_peaks, 2) and float dtype.
    out_heights : np.ndarray
        Output buffer for peak height in log scaled frame. Shape (n_peaks, ) and float dtype.
    out_elevations : np.ndarray
        Output buffer for peak elevation in log scaled frame. Shape (n_peaks, ) and float dtype.
    crop_bufs : np.ndarray
        Temporary buffers for cropping. Shape (n, 2 * crop_size, 2 * crop_size) and float dtype.
        n doesn't have to match the number of peaks. Instead, it should be chosen for good L3 cache
        efficiency. :meth:`allocate_crop_bufs` can be used to allocate this buffer.
    upsample : Union[bool, int], optional
        Whether to use upsampling DFT for refinement. False to deactivate (default) or a positive
        integer >1 to upsample by this factor when refining the correlation peak positions. Upsample
        True will choose a sensible upsampling factor.

    Returns
    -------
    None
        The values are placed in the provided output buffers.

    Example
    -------

    >>> from libertem_blobfinder.common.patterns import RadialGradient
    >>> from libertem_blobfinder.base.correlation import allocate_crop_bufs
    >>> from libertem_blobfinder.base.utils import cbed_frame
    >>>
    >>> frames, indices, peaks = cbed_frame(radius=4)
    >>> pattern = RadialGradient(radius=4)
    >>> crop_size = pattern.get_crop_size()
    >>> template = pattern.get_template(sig_shape=(2 * crop_size, 2 * crop_size))
    >>>
    >>> centers = np.zeros((len(frames), len(peaks), 2), dtype=np.uint16)
    >>> refineds = np.zeros((len(frames), len(peaks), 2), dtype=np.float32)
    >>> heights = np.zeros((len(frames), len(peaks)), dtype=np.float32)
    >>> elevations = np.zeros((len(frames), len(peaks)), dtype=np.float32)
    >>>
    >>> crop_bufs = allocate_crop_bufs(crop_size, len(peaks), frames.dtype)
    >>>
    >>> for i, f in enumerate(frames):
    ...     process_frame_fast(
    ...         template=template, crop_size=crop_size,
    ...         frame=f, peaks=peaks.astype(np.int32),
    ...         out_centers=centers[i], out_refineds=refineds[i],
    ...         out_heights=heights[i], out_elevations=elevations[i],
    ...         crop_bufs=crop_bufs
    ...     )
    >>> assert np.allclose(refineds[0], peaks, atol=0.1)
    '''
    if upsample is True:
        upsample = 20
    buf_count = len(crop_bufs)
    block_count = (len(peaks) - 1) // buf_count + 1
    for block in range(block_count):
        start = block * buf_count
        stop = min((block + 1) * buf_count, len(peaks))
        size = stop - start
        crop_function(
            peaks=peaks[start:stop], frame=frame, crop_size=crop_size,
            out_crop_bufs=crop_bufs[:size]
        )
        log_scale_cropbufs_inplace(crop_bufs[:size])
        corrs, corrspecs = do_correlations(
            template,
            crop_bufs[:size],
            with_specs=True
        )
        corrs = sparseconverter.for_backend(
            corrs,
            sparseconverter.NUMPY,
        )
        corrspecs = sparseconverter.for_backend(
            corrspecs,
            sparseconverter.NUMPY,
        )
        evaluate_correlations(
            corrs=corrs, peaks=peaks[start:stop], crop_size=crop_size,
            out_centers=out_centers[start:stop], out_refineds=out_refineds[start:stop],
            out_heights=out_heights[start:stop], out_elevations=out_elevations[start:stop]
        )
        if int(upsample) > 1:
            evaluate_upsampling(
                corrspecs=corrspecs, corrs=crop_bufs[:size], peaks=peaks[start:stop],
                crop_size=crop_size, sig_shape=frame.shape, upsample_factor=int(upsample),
                out_centers=out_centers[start:stop], out_refineds=out_refineds[start:stop],
            )


def process_frame_full(template, crop_size, frame, peaks,
        out_centers=None, out_refineds=None, out_heights=None, out_elevations=None,
        frame_buf=None, buf_count=None, upsample: Union[bool, int] = False,
        crop_function=crop_disks_from_frame):
    '''
    Find the parameters of peaks in a diffraction pattern by correlation with a template

    This function is designed to be used in an optimized pipeline with a pre-calculated
    Fourier transform of the match pattern and optional pre-allocated buffers. It is the
    engine of the :class:`libertem_blobfinder.udf.correlation.FullFrameCorrelationUDF`
    for stand-alone use independent of LiberTEM.

    :meth:`libertem_blobfinder.common.correlation.process_frames_full` offers a more
    convenient interface for batch processing.

    Parameters
    ----------
    template : numpy.ndarray
        Real Fourier transform of the correlation pattern.
        The source pattern shape should match the argument crop_size, either the supplied
        shape or (2 * crop_size, 2 * crop_size) if default. Please note that
        the real Fourier transform (fft.rfft2) of the source pattern has a different shape!
    crop_size : int
        Half the size of the correlation pattern. Given as a parameter since real Fourier
        transform changes the size.
    frame : np.ndarray
        Frame data. Currently, only real values are supported.
    peaks : np.ndarray
        List of peaks of shape (n_peaks, 2)
    out_centers : np.ndarray, optional
        Output buffer for center positions of shape (n_peaks, 2) and integer dtype. Will be
        allocated if needed.
    out_refineds : np.ndarray, optional
        Output buffer for refined center positions of shape (n_peaks, 2) and float dtype. Will be
        allocated if needed.
    out_heights : np.ndarray, optional
        Output buffer for peak height in log scaled frame. Shape (n_peaks, ) and float dtype. Will
        be allocated if needed.
    out_elevations : np.ndarray, optional
        Output buffer for peak elevation in log scaled frame. Shape (n_peaks, ) and float dtype.
        Will be allocated if needed.
    frame_buf : np.ndarray
        Temporary buffer for the FFT back-end. Shape of a frame and float dtype.
        :meth:`libertem_blobfinder.base.correlation.zero` can be used.
    buf_count : int
        Number of peaks to process per outer loop iteration. This allows optimization of L3 cache
        efficiency.
    upsample : Union[bool, int], optional
        Whether to use upsampling DFT for refinement. False to deactivate (default) or a positive
        integer >1 to upsample by this factor when refining the correlation peak positions. Upsample
        True will choose a sensible upsampling factor.


    Returns
    -------
    None
        The values are placed in the provided output buffers.

    Example
    -------

    >>> from libertem_blobfinder.common.patterns import RadialGradient
    >>> from libertem_blobfinder.base.correlation import get_buf_count, zeros
    >>> from libertem_blobfinder.base.utils import cbed_frame
    >>>
    >>> frames, indices, peaks = cbed_frame()
    >>> pattern = RadialGradient(radius=4)
    >>> crop_size = pattern.get_crop_size()
    >>> template = pattern.get_template(sig_shape=frames[0].shape)
    >>>
    >>> centers = np.zeros((len(frames), len(peaks), 2), dtype=np.uint16)
    >>> refineds = np.zeros((len(frames), len(peaks), 2), dtype=np.float32)
    >>> heights = np.zeros((len(frames), len(peaks)), dtype=np.float32)
    >>> elevations = np.zeros((len(frames), len(peaks)), dtype=np.float32)
    >>>
    >>> frame_buf = zeros(frames[0].shape, dtype=np.float32)
    >>> buf_count = get_buf_count(crop_size, len(peaks), frame_buf.dtype)
    >>>
    >>> for i, f in enumerate(frames):
    ...     process_frame_full(
    ...         template=template, crop_size=crop_size,
    ...         frame=f, peaks=peaks.astype(np.int32),
    ...         out_centers=centers[i], out_refineds=refineds[i],
    ...         out_heights=heights[i], out_elevations=elevations[i],
    ...         frame_buf=frame_buf, buf_count=buf_count
    ...     )
    >>> assert np.allclose(refineds[0], peaks, atol=0.1)
    '''
    if upsample is True:
        upsample = 20
    log_scale(frame, out=frame_buf)
    spec_part = fft.rfft2(frame_buf)
    corrspec = template * spec_part
    corr = fft.ifftshift(
        fft.irfft2(
            corrspec, s=frame_buf.shape[-2:],
        ),
        axes=(-2, -1),
    )
    corr = sparseconverter.for_backend(
        corr,
        sparseconverter.NUMPY,
    )
    corrspec = sparseconverter.for_backend(
        corrspec,
        sparseconverter.NUMPY,
    )
    crop_shape = (2 * crop_size, 2 * crop_size)
    crop_bufs = np.zeros((buf_count, *crop_shape), dtype=corr.dtype)
    block_count = (len(peaks) - 1) // buf_count + 1
    for block in range(block_count):
        start = block * buf_count
        stop = min(len(peaks), (block + 1) * buf_count)
        size = stop - start
        crop_function(
            peaks=peaks[start:stop], frame=corr, crop_size=crop_size,
            out_crop_bufs=crop_bufs[:size]
        )
        evaluate_correlations(
            corrs=crop_bufs[:size], peaks=peaks[start:stop], crop_size=crop_size,
            out_centers=out_centers[start:stop], out_refineds=out_refineds[start:stop],
            out_heights=out_heights[start:stop], out_elevations=out_elevations[start:stop]
        )
        if int(upsample) > 1:
            evaluate_upsampling(
                corrspecs=corrspec, corrs=crop_bufs[:size], peaks=peaks[start:stop],
                crop_size=crop_size, sig_shape=frame.shape, upsample_factor=int(upsample),
                out_centers=out_centers[start:stop], out_refineds=out_refineds[start:stop],
            )
