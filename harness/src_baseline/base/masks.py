from typing import Union, Callable
from collections.abc import Iterable

import numpy as np
import scipy.sparse as sp
import sparse

from libertem_blobfinder.base.utils import make_polar

MaskArrayType = Union[np.ndarray, sp.coo_matrix, sp.dok_matrix]
MaskFactoriesType = Union[Callable[[], MaskArrayType], Iterable[Callable[[], MaskArrayType]]]


def _make_circular_mask(centerX, centerY, imageSizeX, imageSizeY, radius, antialiased=False):
    """
    Make a circular mask in a bool array for masking a region in an image.

    Parameters
    ----------
    centerX, centerY : float
        Centre point of the mask.
    imageSizeX, imageSizeY : int
        Size of the image to be masked.
    radius : float
        Radius of the mask.

    Returns
    -------
    Boolean Numpy 2D Array
        Array with the shape (imageSizeX, imageSizeY) with the mask.

    Examples
    --------

    >>> image = np.ones((9, 9))
    >>> mask = _make_circular_mask(4, 4, 9, 9, 2)
    >>> image_masked = image*mask
    >>> import matplotlib.pyplot as plt
    >>> cax = plt.imshow(image_masked)
    """
    if antialiased:
        mask = radial_bins(
            centerX, centerY, imageSizeX, imageSizeY, radius, n_bins=1, use_sparse=False
        )[0]
    else:
        x, y = np.ogrid[-centerY:imageSizeY-centerY, -centerX:imageSizeX-centerX]
        mask = x*x + y*y <= radius*radius
    return mask


def sparse_template_multi_stack(mask_index, offsetX, offsetY, template, imageSizeX, imageSizeY):
    '''
    Stamp the template in a multi-mask 3D stack at the positions indicated by
    mask_index, offsetY, offsetX. The function clips the bounding box as necessary.
    '''
    num_templates = len(mask_index)
    fy, fx = template.shape
    area = fy * fx
    total_index_size = num_templates * area
    y, x = np.mgrid[0:fy, 0:fx]

    data = np.zeros(total_index_size, dtype=template.dtype)
    coord_mask = np.zeros(total_index_size, dtype=int)
    coord_y = np.zeros(total_index_size, dtype=int)
    coord_x = np.zeros(total_index_size, dtype=int)

    for i in range(len(mask_index)):
        start = i * area
        stop = (i + 1) * area
        data[start:stop] = template.flatten()
        coord_mask[start:stop] = mask_index[i]
        coord_y[start:stop] = y.flatten() + offsetY[i]
        coord_x[start:stop] = x.flatten() + offsetX[i]

    selector = (coord_y >= 0) * (coord_y < imageSizeY) * (coord_x >= 0) * (coord_x < imageSizeX)

    return sparse.COO(
        data=data[selector],
        coords=(coord_mask[selector], coord_y[selector], coord_x[selector]),
        shape=(int(max(mask_index) + 1), imageSizeY, imageSizeX)
    )


def sparse_circular_multi_stack(mask_index, centerX, centerY, imageSizeX, imageSizeY, radius):
    # we make sure it is odd
    bbox = int(2*np.ceil(radius) + 1)
    bbox_center = int((bbox - 1) // 2)
    template = circular(
        centerX=bbox_center,
        centerY=bbox_center,
        imageSizeX=bbox,
        imageSizeY=bbox,
        radius=radius)
    return sparse_template_multi_stack(
        mask_index=mask_index,
        offsetX=np.array(centerX, dtype=int) - bbox_center,
        offsetY=np.array(centerY, dtype=int) - bbox_center,
        template=template,
        imageSizeX=imageSizeX,
        imageSizeY=imageSizeY,
    )


def circular(centerX, centerY, imageSizeX, imageSizeY, radius, antialiased=False):
    """
    Make a circular mask as a 2D array

    Parameters
    ----------
    centreX, centreY : float
        Centre point of the mask.
    imageSizeX, imageSizeY : int
        Size of the image to be masked.
    radius : float
        Radius of the mask.

    Returns
    -------
    Numpy 2D Array
        Array with the shape (imageSizeX, imageSizeY) with the mask.
    """
    mask = _make_circular_mask(centerX, centerY, imageSizeX, imageSizeY, radius, antialiased)
    return mask


def ring(centerX, centerY, imageSizeX, imageSizeY, radius, radius_inner, antialiased=False):
    """
    Make a ring mask as a double array.

    Parameters
    ----------
    centreX, centreY : float
        Centre point of the mask.
    imageSizeX, imageSizeY : int
        Size of the image to be masked.
    radius : float
        Outer radius of the ring.
    radius_inner : float
        Inner radius of the ring.

    Returns
    -------
    Numpy 2D Array
        Array with the shape (imageSizeX, imageSizeY) with the mask.
    """
    if antialiased:
        mask = radial_bins(
            centerX, centerY, imageSizeX, imageSizeY,
            radius=radius, radius_inner=radius_inner, n_bins=1, use_sparse=False
        )[0]
    else:
        outer = _make_circular_mask(centerX, centerY, imageSizeX, imageSizeY, radius)
        inner = _make_circular_mask(centerX, centerY, imageSizeX, imageSizeY, radius_inner)
        mask = outer & ~inner
    return mask


def radial_gradient(centerX, centerY, imageSizeX, imageSizeY, radius, antialiased=False):
    '''
    Generate a linear radial gradient from 0 to 1 within radius
    '''
    x, y = np.ogrid[-centerY:imageSizeY-centerY, -centerX:imageSizeX-centerX]
    if antialiased:
        r = np.sqrt(x**2 + y**2)
        mask = radial_gradient_background_subtraction(
            r=r, r0=radius, r_outer=0
        )
    else:
        mask = (x*x + y*y <= radius*radius) * (np.sqrt(x*x + y*y) / radius)
    return mask


def radial_gradient_background_subtraction(r, r0, r_outer, delta=1):
    '''
    Generate a template with a linear radial gradient from 0 to 1 inside r0,
    linear transition region for antialiasing between [r0 - delta/2, r0 + delta/2[,
    and a negative ring with value -1 in [r0 + delta/2, r_outer].

    The function accepts the radius for each pixel as a parameter so that a distorted version can
    be generated with the stretchY and angle parameters of
    :meth:`~libertem_blobfinder.base.masks.polar_map`.

    Parameters
    ----------

    r : numpy.ndarray
        Map of radius for each pixel, typically 2D. This allows to work in distorted coordinate
        systems by assigning arbitrary radius values to each pixel.
        :meth:`~libertem_blobfinder.base.masks.polar_map` can generate elliptical
        maps as an example.
    r0 : float
        Inner radius to fill with a linear gradient in units of r
    r_outer : float
        Outer radius of ring from r0 to fill with -1 in units of r
    delta : float, optional
        Width of transition region between inner and outer in units of r
        with linear gradient for antialiasing or smoothening. Defaults to 1.

    Returns
    -------

    numpy.ndarray
        NumPy numpy.ndarray with the same shape and type of r with mask values assigned as
        described in the description.

    '''
    result = np.zeros_like(r)
    within = r < r0 - delta/2
    result[within] = r[within] / r0

    transition = (r >= r0 - delta/2) * (r < r0 + delta/2)
    result[transition] = (r0 - r[transition]) / (delta/2)

    without = (r >= r0 + delta/2) * (r <= r_outer)
    result[without] = -1

    return result


def polar_map(centerX, centerY, imageSizeX, imageSizeY, stretchY=1., angle=0.):
    '''
    Return a map of radius and angle.

    The optional parameters stretchY and angle allow to stretch and rotate the coordinate system
    into an elliptical form. This is useful to generate modified input data for functions that
    generate a template as a function of radius and angle.

    Parameters
    ----------

    centerX,centerY : float
        Center of the coordinate system in pixel coordinates
    imageSizeX,imageSizeY : int
        Size of the map to generate in px
    stretchY,angle : float, optional
        Stretch the radius elliptically by amount :code:`stretchY` in direction
        :code:`angle` in radians. :code:`angle = 0` means in Y direction.

    Returns
    -------

    Tuple[numpy.ndarray, numpy.ndarray]
        Map of radius and angle of shape :code:`(imageSizeY, imageSizeX)`
    '''
    y, x = np.mgrid[0:imageSizeY, 0:imageSizeX]
    dy = y - centerY
    dx = x - centerX
    if stretchY != 1.0 or angle != 0.:
        (dy, dx) = (
            (dy*np.cos(angle) - dx*np.sin(angle)) / stretchY,
            dx*np.cos(angle) + dy*np.sin(angle),
        )

    dy = dy.flatten()
    dx = dx.flatten()
    cartesians = np.stack((dy, dx)).T
    polars = make_polar(cartesians)
    return (
        polars[:, 0].reshape((imageSizeY, imageSizeX)),
        polars[:, 1].reshape((imageSizeY, imageSizeX))
    )


def balance(template):
    '''
    Accept a template with both positive and negative values and scale the negative
    part in such a way that the sum is zero.

    This is useful to generate masks that return zero when applied to a
    uniform background or linear gradient.
    '''
    result = template.copy()
    above = template > 0
    below = template < 0
    result[below] *= template[above].sum() / template[below].sum() * -1
    return result


def bounding_radius(centerX, centerY, imageSizeX, imageSizeY):
    '''
    Calculate a radius around centerX, centerY that covers the whole frame
    '''
    dy = max(centerY, imageSizeY - centerY)
    dx = max(centerX, imageSizeX - centerX)
    return int(np.ceil(np.sqrt(dy**2 + dx**2))) + 1


def radial_bins(centerX, centerY, imageSizeX, imageSizeY,
        radius=None, radius_inner=0, n_bins=None, normalize=False, use_sparse=None, dtype=None):
    '''
    Generate antialiased rings
    '''
    if radius is None:
        radius = bounding_radius(centerX, centerY, imageSizeX, imageSizeY)

    if n_bins is None:
        n_bins = int(np.round(radius - radius_inner))

    r, phi = polar_map(centerX, centerY, imageSizeX, imageSizeY)
    r = r.flatten()

    width = (radius - radius_inner) / n_bins
    bin_area = np.pi * (radius**2 - (radius - width)**2)

    if use_sparse is None:
        use_sparse = bin_area / (imageSizeX * imageSizeY) < 0.1

    if use_sparse:
        jjs = np.arange(len(r), dtype=np.int64)

    # Patch a singularity at the center: applied to the first bin
    # before normalization so that normalized bins still sum to 1
    patch_index = None
    if radius_inner < 0.5:
        yy = int(np.round(centerY))
        xx = int(np.round(centerX))
        inside = yy >= 0 and yy < imageSizeY and xx >= 0 and xx < imageSizeX
        # Only a pixel closer than 0.5 to the centre is affected by the singularity
        if inside and r[yy * imageSizeX + xx] < 0.5:
            patch_index = yy * imageSizeX + xx

    slices = []
    for i, r0 in enumerate(np.linspace(radius_inner, radius - width, n_bins) + width/2):
        diff = np.abs(r - r0)
        # The "0.5" ensures that the bins overlap and sum up to exactly 1
        vals = np.maximum(0, np.minimum(1, width/2 + 0.5 - diff))
        if i == 0 and patch_index is not None:
            vals[patch_index] = 1 - radius_inner
        if use_sparse:
            select = vals != 0
            vals = vals[select]
            if normalize:  # Make sure each bin has a sum of 1
                s = vals.sum()
                if not np.isclose(s, 0):
                    vals /= s
            slices.append(sparse.COO(shape=len(r), data=vals.astype(dtype), coords=(jjs[select],)))
        else:
            if normalize:  # Make sure each bin has a sum of 1
                s = vals.sum()
                if not np.isclose(s, 0):
                    vals /= s
            slices.append(vals.reshape((imageSizeY, imageSizeX)).astype(dtype))
    if use_sparse:
        return sparse.stack(slices).reshape((-1, imageSizeY, imageSizeX))
    else:
        return np.stack(slices)


def background_subtraction(centerX, centerY, imageSizeX, imageSizeY, radius, radius_inner,
        antialiased=False):
    mask_1 = circular(
        centerX, centerY, imageSizeX, imageSizeY, radius_inner, antialiased=antialiased
    )
    sum_1 = np.sum(mask_1)
    mask_2 = ring(
        centerX, centerY, imageSizeX, imageSizeY, radius, radius_inner, antialiased=antialiased
    )
    sum_2 = np.sum(mask_2)
    mask = mask_1 - mask_2*sum_1/sum_2
    return mask


def rectangular(X, Y, Width, Height, imageSizeX, imageSizeY):
    """
    Make a rectangular mask as a 2D array of bool.
    Parameters
    ----------
    X, Y : Corner coordinates
        Centre point of the mask.
    imageSizeX, imageSizeY : int
        Size of the image to be masked.
    Width, Height : Width and Height of the rectangle
    Returns
    -------
    Numpy 2D Array
        Array with the shape (imageSizeX, imageSizeY) with the mask.
    """
    bool_mask = np.zeros([imageSizeY, imageSizeX], dtype="bool")
    if Height*Width > 0:
        ymin = min(Y, Y+Height)
        xmin = min(X, X+Width)
        ymax = max(Y, Y+Height)
        xmax = max(X, X+Width)
    elif Height > 0 and Width < 0:
        ymin = Y
        xmin = X+Width
        ymax = Y+Height
        xmax = X
    elif Height < 0 and Width > 0:
        ymin = Y+Height
        xmin = X
        ymax = Y
        xmax = X+Width
    else:
        ymin = 0
        xmin = 0
        ymax = -1
        xmax = -1
    ymin = int(ymin)
    xmin = int(xmin)
    ymax = int(ymax)
    xmax = int(xmax)
    bool_mask[max(0, ymin):min(ymax+1, imageSizeY), max(0, xmin):min(xmax+1, imageSizeX)] = 1
    return bool_mask


# TODO: dtype parameter? consistency with ring/circular above
def gradient_x(imageSizeX, imageSizeY, dtype=np.float32):
    return np.tile(
        np.ogrid[slice(0, imageSizeX)].astype(dtype), imageSizeY
    ).reshape(imageSizeY, imageSizeX)


def gradient_y(imageSizeX, imageSizeY, dtype=np.float32):
    return gradient_x(imageSizeY, imageSizeX, dtype).transpose()
