import numpy as np


def make_cartesian(polar):
    '''
    Accept list of polar vectors, return list of cartesian vectors

    Parameters
    ----------
    polars : numpy.ndarray of tuples [(r1, phi1), (r2, phi2), ...]
        Polar vectors

    Returns
    -------
    numpy.ndarray of tuples [(y, x), (y, x), ...]
    '''
    xes = np.cos(polar[..., 1]) * polar[..., 0]
    yes = np.sin(polar[..., 1]) * polar[..., 0]
    return np.array((yes.T, xes.T)).T


def make_polar(cartesian):
    '''
    Accept list of cartesian vectors, return list of polar vectors

    Parameters
    ----------
    cartesian : numpy.ndarray of tuples [(y, x), (y, x), ...]
        Cartesian vectors

    Returns
    -------

    Polar vector as numpy.ndarray of tuples [(r1, phi1), (r2, phi2), ...]
    '''
    ds = np.linalg.norm(cartesian, axis=-1)
    # (y, x)
    alphas = np.arctan2(cartesian[..., 0], cartesian[..., 1])
    return np.array((ds.T, alphas.T)).T


def regularize_indices(indices):
    s = indices.shape
    # Output of mgrid
    if (len(s) == 3) and (s[0] == 2):
        result = np.concatenate(indices.T)
    # List of (i, j) pairs
    elif (len(s) == 2) and (s[1] == 2):
        result = indices
    else:
        raise ValueError(
            "Shape of indices is %s, expected (n, 2) or (2, n, m)" % str(indices.shape))
    return result


def frame_peaks(fy, fx, zero, a, b, r, indices):
    indices = regularize_indices(indices)
    peaks = calc_coords(zero, a, b, indices)
    selector = within_frame(peaks, r, fy, fx)
    return indices[selector], peaks[selector]


def calc_coords(zero, a, b, indices):
    '''
    Calculate coordinates from lattice vectors a, b and indices
    '''
    coefficients = np.array((a, b))
    return zero + np.dot(indices, coefficients)


def within_frame(peaks, r, fy, fx):
    '''
    Return a boolean vector indicating peaks that are within (r, r) and (fy - r, fx - r)
    '''
    selector = (peaks >= (r, r)) * (peaks < (fy - r, fx - r))
    return selector.all(axis=-1)


def cbed_frame(
        fy=128, fx=128, zero=None, a=None, b=None, indices=None,
        radius=4, all_equal=False, margin=None):
    from libertem_blobfinder.base.masks import circular  # otherwise circular import

    if zero is None:
        zero = (fy//2, fx//2)
    zero = np.array(zero)
    if a is None:
        a = (fy//8, 0)
    a = np.array(a)
    if b is None:
        b = make_cartesian(make_polar(a) - (0, np.pi/2))
    b = np.array(b)
    if indices is None:
        indices = np.mgrid[-10:11, -10:11]
    if margin is None:
        margin = radius
    indices, peaks = frame_peaks(fy=fy, fx=fx, zero=zero, a=a, b=b, r=margin, indices=indices)

    data = np.zeros((1, fy, fx), dtype=np.float32)

    dists = np.linalg.norm(peaks - zero, axis=-1)
    max_val = max(dists.max() + 1, len(peaks) + 1)

    for i, p in enumerate(peaks):
        data += circular(
            centerX=p[1],
            centerY=p[0],
            imageSizeX=fx,
            imageSizeY=fy,
            radius=radius,
            antialiased=True,
        ) * (1 if all_equal else max(1, max_val - dists[i] + i))

    return (data, indices, peaks)
