from typing import Union

import numpy as np
from skimage.feature import peak_local_max

from libertem_blobfinder.common.patterns import MatchPattern
from libertem_blobfinder.base import correlation


def get_correlation(sum_result, match_pattern: MatchPattern):
    '''
    Calculate the correlation between :code:`sum_result` and :code:`match_pattern`.

    .. versionadded:: 0.4.0.dev0

    Parameters
    ----------

    sum_result: numpy.ndarray
        2D result frame as correlation input
    match_pattern : MatchPattern
        Instance of :class:`~libertem_blobfinder.MatchPattern` to correlate
        :code:`sum_result` with
    '''
    spec_mask = match_pattern.get_template(sig_shape=sum_result.shape)
    spec_sum = correlation.fft.rfft2(sum_result)
    corrspec = spec_mask * spec_sum
    return correlation.fft.ifftshift(
        correlation.fft.irfft2(corrspec, s=sum_result.shape)
    )


def get_peaks(sum_result, match_pattern: MatchPattern, num_peaks):
    '''
    Find peaks of the correlation between :code:`sum_result` and :code:`match_pattern`.

    The result  can then be used as input to
    :meth:`~libertem_blobfinder.common.fullmatch.FullMatcher.full_match`
    to extract grid parameters, :meth:`~libertem_blobfinder.correlation.run_fastcorrelation`
    to find the position in each frame or to construct a mask to extract feature vectors with
    :meth:`~libertem_blobfinder.common.patterns.feature_vector`.

    Parameters
    ----------

    sum_result: numpy.ndarray
        2D result frame as correlation input
    match_pattern : MatchPattern
        Instance of :class:`~libertem_blobfinder.MatchPattern` to correlate
        :code:`sum_result` with
    num_peaks : int
        Number of peaks to find

    Example
    -------
    >>> from libertem_blobfinder.base.utils import cbed_frame
    >>>
    >>> frame, _, _ = cbed_frame(radius=4)
    >>> pattern = libertem_blobfinder.common.patterns.RadialGradient(radius=4)
    >>> peaks = get_peaks(frame[0], pattern, 7)
    >>> print(peaks)
    [[64 64]
     [64 80]
     [80 80]
     [80 64]
     [48 80]
     [48 64]
     [64 96]]
    '''
    corr = get_correlation(sum_result, match_pattern)
    peaks = peak_local_max(corr, num_peaks=num_peaks)
    return peaks


def process_frames_fast(
    pattern: MatchPattern, frames, peaks,
    upsample: Union[bool, int] = False
):
    '''
    Find the parameters of peaks in a diffraction pattern by correlation with a match pattern.

    This method crops regions of interest around the peaks from the frames before correlation,
    which is usually fastest for a moderate amount of moderately sized peaks per frame.

    .. note::
        :class:`~libertem_blobfinder.udf.correlation.FastCorrelationUDF` is a
        parallelized, distributed version for large-scale data.

    Parameters
    ----------
    pattern : MatchPattern
        Pattern to correlate with.
    frames : np.ndarray
        Frame data. Currently, only Real values are supported.
    peaks : np.ndarray
        List of peaks of shape (n_peaks, 2)
    upsample: Union[bool, int], optional
        Use DFT upsampling for the refinement step, by default False. Supplying
        True will choose a reasonable default upsampling factor, while any
        positive integer > 1 will upsample the correlation peak by this factor.
        DFT upsampling can provide more accurate center values, especially when
        peak shifts are small, but does require more computation time.

    Returns
    -------
    centers : np.ndarray
        Center positions of shape (n_peaks, 2) and integer dtype.
    refineds : np.ndarray
        Refined center positions of shape (n_peaks, 2) and float dtype.
    heights : np.ndarray
        Peak height in log scaled frame. Shape (n_peaks, ) and float dtype.
    elevations : np.ndarray
        Peak elevation in log scaled frame. Shape (n_peaks, ) and float dtype

    Example
    -------
    >>> from libertem_blobfinder.base.utils import cbed_frame
    >>>
    >>> frames, indices, peaks = cbed_frame()
    >>> pattern = libertem_blobfinder.common.patterns.RadialGradient(radius=4)
    >>> (centers, refineds, heights, elevations) = process_frames_fast(
    ...     pattern=pattern,
    ...     frames=frames,
    ...     peaks=peaks.astype(np.int32),
    ... )
    >>> assert np.allclose(refineds[0], peaks, atol=0.1)
    '''

    crop_size = pattern.get_crop_size()
    template = pattern.get_template(sig_shape=(2 * crop_size, 2 * crop_size))

    centers = np.zeros((len(frames), len(peaks), 2), dtype=np.int16)
    refineds = np.zeros((len(frames), len(peaks), 2), dtype=np.float32)
    heights = np.zeros((len(frames), len(peaks)), dtype=np.float32)
    elevations = np.zeros((len(frames), len(peaks)), dtype=np.float32)

    crop_bufs = correlation.allocate_crop_bufs(
        crop_size, len(peaks), np.result_type(frames.dtype, np.float32)
    )

    for i, f in enumerate(frames):
        correlation.process_frame_fast(
            template=template, crop_size=crop_size,
            frame=f, peaks=peaks.astype(np.int32),
            out_centers=centers[i], out_refineds=refineds[i],
            out_heights=heights[i], out_elevations=elevations[i],
            crop_bufs=crop_bufs, upsample=upsample,
        )
    return (centers, refineds, heights, elevations)


def process_frames_full(
    pattern: MatchPattern, frames, peaks,
    upsample: Union[bool, int] = False
):
    '''
    Find the parameters of peaks in a diffraction pattern by correlation with a match pattern.

    This method crops regions of interest around the peaks after correlation,
    which can be faster for many peaks on smaller frames.

    .. note::
        :class:`~libertem_blobfinder.udf.correlation.FullFrameCorrelationUDF` is a
        parallelized, distributed version for large-scale data.


    Parameters
    ----------
    pattern : MatchPattern
        Pattern to correlate with.
    frame : np.ndarray
        Frame data. Currently, only real values are supported.
    peaks : np.ndarray
        List of peaks of shape (n_peaks, 2)
    upsample: Union[bool, int], optional
        Use DFT upsampling for the refinement step, by default False. Supplying
        True will choose a reasonable default upsampling factor, while any
        positive integer > 1 will upsample the correlation peak by this factor.
        DFT upsampling can provide more accurate center values, especially when
        peak shifts are small, but does require more computation time.

    Returns
    -------
    centers : np.ndarray
        Center positions of shape (n_peaks, 2) and integer dtype.
    refineds : np.ndarray
        Refined center positions of shape (n_peaks, 2) and float dtype.
    heights : np.ndarray
        Peak height in log scaled frame. Shape (n_peaks, ) and float dtype.
    elevations : np.ndarray
        Peak elevation in log scaled frame. Shape (n_peaks, ) and float dtype

    Example
    -------

    >>> from libertem_blobfinder.base.utils import cbed_frame
    >>>
    >>> frames, indices, peaks = cbed_frame(radius=4)
    >>> pattern = libertem_blobfinder.common.patterns.RadialGradient(radius=4)
    >>> (centers, refineds, heights, elevations) = process_frames_full(
    ...     pattern=pattern,
    ...     frames=frames,
    ...     peaks=peaks.astype(np.int32)
    ... )
    >>> assert np.allclose(refineds[0], peaks, atol=0.1)
    '''
    crop_size = pattern.get_crop_size()
    template = pattern.get_template(sig_shape=frames[0].shape)

    centers = np.zeros((len(frames), len(peaks), 2), dtype=np.int16)
    refineds = np.zeros((len(frames), len(peaks), 2), dtype=np.float32)
    heights = np.zeros((len(frames), len(peaks)), dtype=np.float32)
    elevations = np.zeros((len(frames), len(peaks)), dtype=np.float32)

    frame_buf = correlation.zeros(frames[0].shape, dtype=np.float32)

    buf_count = correlation.get_buf_count(crop_size, len(peaks), frame_buf.dtype)

    for i, f in enumerate(frames):
        correlation.process_frame_full(
            template=template, crop_size=crop_size,
            frame=f, peaks=peaks.astype(np.int32),
            out_centers=centers[i], out_refineds=refineds[i],
            out_heights=heights[i], out_elevations=elevations[i],
            frame_buf=frame_buf, buf_count=buf_count, upsample=upsample,
        )
    return (centers, refineds, heights, elevations)
