'''
Fullmatch
~~~~~~~~~

Code to extract parallelogram grids from point clouds. This
can guess lattices from a set of diffraction spots using clustering.
'''

import logging

import numpy as np
try:
    import hdbscan
except ModuleNotFoundError:
    raise ModuleNotFoundError(
        "The fullmatch module requires the hdbscan extra, "
        "please install -blobfinder with [hdbscan]."
    ) from None


import libertem_blobfinder.common.gridmatching as grm
from libertem_blobfinder.base.utils import make_polar, make_cartesian


log = logging.getLogger(__name__)


class NotFoundException(Exception):
    pass


class FullMatcher(grm.Matcher):
    '''
    Extension of :class:`~libertem_blobfinder.common.gridmatching.Matcher` will full matching

    Include the ability to guess grid parameters from a point cloud. This is separated
    from the other code since it currently only works with :class:`~hdbscan.HDBSCAN`,
    which can be problematic
    to install on some platforms. For that reason it is an optional dependency.

    Parameters
    ----------

    tolerance : float
        Position tolerance in px for peaks to be considered matches
    min_weight : float
        Minimum peak elevation of a peak to be considered for matching
    min_match : int
        Minimum number of matching peaks to be considered a match.
    min_angle : float
        Minimum angle in radians between two vectors to be considered candidates
    min_points : int
        Minimum points to try clustering matching. Otherwise match directly
    min_delta : float
        Minimum length of a potential grid vector
    max_delta : float
        Maximum length of a potential grid vector
    min_candidates : int
        Minimum number of candidates to consider clustering matching successful.
        If not enough are found, the algorithm uses a brute-force search with all
        pairwise vectors between points
    max_candidates : int
        Maximum number of candidates to return from clustering matching
    clusterer
        Instance of sklearn.cluster compatible clusterer. Default is :class:`~hdbscan.HDBSCAN`.
    min_cluster_size_fraction : float
        Tuning parameter for clustering matching with :class:`~hdbscan.HDBSCAN`.
        Larger values allow
        smaller or fuzzier clusters. This is used to adapt the :code:`min_cluster_size`
        parameter of :class:`~hdbscan.HDBSCAN` dynamically to the number of points to be
        matched.
        Set this to :code:`None` to disable dynamic adjustment of :code:`min_cluster_size`.
        If you like to set :code:`min_cluster_size` to a constant value, you can
        set this to :code:`None` and additionally set the :code:`clusterer` parameter with
        your own clusterer object to have direct control over all parameters.
    min_samples_fraction : float
        Tuning parameter for clustering matching with :class:`~hdbscan.HDBSCAN`.
        Larger values allow
        smaller or fuzzier clusters. This is used to adapt the :code:`min_samples`
        parameter of :class:`~hdbscan.HDBSCAN` dynamically to the number of points to be
        matched.
        Set this to :code:`None` to disable dynamic adjustment of :code:`min_samples`.
        If you like to set :code:`min_samples` to a constant value, you can
        set this to :code:`None` and additionally set the :code:`clusterer` parameter with
        your own clusterer object to have direct control over all parameters.
    '''
    def __init__(
            self, tolerance=3, min_weight=0.1, min_match=3, min_angle=np.pi/10,
            min_points=10, min_delta=0, max_delta=np.inf, min_candidates=3,
            max_candidates=7, clusterer=None, min_cluster_size_fraction=4,
            min_samples_fraction=20):

        super().__init__(tolerance=tolerance, min_weight=min_weight, min_match=min_match)
        if clusterer is None:
            clusterer = hdbscan.HDBSCAN()
        self.min_angle = min_angle
        self.min_points = min_points
        self.min_delta = min_delta
        self.max_delta = max_delta
        self.min_candidates = min_candidates
        self.max_candidates = max_candidates
        self.clusterer = clusterer
        self.min_cluster_size_fraction = min_cluster_size_fraction
        self.min_samples_fraction = min_samples_fraction

    def full_match(
            self, centers, zero=None, cand=None,
            refineds=None, peak_values=None, peak_elevations=None):
        '''
        This function extracts a list of Match objects as well two PointSelection objects
        for unmatched and weak points from correlation_result and zero point.
        The zero point is included in each of the matches because it is shared between all grids.

        Parameters
        ----------
        centers : numpy.ndarray
            numpy.ndarray of shape (n, 2) with integer centers (y, x) of peaks. This would typically
            be extracted with :meth:`libertem_blobfinder.common.correlation.get_peaks`
        zero : numpy.ndarray
            Zero point as numpy array (y, x).
        cand : list or numpy.ndarray
            Optional list of candidate vectors (y, x) to use in a first matching round before
            guessing.
        refineds : numpy.ndarray
            numpy.ndarray of shape (n, 2) with float centers (y, x) of peaks (subpixel refinement)
        peak_values : numpy.ndarray
            numpy.ndarray of shape (n,) with float maxima of correlation map of peaks
        peak_elevations : numpy.ndarray
            numpy.ndarray of shape (n,) with float elevation of correlation map of peaks.
            See :meth:`libertem_blobfinder.base.correlation.peak_elevation` for details.

        Returns
        -------
        Tuple[List[libertem_blobfinder.common.gridmatching.Match, ...],\
        libertem_blobfinder.common.gridmatching.PointSelection,\
        libertem_blobfinder.common.gridmatching.PointSelection]
            matches: list of :class:`~libertem_blobfinder.common.gridmatching.Match` instances,

            unmatched: instance of :class:`~libertem_blobfinder.common.gridmatching.PointSelection`,

            weak: instance of :class:`~libertem_blobfinder.common.gridmatching.PointSelection`

        Example
        -------

        >>> peaks = np.array([
        ...     # First peak is zero if not specified otherwise
        ...     # Base lattice vectors (32, 0) and (0, 32)
        ...     (64, 64),
        ...     (32, 32), (32, 64), (32, 96),
        ...     (64, 32), (64, 96),
        ...     (96, 32), (96, 64), (96, 96),
        ... ])
        >>> matcher = FullMatcher()
        >>> (matches, unmatched, weak) = matcher.full_match(peaks)
        >>> m = matches[0]
        >>> assert np.allclose(m.zero, (64, 64))
        >>> assert np.allclose(m.a, (32, 0))
        >>> assert np.allclose(m.b, (0, 32))
        '''
        class ExitException(Exception):
            pass

        if zero is None:
            zero = centers[0]

        corr = grm.CorrelationResult(
            centers=centers,
            refineds=refineds,
            peak_values=peak_values,
            peak_elevations=peak_elevations,
        )

        matches = []

        filt = corr.peak_elevations >= self.min_weight

        working_set = grm.PointSelection(corr, selector=filt)

        zero_selector = np.array([
            np.allclose(corr.centers[i], zero)
            + np.allclose(corr.refineds[i], zero)
            for i in range(len(corr))
        ], dtype=bool)

        def listed(working_set, polar_cand):
            return polar_cand

        def guess(working_set, polar_cand):
            return self._candidates(working_set.refineds)

        if cand is not None:
            polar_cand = size_filter(
                make_polar(np.array(cand)),
                min_delta=self.min_delta,
                max_delta=self.max_delta
            )
            candidate_methods = [listed, guess]
        else:
            polar_cand = None
            candidate_methods = [guess]

        while True:
            new_selector = np.copy(working_set.selector)
            # First, find good candidate
            # Expensive operation, should be done on smaller sample
            # or sum frame result, at least for first passes to match majority
            # of peaks
            polar_candidate_vectors = candidate_methods[0](working_set, polar_cand)

            match = self._find_best_vector_match(
                point_selection=working_set, zero=zero,
                candidates=polar_candidate_vectors)
            if match is None:
                candidate_methods = candidate_methods[1:]
                if len(candidate_methods) == 0:
                    break
                else:
                    continue
            matches.append(match)
            # remove the ones that have been matched
            new_selector[match.selector] = False
            if np.count_nonzero(new_selector) >= self.min_match:
                # Add zero point that is shared by all patterns
                new_selector[zero_selector] = True
                working_set = working_set.derive(selector=new_selector)
            else:
                break
        if matches:
            new_selector[zero_selector] = False
        unmatched = working_set.derive(selector=new_selector)
        weak = grm.PointSelection(corr, selector=np.logical_not(filt))
        return (matches, unmatched, weak)

    def make_polar_vectors(self, coords):
        '''
        Calculate all unique pairwise connecting polar vectors between points in coords.

        The pairwise connecting vectors are converted to polar coordinates and
        filtered with parameters :py:attr:`~min_delta` and :py:attr:`~max_delta`
        to avoid calculating for unwanted higher order or random smaller vectors.

        All calculated vectors have a positive or zero x direction.
        '''
        # sort by x coordinate so that we have always positive x difference vectors
        sort_indices = np.argsort(coords[:, 1])
        coords = coords[sort_indices]
        i, j = np.mgrid[0: len(coords), 0: len(coords)]
        selector = j > i
        deltas = coords[j[selector]] - coords[i[selector]]
        polar = make_polar(deltas)
        return size_filter(polar, self.min_delta, self.max_delta)

    def check(self, match):
        if len(match) < self.min_match:
            return False
        papb = make_polar(np.array([match.a, match.b]))
        if len(size_filter(papb, self.min_delta, self.max_delta)) != 2:
            return False
        return angle_check(papb[0:1], papb[1:2], self.min_angle)

    def _tumble(self, point_selection, match):
        if not self.check(match):
            return None
        match = match.weighted_optimize()
        if not self.check(match):
            return None
        match = self._match_all(
            point_selection=point_selection, zero=match.zero, a=match.a, b=match.b)
        if not self.check(match):
            return None
        match = match.weighted_optimize()
        if not self.check(match):
            return None
        else:
            return match

    def _do_match(self, point_selection: grm.PointSelection, zero, polar_vectors):
        '''
        Return a list with matches of all pairwise combinations of polar_vectors
        '''
        match_list = []
        # we test all pairs of candidate vectors
        # and populate match_matrix
        for i in range(len(polar_vectors)):
            for j in range(i + 1, len(polar_vectors)):
                a = polar_vectors[i]
                b = polar_vectors[j]
                # too parallel, not good lattice vectors
                if not angle_check(np.array([a]), np.array([b]), self.min_angle):
                    continue

                if a[0] > b[0]:
                    bb = a
                    aa = b
                else:
                    aa = a
                    bb = b
                aa, bb = make_cartesian(np.array([aa, bb]))
                try:
                    match = self._match_all(
                        point_selection=point_selection, zero=zero, a=aa, b=bb)
                    match = self._tumble(point_selection, match)
                except np.linalg.LinAlgError:
                    continue
                if match is not None:
                    match_list.append(match)
        return match_list

    def _find_best_vector_match(self, point_selection: grm.PointSelection, zero, candidates):
        '''
        Return the match that matches with the best figure of merit

        Good properties for vectors are
        * Matching many points in the result
        * Orthogonal
        * Equal length
        * Short

        The function implements a heuristic to calculate a figure of merit that boosts
        candidates for each of the criteria that they fulfill or nearly fulfill.

        FIXME improve this on more real-world examples; define test cases.

        FIXME The figure of merit function (fom) could be a parameter, implement if need arises.
        '''
        def fom(m):
            na = np.linalg.norm(m.a)
            nb = np.linalg.norm(m.b)
            # Matching many high-quality points is good
            res = np.sum(m.peak_elevations)**2

            # favor orthogonality
            # 2D cross product; np.cross no longer accepts 2D vectors
            res *= (np.abs(m.a[0] * m.b[1] - m.a[1] * m.b[0]) / (na * nb))

            # favor equal length
            res *= ((na * nb) / (na**2 + nb**2))

            return res

        match_list = self._do_match(point_selection, zero, candidates)
        if match_list:
            return max(match_list, key=fom)
        else:
            return None

    def _make_hdbscan_config(self, points):
        # This is handled here because the defaults depend on the number of points
        defaults = {}
        if self.min_cluster_size_fraction is not None:
            defaults['min_cluster_size'] = max(len(points) // self.min_cluster_size_fraction, 2)
        if self.min_samples_fraction is not None:
            defaults['min_samples'] = max(len(points) // self.min_samples_fraction, 1)
        return defaults

    def _hdbscan_candidates(self, points):
        '''
        Use hdbscan clustering to find potential candidates for lattice vectors.

        We rely on the clusterer and its settings to give us tight and well-populated clusters.
        Then we calculate a weighted mean for each cluster.
        In the end we return the shortest matches.
        '''
        # We have special tuning parameters for the default :class:`~hdbscan.HDBSCAN`
        if isinstance(self.clusterer, hdbscan.HDBSCAN):
            defaults = self._make_hdbscan_config(points)
            for key, value in defaults.items():
                setattr(self.clusterer, key, value)
        vectors = self.make_polar_vectors(points)
        if len(vectors) == 0:
            # No pairwise vector within the length limits: nothing to cluster.
            # Clusterers reject empty input.
            return np.zeros((0, 2))
        self.clusterer.fit(vectors)
        labels = self.clusterer.labels_
        cand = []
        for cluster in range(max(labels) + 1):
            selector = labels == cluster
            v = vectors[selector]
            weights = self.clusterer.probabilities_[selector]
            std = v.std(axis=0)
            mean = np.average(v, axis=0, weights=weights)
            fom = np.linalg.norm(std)
            if fom > self.tolerance:
                # print("too fuzzy")
                continue
            cand.append(mean)
        # return the shortest candidate vectors
        return np.array(sorted(cand, key=lambda d: d[0])[:self.max_candidates])

    def _candidates(self, points):
        polar_vectors = []
        # Enough "flesh" to cluster
        if len(points) > self.min_points:
            # Get some candidates
            polar_vectors = self._hdbscan_candidates(points)
        # Not enough candidates found, use all pairwise vectors as candidates
        # Tighter vector limits mean less candidates from clustering
        # Adjust as needed because the full match is slow for too many points
        if len(polar_vectors) < self.min_candidates:
            if len(points) > self.min_points:
                log.warn(
                    "Matching many points directly, might be computationally intensive: %s" %
                    len(points)
                )
            polar_vectors = self.make_polar_vectors(points)
        return polar_vectors


def size_filter(polar, min_delta, max_delta):
    '''
    Accept a list of polar vectors
    Return a list of polar vectors with length between min_delta and max_delta
    '''
    select = (polar[:, 0] >= min_delta) * (polar[:, 0] <= max_delta)
    return polar[select]


def angle_check(p1, p2, limit):
    '''
    Check if p1 and p2 have an angle difference of at least limit,
    both parallel or antiparallel
    '''
    diff = np.absolute(p1[:, 1] - p2[:, 1]) % np.pi
    return (diff > limit) * (diff < (np.pi - limit))
