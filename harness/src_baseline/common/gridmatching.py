'''
Gridmatching
~~~~~~~~~~~~

Code to match parallelogram grids to point clouds. This
can connect diffraction spots to a lattice.
'''
import numpy as np
from libertem_blobfinder.base.utils import calc_coords, within_frame


class CorrelationResult:
    """
    Container class for the result of correlation-based refinement of peak
    positions within a frame.
    """
    def __init__(self, centers, refineds=None, peak_values=None, peak_elevations=None):
        if refineds is None:
            refineds = centers
        if peak_values is None:
            peak_values = np.ones(len(centers))
        if peak_elevations is None:
            peak_elevations = np.ones(len(centers))
        assert all(len(centers) == len(other) for other in [refineds, peak_values, peak_elevations])
        self.centers = centers
        self.refineds = refineds
        self.peak_values = peak_values
        self.peak_elevations = peak_elevations

    def __len__(self):
        return len(self.centers)


class PointSelection:
    '''
    Class that represents a subset of a correlation result.

    Attributes
    ----------
    selector : numpy.ndarray
        Boolean mask for all points in the correlation result, :code:`True` indicating
        selected points.
    '''
    def __init__(self, correlation_result: CorrelationResult, selector=None):
        self.correlation_result = correlation_result
        if selector is None:
            self.selector = np.ones(len(correlation_result.centers), dtype=bool)
        else:
            assert len(correlation_result.centers) == len(selector)
            self.selector = selector

    @property
    def centers(self):
        '''
        numpy.ndarray : Integer centers (y, x) of correlation result masked with :attr:`selector`
        '''
        return self.correlation_result.centers[self.selector]

    @property
    def refineds(self):
        '''
        numpy.ndarray : Refined float centers (y, x) of correlation result masked
                        with :attr:`selector`
        '''
        return self.correlation_result.refineds[self.selector]

    @property
    def peak_values(self):
        '''
        numpy.ndarray : Peak heights of correlation result masked with :attr:`selector`
        '''
        return self.correlation_result.peak_values[self.selector]

    @property
    def peak_elevations(self):
        '''
        numpy.ndarray : Peak elevations of correlation result masked with :attr:`selector`
        '''
        return self.correlation_result.peak_elevations[self.selector]

    def __len__(self):
        return np.sum(self.selector)

    def new_selector(self, selector):
        new_selector = np.copy(self.selector)
        new_selector[self.selector] = selector
        return new_selector

    def derive(self, selector=None):
        if selector is None:
            selector = self.selector
        return PointSelection(self.correlation_result, selector)


class Matcher:
    '''
    The main job of the Matcher object is managing the matching parameters
    and making them available for the various matching routines.

    Parameters
    ----------

    tolerance : float
        Position tolerance in px for peaks to be considered matches
    min_weight : float
        Minimum peak elevation of a peak to be considered for matching
    min_match : int
        Minimum number of matching peaks to be considered a match.
    '''
    def __init__(self, tolerance=3, min_weight=0.1, min_match=3):
        self.tolerance = tolerance
        self.min_match = min_match
        self.min_weight = min_weight

    def fastmatch(self, centers, zero, a, b, refineds=None, peak_values=None, peak_elevations=None):
        '''
        This function creates a Match object from correlation_result and approximates
        for zero point and lattice vectors a and b.
        This function is much, much faster than the full match.
        It works well to match a large number of point sets
        that share the same lattice vectors, for example from a
        larger grain or monocrystalline material. It rejects
        random points or other lattices in the CorrelationResult,
        provided they are not on near-integer positions of zero, a, b.

        Parameters
        ----------

        centers : numpy.ndarray
            numpy.ndarray of shape (n, 2) with integer centers (y, x) of peaks
        refineds : numpy.ndarray
            numpy.ndarray of shape (n, 2) with float centers (y, x) of peaks (subpixel refinement)
        peak_values : numpy.ndarray
            numpy.ndarray of shape (n,) with float maxima of correlation map of peaks
        peak_elevations : numpy.ndarray
            numpy.ndarray of shape (n,) with float elevation of correlation map of peaks.
            See :meth:`libertem_blobfinder.base.correlation.peak_elevation` for details.
        zero : numpy.ndarray
            The near approximate zero point as numpy array (y, x).
        a,b : numpy.ndarray
            The near approximate vectors a, b to match the grid as numpy arrays (y, x).

        Returns
        -------

        Match
            :class:`~libertem_blobfinder.common.gridmatching.Match` object with the optimized
            matching result.
        '''
        corr = CorrelationResult(centers, refineds, peak_values, peak_elevations)
        filt = corr.peak_elevations >= self.min_weight

        selection = PointSelection(correlation_result=corr, selector=filt)
        # We match twice because we might catch more peaks in the second run with better parameters
        try:
            match1 = self._match_all(
                point_selection=selection, zero=zero, a=a, b=b
            )
            if len(match1) >= self.min_match:
                match1 = match1.weighted_optimize()
            else:
                raise np.linalg.LinAlgError("Not enough matched points")
            match2 = self._match_all(
                point_selection=selection, zero=match1.zero, a=match1.a, b=match1.b)
            return match2.weighted_optimize()
        except np.linalg.LinAlgError:
            return Match.invalid(corr)

    def affinematch(self, centers, indices, refineds=None, peak_values=None, peak_elevations=None):
        '''
        This function creates a Match object from correlation_result and
        indices for all points. The indices can be non-integer and relative to any
        base vectors zero, a, b, including virtual ones like zero=(0, 0), a=(1, 0), b=(0, 1).

        Refined values for zero, a and b that match the correlated peaks are then derived.

        This match method is very fast, can be robust against a distorted field of view and
        works without determining a lattice. It matches the full CorrelationResult and does
        not reject random points or other outliers.

        It is mathematically equivalent to calculating
        an affine transformation, as inspired by Giulio Guzzinati
        https://arxiv.org/abs/1902.06979

        Parameters
        ----------
        centers : numpy.ndarray
            numpy.ndarray of shape (n, 2) with integer centers (y, x) of peaks
        refineds : numpy.ndarray
            numpy.ndarray of shape (n, 2) with float centers (y, x) of peaks (subpixel refinement)
        peak_values : numpy.ndarray
            numpy.ndarray of shape (n,) with float maxima of correlation map of peaks
        peak_values : numpy.ndarray
            numpy.ndarray of shape (n,) with float elevation of correlation map of peaks.
            See :meth:`libertem_blobfinder.base.correlation.peak_elevation` for details.
        indices : numpy.ndarray
            The indices assigned to each point of the CorrelationResult.

        Returns
        -------
        Match
            :class:`~libertem_blobfinder.common.gridmatching.Match`
        '''
        corr = CorrelationResult(centers, refineds, peak_values, peak_elevations)
        match = Match(corr, selector=None, zero=None, a=None, b=None, indices=indices)
        try:
            return match.weighted_optimize()
        except np.linalg.LinAlgError:
            return Match.invalid(corr)

    def _match_all(self, point_selection: PointSelection, zero, a, b):
        '''
        Find points that can be generated from the lattice vectors with near integer indices

        Returns
        -------

        :class:`~libertem_blobfinder.common.gridmatching.Match`

        '''
        indices = get_indices(point_selection.refineds, zero, a, b)
        rounded = np.around(indices)
        index_diffs = np.absolute(indices - rounded)
        # We scale the difference from index dimension to the pixel dimension
        diffs = index_diffs * (np.linalg.norm(a), np.linalg.norm(b))
        # We scale far-out differences with the square root of the indices
        # to be more tolerant to small errors of a and b that result in large deviations
        # in absolute position at high indices
        scaled_diffs = diffs / (np.maximum(1, np.abs(indices))**0.5)
        errors = np.linalg.norm(scaled_diffs, axis=1)
        matched_selector = errors < self.tolerance
        matched_indices = rounded[matched_selector].astype(int)
        # remove the ones that weren't matched
        new_selector = point_selection.new_selector(matched_selector)
        result = Match.from_point_selection(
            point_selection, selector=new_selector, zero=zero, a=a, b=b, indices=matched_indices
        )
        return result


class Match(PointSelection):
    '''
    Class that represents a lattice match to a subset of a correlation result

    The attributes are not guaranteed to be correct or sensible for the given lattice.
    The methods :meth:`weighted_optimize` and :meth:`optimize`
    calculate a derived :class:`Match` with a best fit of :attr:`zero`,
    :attr:`a` and :attr:`b` based on the points and the indices.

    Attributes
    ----------

    zero : numpy.ndarray
        Declared zero point (y, x) of the lattice
    a : numpy.ndarray
        Declared "a" vector (y, x) of the lattice
    b : numpy.ndarray
        Declared "b" vector (y, x) of the lattice
    indices : numpy.ndarray
        List of indices (i, j) that are declared to express the matched points as linear combination
        of vectors :code:`a` and :code:`b` with reference to :code:`zero`. The indices
        can be integers or floats, and they can be precise or approximate, depending on the
        matching method.
    '''
    def __init__(self, correlation_result: CorrelationResult,
            selector, zero, a, b, indices):
        self.zero = zero
        self.a = a
        self.b = b
        self.indices = indices
        super().__init__(correlation_result, selector)
        assert len(indices) == len(self)

    def __str__(self):
        result = "zero: %s\n"\
            "a: %s\n"\
            "b: %s"
        return result % (str(self.zero), str(self.a), str(self.b))

    @classmethod
    def from_point_selection(cls, point_selection: PointSelection,
            zero, a, b, indices, selector=None):
        if selector is None:
            selector = point_selection.selector
        return Match(
            correlation_result=point_selection.correlation_result,
            selector=selector, zero=zero, a=a, b=b, indices=indices)

    @classmethod
    def invalid(cls, correlation_result):
        '''
        Match
            A :class:`Match` instance with empty selector and all-'nan' attributes
        '''
        nanvec = np.array([np.nan, np.nan])
        return cls(
            correlation_result=correlation_result,
            selector=np.zeros(len(correlation_result), dtype=bool),
            zero=nanvec,
            a=nanvec,
            b=nanvec,
            indices=np.array([]),
        )

    def isnan(self):
        return np.any(np.isnan(np.array([self.zero, self.a, self.b])))

    @property
    def calculated_refineds(self):
        '''
        numpy.ndarray : Calculated peak positions based on lattice parameters and indices.
        '''
        return calc_coords(self.zero, self.a, self.b, self.indices)

    def calc_coords(self, indices=None, drop_zero=False, frame_shape=None, r=0):
        '''
        Shorthand to calculate peak coordinates.

        Parameters
        ----------

        indices : numpy.ndarray
            Indices to calculate coordinates for. Both an array of (y, x) pairs
            and the output of np.mgrid are supported.
        drop_zero : bool
            Drop the zero order peak. This is important for virtual darkfield imaging.
        frame_shape : Tuple[int, int]
            If set, the peaks are filtered with
            :meth:`~libertem_blobfinder.common.gridmatching.within_frame`
        r : float
            Radius for :meth:`~libertem_blobfinder.common.gridmatching.within_frame`

        Returns
        -------

        numpy.ndarray
            A list of (y, x) coordinate pairs for peaks

        Raises
        ------

        ValueError
            If the shape of :code:`indices` is not as expected.
        '''
        if indices is None:
            indices = self.indices
        s = indices.shape
        # Output of mgrid
        if (len(s) == 3) and (s[0] == 2):
            indices = np.concatenate(indices.T)
        # List of (i, j) pairs
        elif (len(s) == 2) and (s[1] == 2):
            pass
        else:
            raise ValueError(
                "Shape of indices is %s, expected (n, 2) or (2, n, m)" % str(indices.shape))

        selector = np.ones(len(indices), dtype=bool)
        if drop_zero:
            nz = np.any(indices != 0, axis=1)
            selector *= nz
        peaks = calc_coords(self.zero, self.a, self.b, indices)
        if frame_shape is not None:
            fy, fx = frame_shape
            selector *= within_frame(peaks, r, fy, fx)
        return peaks[selector]

    @property
    def error(self):
        '''
        float : Weighted average distance between calculated and given peak position.
                numpy.float('inf') if match of length zero.
        '''
        if len(self) > 0:
            diff = np.linalg.norm(self.refineds - self.calculated_refineds, axis=1)
            return (diff * self.peak_elevations).mean() / self.peak_elevations.mean()
        else:
            return np.inf

    def derive(self, selector=None, zero=None, a=None, b=None, indices=None):
        if zero is None:
            zero = self.zero
        if a is None:
            a = self.a
        if b is None:
            b = self.b
        if indices is None:
            indices = self.indices
        if selector is None:
            selector = self.selector
        return Match(correlation_result=self.correlation_result, selector=selector,
            zero=zero, a=a, b=b, indices=indices)

    def weighted_optimize(self):
        '''
        Weighted least square optimization of :attr:`zero`, :attr:`a` and :attr:`b`

        Optimization to match the given points and indices using :attr:`peak_elevation` as weight.

        Returns
        -------

        Match
            A new :class:`Match` instance with optimized :attr:`zero`, :attr:`a` and :attr:`b`

        Raises
        ------

        np.linalg.LinAlgError
            If the solver didn't find a solution.
        '''

        # Following
        # https://stackoverflow.com/questions/27128688/how-to-use-least-squares-with-weight-matrix-in-python

        # We stack an index of 1 to the index list for the zero component
        indices = np.hstack([
            np.ones((len(self.indices), 1)),
            self.indices
        ])

        W = np.vstack([self.peak_elevations, self.peak_elevations])

        Aw = indices * np.sqrt(self.peak_elevations[:, np.newaxis])
        Bw = self.refineds * np.sqrt(W.T)
        (x, residuals, rank, s) = np.linalg.lstsq(
            Aw, Bw, rcond=None
        )
        # (zero, a, b)
        if x.size == 0:
            raise np.linalg.LinAlgError("Optimizing returned empty result")
        zero, a, b = x
        return self.derive(zero=zero, a=a, b=b)

    def optimize(self):
        '''
        Least square optimization of :attr:`zero`, :attr:`a` and :attr:`b`

        Optimization to match the given points and indices.

        Returns
        -------

        Match
            A new :class:`Match` instance with optimized :attr:`zero`, :attr:`a` and :attr:`b`

        Raises
        ------

        np.linalg.LinAlgError
            If the solver didn't find a solution.
        '''
        # We stack an index of 1 to the index list for the zero component
        indices = np.hstack([
            np.ones((len(self.indices), 1)),
            self.indices
        ])

        (x, residuals, rank, s) = np.linalg.lstsq(
            indices, self.refineds, rcond=None)
        # (zero, a, b)
        if x.size == 0:
            raise np.linalg.LinAlgError("Optimizing returned empty result")
        zero, a, b = x
        return self.derive(zero=zero, a=a, b=b)


def get_indices(points, zero, a, b):
    '''
    Find indices to express each point as sum of lattice vectors from zero point

    This could solve for arbitrarily many points, i.e. frame stacks instead of frame by frame
    With that the algorithm could actually match entire frame collections at once.
    '''
    coefficients = np.array((a, b)).T
    # np.linalg.solve only detects exactly singular matrices, while parallel
    # vectors are usually only singular up to rounding errors
    if abs(np.linalg.det(coefficients)) <= 1e-12 * np.linalg.norm(a) * np.linalg.norm(b):
        raise np.linalg.LinAlgError("Lattice vectors a and b are parallel or zero")
    target = points - zero
    result = np.linalg.solve(coefficients, target.T).T
    return result


def get_transformation(ref, peaks, center=None, weighs=None):
    '''
    Inspired by Giulio Guzzinati
    https://arxiv.org/abs/1902.06979
    '''
    if center is None:
        center = np.array((0., 0.))

    assert ref.shape == peaks.shape
    A = np.hstack((ref - center, np.ones((len(ref), 1))))
    B = np.hstack((peaks - center, np.ones((len(peaks), 1))))

    if weighs is None:
        pass
    else:
        assert len(ref) == len(weighs)
        W = np.vstack((weighs, weighs, weighs)).T
        A *= W
        B *= W

    (fit, res, rank, s) = np.linalg.lstsq(A, B, rcond=None)
    return fit


def do_transformation(matrix, peaks, center=None):
    if center is None:
        center = np.array((0, 0))
    A = np.hstack((peaks - center, np.ones((len(peaks), 1))))
    B = np.dot(A, matrix)
    return B[:, 0:2] + center


def find_center(matrix):
    target = np.array((0, 0, 1)).T
    diff = np.identity(3)
    diff[2, 2] = 0
    # Find neutral point: solve a*m = a
    result = np.linalg.solve((matrix - diff).T, target)
    return result[0:2]
