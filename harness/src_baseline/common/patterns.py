import numpy as np
from typing import Tuple

from libertem_blobfinder.base import masks
from skimage.util import crop


class MatchPattern:
    '''
    Abstract base class for correlation patterns.

    This class provides an API to provide a template for fast correlation-based peak finding.
    '''
    def __init__(self, search):
        '''
        Parameters
        ----------

        search : float
            Range from the center point in px to include in the correlation, defining the size
            of the square correlation pattern.
            Will be ceiled to the next int for performing the correlation.
        '''
        self.search = search

    def get_crop_size(self):
        return int(np.ceil(self.search))

    def get_mask(self, sig_shape):
        raise NotImplementedError

    def get_template(self, sig_shape):
        return np.fft.rfft2(self.get_mask(sig_shape))


class Circular(MatchPattern):
    '''
    Circular pattern with radius :code:`radius`.

    This pattern is useful for constructing feature vectors using
    :meth:`~libertem_blobfinder.common.patterns.feature_vector`.

    .. versionadded:: 0.3.0
    '''
    def __init__(self, radius, search=None):
        '''
        Parameters
        ----------

        radius : float
            Radius of the circular pattern in px
        search : float, optional
            Range from the center point in px to include in the correlation, 2x radius by default.
            Defining the size of the square correlation pattern.
        '''
        if search is None:
            search = 2*radius
        if search < radius:
            raise ValueError(
                f"search {search} < radius {radius}, "
                "search must contain the pattern."
            )
        self.radius = radius
        super().__init__(search=search)

    def get_mask(self, sig_shape):
        return masks.circular(
            centerY=sig_shape[0] // 2,
            centerX=sig_shape[1] // 2,
            imageSizeY=sig_shape[0],
            imageSizeX=sig_shape[1],
            radius=self.radius,
            antialiased=True,
        )


class RadialGradient(MatchPattern):
    '''
    Radial gradient from zero in the center to one at :code:`radius`.

    This pattern rejects the influence of internal intensity variations of the CBED disk.
    '''
    def __init__(self, radius, search=None):
        '''
        Parameters
        ----------

        radius : float
            Radius of the circular pattern in px
        search : float, optional
            Range from the center point in px to include in the correlation, 2x radius by default.
            Defining the size of the square correlation pattern.
        '''
        if search is None:
            search = 2*radius
        if search < radius:
            raise ValueError(
                f"search {search} < radius {radius}, "
                "search must contain the pattern."
            )
        self.radius = radius
        super().__init__(search=search)

    def get_mask(self, sig_shape):
        return masks.radial_gradient(
            centerY=sig_shape[0] // 2,
            centerX=sig_shape[1] // 2,
            imageSizeY=sig_shape[0],
            imageSizeX=sig_shape[1],
            radius=self.radius,
            antialiased=True,
        )


class BackgroundSubtraction(MatchPattern):
    '''
    Solid circular disk surrounded with a balancing negative area

    This pattern rejects background and avoids false positives at positions between peaks
    '''
    def __init__(self, radius, search=None, radius_outer=None):
        '''
        Parameters
        ----------

        radius : float
            Radius of the circular pattern in px
        search : float, optional
            Range from the center point in px to include in the correlation.
            :code:`max(2*radius, radius_outer)` by default.
            Defining the size of the square correlation pattern.
        radius_outer : float, optional
            Radius of the negative region in px. 1.5x radius by default.
        '''
        if radius_outer is None:
            radius_outer = radius * 1.5
        if search is None:
            search = max(2*radius, radius_outer)
        if radius_outer <= radius:
            raise ValueError(f"radius_outer {radius_outer} <= radius {radius}, must be larger.")
        if search < radius_outer:
            raise ValueError(
                f"search {search} < radius_outer {radius_outer}, "
                "search must contain the pattern."
            )
        self.radius = radius
        self.radius_outer = radius_outer
        super().__init__(search=search)

    def get_mask(self, sig_shape):
        return masks.background_subtraction(
            centerY=sig_shape[0] // 2,
            centerX=sig_shape[1] // 2,
            imageSizeY=sig_shape[0],
            imageSizeX=sig_shape[1],
            radius=self.radius_outer,
            radius_inner=self.radius,
            antialiased=True
        )


class UserTemplate(MatchPattern):
    '''
    User-defined template
    '''
    def __init__(self, template: np.ndarray, search=None):
        '''
        Parameters
        ----------

        template : numpy.ndarray
            Correlation template as 2D numpy.ndarray
        search : float, optional
            Range from the center point in px to include in the correlation.
            Half diagonal of the template by default.
            Defining the size of the square correlation pattern.
        '''
        if search is None:
            # Half diagonal
            search = np.sqrt(template.shape[0]**2 + template.shape[1]**2) / 2
        self.template = template
        super().__init__(search=search)

    def get_mask(self, sig_shape: Tuple[int, int]) -> np.ndarray:
        # Pad or Crop each dimension of self.template to
        # match sig_shape at the ouput. For odd pads/crops
        # the extra pixel is added/removed at the end of the axis
        result = self.template.copy()
        neutral = (0, 0)
        for ax, (target, source) in enumerate(zip(sig_shape, self.template.shape)):
            if target > source:
                extra = target - source
                fn = np.pad
            elif target < source:
                extra = source - target
                fn = crop
            else:
                continue
            # The correlation expects the template centre at shape // 2,
            # like the built-in patterns: map source // 2 onto target // 2
            # for all parity combinations of source and target.
            before = abs(target // 2 - source // 2)
            after = extra - before
            result = fn(
                result,
                tuple(
                    (before, after) if ax == i else neutral
                    for i in range(result.ndim)
                )
            )
        assert result.shape == tuple(sig_shape)
        return result.astype(self.template.dtype)


class RadialGradientBackgroundSubtraction(UserTemplate):
    '''
    Combination of radial gradient with background subtraction
    '''
    def __init__(self, radius, search=None, radius_outer=None, delta=1, radial_map=None):
        '''
        See :meth:`~libertem_blobfinder.base.masks.radial_gradient_background_subtraction`
        for details.

        Parameters
        ----------

        radius : float
            Radius of the circular pattern in px
        search : float, optional
            Range from the center point in px to include in the correlation.
            :code:`max(2*radius, radius_outer)` by default
            Defining the size of the square correlation pattern.
        radius_outer : float, optional
            Radius of the negative region in px. 1.5x radius by default.
        delta : float, optional
            Width of the transition region between positive and negative in px
        radial_map : numpy.ndarray, optional
            Radius value of each pixel in px. This can be used to distort the shape as needed
            or work in physical coordinates instead of pixels.
            A suitable map can be generated with :meth:`libertem_blobfinder.base.masks.polar_map`.

        Example
        -------

        >>> import matplotlib.pyplot as plt

        >>> (radius, phi) = libertem_blobfinder.base.masks.polar_map(
        ...     centerX=64, centerY=64,
        ...     imageSizeX=128, imageSizeY=128,
        ...     stretchY=2., angle=np.pi/4
        ... )

        >>> template = RadialGradientBackgroundSubtraction(
        ...     radius=30, radial_map=radius)

        >>> # This shows an elliptical template that is stretched
        >>> # along the 45 ° bottom-left top-right diagonal
        >>> plt.imshow(template.get_mask(sig_shape=(128, 128)))
        <matplotlib.image.AxesImage object at ...>
        >>> plt.show() # doctest: +SKIP
        '''
        if radius_outer is None:
            radius_outer = radius * 1.5
        if search is None:
            search = max(2*radius, radius_outer)
        if radius_outer <= radius:
            raise ValueError(f"radius_outer {radius_outer} <= radius {radius}, must be larger.")
        if search < radius_outer:
            raise ValueError(
                f"search {search} < radius_outer {radius_outer}, "
                "search must contain the pattern."
            )
        if radial_map is None:
            # Integer centre at shape // 2 so that the template is symmetric
            # around a pixel also for fractional radii
            r = int(np.ceil(max(radius, radius_outer)))
            radial_map, _ = masks.polar_map(
                centerX=r + 1,
                centerY=r + 1,
                imageSizeX=2*r + 2,
                imageSizeY=2*r + 2,
            )
        self.radius = radius
        self.radius_outer = radius_outer
        self.delta = delta
        self.radial_map = radial_map
        template = masks.radial_gradient_background_subtraction(
            r=self.radial_map,
            r0=self.radius,
            r_outer=self.radius_outer,
            delta=self.delta
        )
        super().__init__(template=template, search=search)

    def get_mask(self, sig_shape):
        # Recalculate in case someone has changed parameters
        self.template = masks.radial_gradient_background_subtraction(
            r=self.radial_map,
            r0=self.radius,
            r_outer=self.radius_outer,
            delta=self.delta
        )
        return super().get_mask(sig_shape)


def feature_vector(imageSizeX, imageSizeY, peaks, match_pattern: MatchPattern):
    '''
    This function generates a sparse mask stack to extract a feature vector.

    A match template based on the parameters in :code:`parameters` is placed at
    each peak position in an individual mask layer. This mask stack can then
    be used in :class:`libertem.udf.masks.ApplyMasksUDF` to generate a feature
    vector for each frame.

    Summing up the mask stack along the first axis generates a mask that can be used for virtual
    darkfield imaging of all peaks together.

    Parameters
    ----------

    imageSizeX,imageSizeY : int
        Frame size in px
    peaks : numpy.ndarray
        Peak positions in px as numpy.ndarray of shape (n, 2) with integer type
    match_pattern : MatchPattern
        Instance of :class:`~MatchPattern`
    '''
    crop_size = match_pattern.get_crop_size()
    return masks.sparse_template_multi_stack(
        mask_index=range(len(peaks)),
        offsetX=peaks[:, 1] - crop_size,
        offsetY=peaks[:, 0] - crop_size,
        template=match_pattern.get_mask((2*crop_size + 1, 2*crop_size + 1)),
        imageSizeX=imageSizeX,
        imageSizeY=imageSizeY,
    )
