import functools

import numpy as np
import sparseconverter

from libertem.udf import UDF
from libertem.common.container import MaskContainer

from libertem_blobfinder.base import masks
from libertem_blobfinder.common.patterns import MatchPattern
import libertem_blobfinder.base.correlation as ltbc
from libertem_blobfinder.common.correlation import get_peaks


class CorrelationUDF(UDF):
    '''
    Base class for peak correlation implementations
    '''
    def __init__(self, peaks, zero_shift=None, *args, **kwargs):
        '''
        Parameters
        ----------

        peaks : numpy.ndarray
            Numpy array of (y, x) coordinates with peak positions in px to correlate
        zero_shift : Union[AUXBufferWrapper, numpy.ndarray, None], optional
            Zero shift, for example descan error. Can be :code:`None`, :code:`numpy.array((y, x))`
            or AUX data with :code:`(y, x)` for each frame.
        '''
        super().__init__(peaks=np.round(peaks).astype(int), zero_shift=zero_shift, *args, **kwargs)

    def get_result_buffers(self):
        '''
        The common buffers for all correlation methods.

        :code:`centers`:
            (y, x) integer positions. NOTE: the returned positions
            can be out-of-frame and the user should perform bounds
            checking if directly indexing into the frame array.
        :code:`refineds`:
            (y, x) positions with subpixel refinement.
        :code:`peak_values`:
            Peak height in the log scaled frame.
        :code:`peak_elevations`:
            Peak quality (result of :meth:`peak_elevation`).

        See source code for details of the buffer declaration.
        '''
        num_disks = len(self.params.peaks)

        return {
            'centers': self.buffer(
                kind="nav", extra_shape=(num_disks, 2), dtype=np.int32,
            ),
            'refineds': self.buffer(
                kind="nav", extra_shape=(num_disks, 2), dtype="float32"
            ),
            'peak_values': self.buffer(
                kind="nav", extra_shape=(num_disks,), dtype="float32",
            ),
            'peak_elevations': self.buffer(
                kind="nav", extra_shape=(num_disks,), dtype="float32",
            ),
        }

    def output_buffers(self):
        '''
        This function allows abstraction of the result buffers from
        the default implementation in :meth:`get_result_buffers`.

        Override this function if you wish to redirect the results to different
        buffers, for example ragged arrays or binned processing.
        '''
        r = self.results
        return (r.centers, r.refineds, r.peak_values, r.peak_elevations)

    def postprocess(self):
        pass

    def get_peaks(self):
        return self.params.peaks

    def get_zero_shift(self, index=None):
        if self.params.zero_shift is None:
            result = np.array((0, 0))
        elif index is None:
            # Called when masked with view
            result = self.params.zero_shift
        else:
            # Called when not masked, in postprocess() etc.
            result = self.params.zero_shift
            # A constant (y, x) zero shift applies to all frames
            if np.ndim(result) > 1:
                result = result[index]
        return result


class FastCorrelationUDF(CorrelationUDF):
    '''
    Fourier-based fast correlation-based refinement of peak positions within a search frame
    for each peak.
    '''
    def __init__(self, peaks, match_pattern, zero_shift=None, *args, **kwargs):
        '''
        Parameters
        ----------

        peaks : numpy.ndarray
            Numpy array of (y, x) coordinates with peak positions in px to correlate
        match_pattern : MatchPattern
            Instance of :class:`~libertem_blobfinder.MatchPattern`
        zero_shift : Union[AUXBufferWrapper, numpy.ndarray, None], optional
            Zero shift, for example descan error. Can be :code:`None`, :code:`numpy.array((y, x))`
            or AUX data with :code:`(y, x)` for each frame.
        upsample: Union[bool, int], optional
            Use DFT upsampling for the refinement step, by default False. Supplying
            True will choose a reasonable default upsampling factor, while any
            positive integer > 1 will upsample the correlation peak by this factor.
            DFT upsampling can provide more accurate center values, especially when
            peak shifts are small, but does require more computation time.
        '''
        # For testing purposes, allow to inject a different limit via
        # an internal kwarg
        # It has to come through kwarg because of how UDFs are run
        self.limit = kwargs.get('__limit', 2**19)  # 1/2 MB
        super().__init__(
            peaks=peaks, match_pattern=match_pattern, zero_shift=zero_shift, *args, **kwargs
        )

    def get_task_data(self):
        ""
        n_peaks = len(self.get_peaks())
        mask = self.get_pattern()
        crop_size = mask.get_crop_size()
        template = self.xp.array(mask.get_template(sig_shape=(2 * crop_size, 2 * crop_size)))
        dtype = np.result_type(self.meta.input_dtype, np.float32)
        crop_bufs = ltbc.allocate_crop_bufs(
            crop_size, n_peaks, dtype=dtype, limit=self.limit, xp=self.xp
        )
        if self.meta.array_backend in (
                self.BACKEND_SPARSE_COO, self.BACKEND_SPARSE_GCXS, self.BACKEND_CUPY):
            crop_function = ltbc.crop_disks_from_frame_slicing
        elif self.meta.array_backend in (self.BACKEND_NUMPY, ):
            crop_function = ltbc.crop_disks_from_frame
        else:  # pragma: no cover
            raise RuntimeError(f"Unsupported array backend {self.meta.array_backend}")

        kwargs = {
            'crop_bufs': crop_bufs,
            'template': template,
            'crop_function': crop_function,
        }
        return kwargs

    def get_pattern(self):
        return self.params.match_pattern

    def get_template(self):
        return self.task_data.template

    def process_frame(self, frame):
        match_pattern = self.get_pattern()
        (centers, refineds, peak_values, peak_elevations) = self.output_buffers()
        ltbc.process_frame_fast(
            template=self.get_template(), crop_size=match_pattern.get_crop_size(),
            frame=frame, peaks=self.get_peaks() + np.round(self.get_zero_shift()).astype(int),
            out_centers=centers, out_refineds=refineds,
            out_heights=peak_values, out_elevations=peak_elevations,
            crop_bufs=self.task_data.crop_bufs,
            upsample=self.params.get('upsample', False),
            crop_function=self.task_data.crop_function,
        )

    def get_backends(self):
        return (
            self.BACKEND_NUMPY,
            self.BACKEND_CUPY,
            self.BACKEND_SPARSE_COO,
            self.BACKEND_SPARSE_GCXS,
        )


class FullFrameCorrelationUDF(CorrelationUDF):
    '''
    Fourier-based correlation-based refinement of peak positions within a search
    frame for each peak using a single correlation step. This can be faster for
    correlating a large number of peaks in small frames in comparison to
    :class:`FastCorrelationUDF`. However, it is more sensitive to interference
    from strong peaks next to the peak of interest.

    .. versionadded:: 0.3.0
    '''
    def __init__(self, peaks, match_pattern, zero_shift=None, *args, **kwargs):
        '''
        Parameters
        ----------

        peaks : numpy.ndarray
            Numpy array of (y, x) coordinates with peak positions in px to correlate
        match_pattern : MatchPattern
            Instance of :class:`~libertem_blobfinder.MatchPattern`
        zero_shift : Union[AUXBufferWrapper, numpy.ndarray, None], optional
            Zero shift, for example descan error. Can be :code:`None`, :code:`numpy.array((y, x))`
            or AUX data with :code:`(y, x)` for each frame.
        upsample: Union[bool, int], optional
            Use DFT upsampling for the refinement step, by default False. Supplying
            True will choose a reasonable default upsampling factor, while any
            positive integer > 1 will upsample the correlation peak by this factor.
            DFT upsampling can provide more accurate center values, especially when
            peak shifts are small, but does require more computation time.
        '''
        # For testing purposes, allow to inject a different limit via
        # an internal kwarg
        # It has to come through kwarg because of how UDFs are run
        self.limit = kwargs.get('__limit', 2**19)  # 1/2 MB

        super().__init__(
            peaks=peaks, match_pattern=match_pattern, zero_shift=zero_shift, *args, **kwargs
        )

    def get_task_data(self):
        ""
        mask = self.get_pattern()
        n_peaks = len(self.params.peaks)
        template = self.xp.array(mask.get_template(sig_shape=self.meta.dataset_shape.sig))
        dtype = np.result_type(self.meta.input_dtype, np.float32)
        frame_buf = self.xp.array(
            ltbc.zeros(shape=self.meta.dataset_shape.sig, dtype=dtype)
        )
        crop_size = mask.get_crop_size()

        if self.meta.array_backend in (
                self.BACKEND_SPARSE_COO, self.BACKEND_SPARSE_GCXS, self.BACKEND_CUPY):
            crop_function = ltbc.crop_disks_from_frame_slicing
        elif self.meta.array_backend in (self.BACKEND_NUMPY, ):
            crop_function = ltbc.crop_disks_from_frame
        else:  # pragma: no cover
            raise RuntimeError(f"Unsupported array backend {self.meta.array_backend}")

        kwargs = {
            'template': template,
            'frame_buf': frame_buf,
            'buf_count': ltbc.get_buf_count(crop_size, n_peaks, dtype, self.limit),
            'crop_function': crop_function,
        }
        return kwargs

    def get_pattern(self):
        return self.params.match_pattern

    def get_template(self):
        return self.task_data.template

    def process_frame(self, frame):
        match_pattern = self.get_pattern()
        (centers, refineds, peak_values, peak_elevations) = self.output_buffers()
        ltbc.process_frame_full(
            template=self.get_template(),
            crop_size=match_pattern.get_crop_size(),
            frame=frame,
            peaks=self.get_peaks() + np.round(self.get_zero_shift()).astype(int),
            out_centers=centers,
            out_refineds=refineds,
            out_heights=peak_values,
            out_elevations=peak_elevations,
            frame_buf=self.task_data.frame_buf,
            buf_count=self.task_data.buf_count,
            upsample=self.params.get('upsample', False),
            crop_function=self.task_data.crop_function,
        )

    def get_backends(self):
        # At this time cannot FFT on a full sparse frame so not
        # specifying sparse backends to trigger auto-densification
        return (
            self.BACKEND_NUMPY,
            self.BACKEND_CUPY,
        )


class SparseCorrelationUDF(CorrelationUDF):
    '''
    Direct correlation using sparse matrices

    This method allows to adjust the number of correlation steps independent of the template size.
    '''
    def __init__(self, peaks, match_pattern, steps, *args, **kwargs):
        '''
        Parameters
        ----------

        peaks : numpy.ndarray
            Numpy array of (y, x) coordinates with peak positions in px to correlate
        match_pattern : MatchPattern
            Instance of :class:`~libertem_blobfinder.MatchPattern`
        steps : int
            The template is correlated with 2 * steps + 1 symmetrically around the peak position
            in x and y direction. This defines the maximum shift that can be
            detected. The number of calculations grows with the square of this value, that means
            keeping this as small as the data allows speeds up the calculation.
        '''
        super().__init__(
            peaks=peaks, match_pattern=match_pattern, steps=steps, *args, **kwargs
        )
        if self.params.zero_shift is not None:
            raise ValueError("Parameter zero_shift not supported for SparseCorrelationUDF")

    def get_result_buffers(self):
        """
        This method adds the :code:`corr` buffer to the result of
        :meth:`CorrelationUDF.get_result_buffers`. See source code for the
        exact buffer declaration.
        """
        super_buffers = super().get_result_buffers()
        num_disks = len(self.params.peaks)
        steps = self.params.steps * 2 + 1
        my_buffers = {
            'corr': self.buffer(
                kind="nav", extra_shape=(num_disks * steps**2,), dtype="float32"
            ),
        }
        super_buffers.update(my_buffers)
        return super_buffers

    def get_task_data(self):
        ""
        match_pattern = self.params.match_pattern
        crop_size = match_pattern.get_crop_size()
        size = (2 * crop_size + 1, 2 * crop_size + 1)
        template = match_pattern.get_mask(sig_shape=size)
        steps = self.params.steps
        peak_offsetY, peak_offsetX = np.mgrid[-steps:steps + 1, -steps:steps + 1]

        offsetY = self.params.peaks[:, 0, np.newaxis, np.newaxis] + peak_offsetY - crop_size
        offsetX = self.params.peaks[:, 1, np.newaxis, np.newaxis] + peak_offsetX - crop_size

        offsetY = offsetY.flatten()
        offsetX = offsetX.flatten()

        stack = functools.partial(
            masks.sparse_template_multi_stack,
            mask_index=range(len(offsetY)),
            offsetX=offsetX,
            offsetY=offsetY,
            template=template,
            imageSizeX=self.meta.dataset_shape.sig[1],
            imageSizeY=self.meta.dataset_shape.sig[0]
        )
        if self.meta.array_backend in sparseconverter.CPU_BACKENDS:
            backend = 'numpy'
        elif self.meta.array_backend in sparseconverter.CUDA_BACKENDS:
            backend = 'cupy'
        else:  # pragma: no cover
            raise ValueError("Unknown device class")
        if self.meta.array_backend == self.BACKEND_SPARSE_COO:
            use_sparse = 'sparse.pydata'
        elif self.meta.array_backend == self.BACKEND_SPARSE_GCXS:
            use_sparse = 'sparse.pydata.GCXS'
        elif self.meta.array_backend in (self.BACKEND_CUPY, self.BACKEND_NUMPY):
            use_sparse = 'scipy.sparse.csc'
        else:  # pragma: no cover
            raise RuntimeError(f'Unsupported array backend {self.meta.array_backend}')
        # CSC matrices in combination with transposed data are fastest
        container = MaskContainer(mask_factories=stack, dtype=np.float32,
            use_sparse=use_sparse, backend=backend)

        kwargs = {
            'mask_container': container,
            'crop_size': crop_size,
        }
        return kwargs

    def process_tile(self, tile):
        tile_slice = self.meta.slice
        c = self.task_data.mask_container
        tile_t = ltbc.log_scale(tile.reshape((tile.shape[0], -1)).T, out=None)

        sl = c.get(key=tile_slice, transpose=False)
        self.results.corr[:] += self.forbuf(sl.dot(tile_t).T, self.results.corr)

    def postprocess(self):
        """
        The correlation results are evaluated during postprocessing since this
        implementation uses tiled processing where the correlations are
        incomplete in :meth:`process_tile`.
        """
        steps = 2 * self.params.steps + 1
        corrmaps = self.results.corr.reshape((
            -1,  # frames
            len(self.params.peaks),  # peaks
            steps,  # Y steps
            steps,  # X steps
        ))
        peaks = self.params.peaks
        (centers, refineds, peak_values, peak_elevations) = self.output_buffers()
        for f in range(corrmaps.shape[0]):
            ltbc.evaluate_correlations(
                corrs=corrmaps[f], peaks=peaks, crop_size=self.params.steps,
                out_centers=centers[f], out_refineds=refineds[f],
                out_heights=peak_values[f], out_elevations=peak_elevations[f]
            )

    def get_backends(self):
        return (
            self.BACKEND_NUMPY,
            self.BACKEND_CUPY,
            self.BACKEND_SPARSE_COO,
            self.BACKEND_SPARSE_GCXS
        )


def run_fastcorrelation(
    ctx, dataset, peaks, match_pattern: MatchPattern, zero_shift=None, upsample=False, **kwargs
):
    """
    Wrapper function to construct and run a :class:`FastCorrelationUDF`

    Parameters
    ----------
    ctx : libertem.api.Context
    dataset : libertem.io.dataset.base.DataSet
    peaks : numpy.ndarray
        List of peaks with (y, x) coordinates
    match_pattern : libertem_blobfinder.patterns.MatchPattern
    zero_shift : Union[AUXBufferWrapper, numpy.ndarray, None], optional
        Zero shift, for example descan error. Can be :code:`None`, :code:`numpy.array((y, x))`
        or AUX data with :code:`(y, x)` for each frame.
    upsample : Union[bool, int], optional
        Whether to use upsampling DFT for refinement. False to deactivate (default) or a positive
        integer >1 to upsample by this factor when refining the correlation peak positions. Upsample
        True will choose a sensible upsampling factor.
    kwargs : passed through to :meth:`~libertem.api.Context.run_udf`

    Returns
    -------
    buffers : Dict[libertem.common.buffers.BufferWrapper]
        See :meth:`CorrelationUDF.get_result_buffers` for details.
    """
    peaks = peaks.astype(int)
    udf = FastCorrelationUDF(
        peaks=peaks, match_pattern=match_pattern, zero_shift=zero_shift, upsample=upsample,
    )
    return ctx.run_udf(dataset=dataset, udf=udf, **kwargs)


def run_blobfinder(
    ctx, dataset, match_pattern: MatchPattern, num_peaks, roi=None, upsample=False, progress=False
):
    """
    Wrapper function to find peaks in a dataset and refine their position using
    :class:`FastCorrelationUDF`

    Parameters
    ----------
    ctx : libertem.api.Context
    dataset : libertem.io.dataset.base.DataSet
    match_pattern : libertem_blobfinder.patterns.MatchPattern
    num_peaks : int
        Number of peaks to look for
    roi : numpy.ndarray, optional
        Boolean mask of the navigation dimension to select region of interest (ROI)
    upsample : Union[bool, int], optional
        Whether to use upsampling DFT for refinement. False to deactivate (default) or a positive
        integer >1 to upsample by this factor when refining the correlation peak positions. Upsample
        True will choose a sensible upsampling factor.
    progress : bool, optional
        Show progress bar

    Returns
    -------
    sum_result : numpy.ndarray
        Log-scaled sum frame of the dataset/ROI
    centers, refineds, peak_values, peak_elevations : libertem.common.buffers.BufferWrapper
        See :meth:`CorrelationUDF.get_result_buffers` for details.
    peaks : numpy.ndarray
        List of found peaks with (y, x) coordinates
    """
    if upsample is True:
        upsample = 20

    sum_analysis = ctx.create_sum_analysis(dataset=dataset)
    sum_result = ctx.run(sum_analysis, roi=roi)

    sum_result = ltbc.log_scale(sum_result.intensity.raw_data, out=None)
    peaks = get_peaks(
        sum_result=sum_result,
        match_pattern=match_pattern,
        num_peaks=num_peaks,
    )

    pass_2_results = run_fastcorrelation(
        ctx=ctx,
        dataset=dataset,
        peaks=peaks,
        match_pattern=match_pattern,
        roi=roi,
        upsample=upsample,
        progress=progress
    )

    return (sum_result, pass_2_results['centers'],
        pass_2_results['refineds'], pass_2_results['peak_values'],
        pass_2_results['peak_elevations'], peaks)
