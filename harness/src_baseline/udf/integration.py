import numpy as np

from libertem.udf.base import UDF

from libertem_blobfinder.base.correlation import crop_disks_from_frame, allocate_crop_bufs


class IntegrationUDF(UDF):
    def __init__(self, centers, pattern):
        '''
        Integrate peak intensity at positions that are specified for each frame.

        Parameters
        ----------
        centers : AUXBufferWrapper
            Peak positions (y, x) as AUX buffer wrapper of kind "nav", extra_shape (num_peaks, 2)
            and integer dtype.
        pattern : libertem_blobfinder.common.patterns.MatchPattern
            Match pattern with the weight for each pixels.
            :class:`libertem_blobfinder.common.patterns.BackgroundSubtraction` or
            :class:`libertem_blobfinder.common.patterns.Circular` can be good choices.

        Example
        -------

        >>> from libertem_blobfinder.udf.integration import IntegrationUDF
        >>> from libertem_blobfinder.common.patterns import BackgroundSubtraction

        >>> nav_shape = tuple(dataset.shape.nav)
        >>> sig_shape = tuple(dataset.shape.sig)
        >>> extra_shape = (3, 2)  # three peaks with coordinates (y, x)
        >>> peaks_shape = nav_shape + extra_shape

        >>> # Generate some random positions as an example
        >>> peaks = np.random.randint(
        ...     low=0, high=np.min(sig_shape), size=peaks_shape, dtype=np.int64
        ... )

        >>> # Create an AuxBufferWrapper for the peaks
        >>> centers = IntegrationUDF.aux_data(
        ...     data=peaks,
        ...     kind='nav',
        ...     dtype=np.int64,
        ...     extra_shape=extra_shape
        ... )

        >>> udf = IntegrationUDF(
        ...     centers=centers,
        ...     pattern=BackgroundSubtraction(radius=5, radius_outer=6)
        ... )

        >>> res = ctx.run_udf(udf=udf, dataset=dataset)

        >>> nav_shape
        (16, 16)
        >>> # Integration result for each frame and peak
        >>> res['integration'].data.shape
        (16, 16, 3)
        '''
        super().__init__(centers=centers, pattern=pattern)

    def get_result_buffers(self):
        '''
        :code:`integration`:
            Integrated intensity for each peak. Kind "nav", extra_shape (num_peaks, )
        '''
        dtype = np.result_type(self.meta.input_dtype, np.float32)
        return {
            'integration': self.buffer(
                kind='nav', extra_shape=(self.params.centers.shape[-2], ),
                dtype=dtype
            )
        }

    def get_task_data(self):
        '''
        '''
        n_peaks = self.params.centers.shape[-2]
        mask = self.params.pattern
        crop_size = mask.get_crop_size()
        pattern = mask.get_mask(sig_shape=(2 * crop_size, 2 * crop_size))
        dtype = np.result_type(self.meta.input_dtype, np.float32)
        crop_bufs = allocate_crop_bufs(crop_size, n_peaks, dtype=dtype, limit=1e12)
        kwargs = {
            'crop_bufs': crop_bufs,
            'pattern': pattern,
        }
        return kwargs

    def process_frame(self, frame):
        '''
        '''
        crop_size = self.params.pattern.get_crop_size()
        crop_disks_from_frame(
            peaks=self.params.centers,
            frame=frame,
            crop_size=crop_size,
            out_crop_bufs=self.task_data.crop_bufs,
        )
        self.results.integration[:] = np.sum(
            self.task_data.crop_bufs * self.task_data.pattern, axis=(-1, -2)
        )
