import numpy as np

from libertem_blobfinder.base.utils import frame_peaks
import libertem_blobfinder.common.gridmatching as grm

from libertem_blobfinder.common.patterns import MatchPattern
from libertem_blobfinder.udf.correlation import (
    FastCorrelationUDF, SparseCorrelationUDF, FullFrameCorrelationUDF
)


class RefinementMixin():
    '''
    To be combined with a :class:`libertem_blobfinder.CorrelationUDF`
    using multiple inheritance.

    The mixin must come before the UDF in the inheritance list.

    The subclasses implement a :code:`postprocess` method that calculates a
    refinement of start_zero, start_a and start_b based on the correlation
    result and populates the appropriate result buffers with this refinement
    result.

    This allows combining arbitrary implementations of correlation-based
    matching with arbitrary implementations of the refinement by declaring an
    ad-hoc class that inherits from one subclass of RefinementMixin and one
    subclass of CorrelationUDF.
    '''
    def get_result_buffers(self):
        """
        This adds :code:`zero`, :code:`a`, :code:`b`, :code:`selector`,
        :code:`error` to the superclass result buffer declaration.

        :code:`zero`, :code:`a`, :code:`b`:
            Grid refinement parameters for each frame.
        :code:`selector`:
            Boolean mask of the peaks that were used in the fit.
        :code:`error`:
            Residual of the fit.

        See source code for the exact buffer declaration.
        """
        super_buffers = super().get_result_buffers()
        num_disks = len(self.params.peaks)
        my_buffers = {
            'zero': self.buffer(
                kind="nav", extra_shape=(2,), dtype="float32"
            ),
            'a': self.buffer(
                kind="nav", extra_shape=(2,), dtype="float32"
            ),
            'b': self.buffer(
                kind="nav", extra_shape=(2,), dtype="float32"
            ),
            'selector': self.buffer(
                kind="nav", extra_shape=(num_disks,), dtype="bool"
            ),
            'error': self.buffer(
                kind="nav", dtype="float32",
            ),
        }
        super_buffers.update(my_buffers)
        return super_buffers

    def apply_match(self, index, match):
        """
        Override this method to change how a match is saved in the result
        buffers, for example to support binned processing or ragged result
        arrays.
        """
        r = self.results
        # We cast from float64 to float32 here
        r.zero[index] = match.zero
        r.a[index] = match.a
        r.b[index] = match.b
        r.selector[index] = match.selector
        r.error[index] = match.error


class FastmatchMixin(RefinementMixin):
    '''
    Refinement using :meth:`~libertem_blobfinder.common.gridmatching.Matcher.fastmatch`
    '''
    def __init__(self, *args, **kwargs):
        '''
        Parameters
        ----------

        matcher : libertem_blobfinder.common.gridmatching.Matcher
            Instance of :class:`~libertem_blobfinder.common.gridmatching.Matcher`
        start_zero : numpy.ndarray
            Approximate value (y, x) in px for "zero" point (origin, zero order peak)
        start_a : numpy.ndarray
            Approximate value (y, x) in px for "a" vector.
        start_b : numpy.ndarray
            Approximate value (y, x) in px for "b" vector.
        '''
        super().__init__(*args, **kwargs)

    def postprocess(self):
        super().postprocess()
        p = self.params
        r = self.results
        for index in range(len(self.results.centers)):
            match = p.matcher.fastmatch(
                centers=r.centers[index],
                refineds=r.refineds[index],
                peak_values=r.peak_values[index],
                peak_elevations=r.peak_elevations[index],
                zero=p.start_zero + self.get_zero_shift(index),
                a=p.start_a,
                b=p.start_b,
            )
            self.apply_match(index, match)


class AffineMixin(RefinementMixin):
    '''
    Refinement using :meth:`~libertem_blobfinder.common.gridmatching.Matcher.affinematch`
    '''
    def __init__(self, *args, **kwargs):
        '''
        Parameters
        ----------

        matcher : libertem_blobfinder.common.gridmatching.Matcher
            Instance of :class:`~libertem_blobfinder.common.gridmatching.Matcher`
        indices : numpy.ndarray
            List of indices [(h1, k1), (h2, k2), ...] of all peaks. The indices can be
            non-integer and relative to any base vectors, including virtual ones like
            (1, 0); (0, 1). See documentation of
            :meth:`~libertem_blobfinder.common.gridmatching.Matcher.affinematch` for details.
        '''
        super().__init__(*args, **kwargs)

    def postprocess(self):
        super().postprocess()
        p = self.params
        r = self.results
        for index in range(len(self.results.centers)):
            match = p.matcher.affinematch(
                centers=r.centers[index],
                refineds=r.refineds[index],
                peak_values=r.peak_values[index],
                peak_elevations=r.peak_elevations[index],
                indices=p.indices,
            )
            self.apply_match(index, match)


def run_refine(
        ctx, dataset, zero, a, b, match_pattern: MatchPattern, matcher: grm.Matcher,
        correlation='fast', match='fast', indices=None, steps=5, zero_shift=None,
        upsample=False, **kwargs):
    '''
    Wrapper function to refine the given lattice for each frame by calculating
    approximate peak positions and refining them for each frame using a
    combination of :class:`libertem_blobfinder.CorrelationUDF` and
    :class:`libertem_blobfinder.RefinementMixin`.

    .. versionchanged:: 0.3.0
        Support for :class:`FullFrameCorrelationUDF`
        through parameter :code:`correlation = 'fullframe'`

    Parameters
    ----------

    ctx : libertem.api.Context
        Instance of a LiberTEM :class:`~libertem.api.Context`
    dataset : libertem.io.dataset.base.DataSet
        Instance of a :class:`~libertem.io.dataset.base.DataSet`
    zero : numpy.ndarray
        Approximate value for "zero" point (y, x) in px (origin, zero order
        peak)
    a : numpy.ndarray
        Approximate value for "a" vector (y, x) in px.
    b : numpy.ndarray
        Approximate value for "b" vector (y, x) in px.
    match_pattern : MatchPattern
        Instance of :class:`~MatchPattern`
    matcher : libertem_blobfinder.common.gridmatching.Matcher
        Instance of :class:`~libertem_blobfinder.common.gridmatching.Matcher`
        to perform the matching
    correlation : {'fast', 'sparse', 'fullframe'}, optional
        'fast', 'sparse' or 'fullframe' to select :class:`~FastCorrelationUDF`,
        :class:`~SparseCorrelationUDF` or :class:`~FullFrameCorrelationUDF`
    match : {'fast', 'affine'}, optional
        'fast' or 'affine' to select
        :class:`~FastmatchMixin` or :class:`~AffineMixin`
    indices : numpy.ndarray, optional
        Indices to refine. This is trimmed down to
        positions within the frame. As a convenience, for the indices parameter
        this function accepts both shape (n, 2) and (2, n, m) so that
        numpy.mgrid[h:k, i:j] works directly to specify indices. This saves
        boilerplate code when using this function.
        Default: numpy.mgrid[-10:10, -10:10].
    steps : int, optional
        Only for correlation == 'sparse': Correlation steps. See
        :meth:`~SparseCorelationUDF.__init__` for
        details.
    zero_shift : Union[AUXBufferWrapper, numpy.ndarray, None], optional
        Zero shift, for example descan error. Can be :code:`None`, :code:`numpy.array((y, x))`
        or AUX data with :code:`(y, x)` for each frame. Only supported for correlation methods
        :code:`fast` and `fullframe`.
    upsample: Union[bool, int], optional
        Use DFT upsampling for the refinement step, by default False. Supplying
        True will choose a reasonable default upsampling factor, while any
        positive integer > 1 will upsample the correlation peak by this factor.
        DFT upsampling can provide more accurate center values, especially when
        peak shifts are small, but does require more computation time.
    kwargs : passed through to :meth:`~libertem.api.Context.run_udf`

    Returns
    -------
    result : Dict[str, BufferWrapper]
        Result buffers of the UDF. See
        :meth:`libertem_blobfinder.correlation.CorrelationUDF.get_result_buffers` and
        :meth:`RefinementMixin.get_result_buffers` for details on the available
        buffers.
    used_indices : numpy.ndarray
        The peak indices that were within the frame.

    Examples
    --------

    >>> dataset = ctx.load(
    ...     filetype="memory",
    ...     data=np.zeros(shape=(2, 2, 128, 128), dtype=np.float32)
    ... )
    >>> (result, used_indices) = run_refine(
    ...     ctx, dataset,
    ...     zero=(64, 64), a=(1, 0), b=(0, 1),
    ...     match_pattern=libertem_blobfinder.common.patterns.RadialGradient(radius=4),
    ...     matcher=grm.Matcher()
    ... )
    >>> result['centers'].data  #doctest: +ELLIPSIS
    array(...)
    '''
    if indices is None:
        indices = np.mgrid[-10:11, -10:11]

    if upsample is True:
        upsample = 20

    (fy, fx) = tuple(dataset.shape.sig)

    indices, peaks = frame_peaks(
        fy=fy, fx=fx, zero=zero, a=a, b=b,
        r=match_pattern.search, indices=indices
    )
    peaks = peaks.astype('int')

    if correlation == 'fast':
        method = FastCorrelationUDF
    elif correlation == 'sparse':
        method = SparseCorrelationUDF
    elif correlation == 'fullframe':
        method = FullFrameCorrelationUDF
    else:
        raise ValueError(
            "Unknown correlation method %s. Supported are 'fast' and 'sparse'" % correlation
        )

    if match == 'affine':
        mixin = AffineMixin
    elif match == 'fast':
        mixin = FastmatchMixin
    else:
        raise ValueError(
            "Unknown match method %s. Supported are 'fast' and 'affine'" % match
        )

    # The inheritance order matters: FIRST the mixin, which calls
    # the super class methods.
    class MyUDF(mixin, method):
        pass

    udf = MyUDF(
        peaks=peaks,
        indices=indices,
        start_zero=zero,
        start_a=a,
        start_b=b,
        match_pattern=match_pattern,
        matcher=matcher,
        steps=steps,
        zero_shift=zero_shift,
        upsample=upsample,
    )

    result = ctx.run_udf(
        dataset=dataset,
        udf=udf,
        **kwargs
    )
    return (result, indices)
