import numpy as np
import matplotlib.pyplot as plt

import libertem_blobfinder.common.gridmatching as grm


def visualize_frame(ctx, ds, result, indices, r, y, x, axes, colors=None, stretch=10):
    '''
    Visualize the refinement of a specific frame in matplotlib axes
    '''
    # Get the frame from the dataset
    get_sample_frame = ctx.create_pick_analysis(dataset=ds, y=y, x=x)
    sample_frame = ctx.run(get_sample_frame)

    if y is None:
        select = (x, )
    else:
        select = (y, x)

    d = sample_frame[0].raw_data.astype(np.float32)

    pcm = axes.imshow(np.log(d - np.min(d) + 1))

    refined = result['refineds'].data[select]
    elevations = result['peak_elevations'].data[select]
    selector = result['selector'].data[select]

    max_elevation = np.max(elevations)

    # Calclate the best fit positions to compare with the
    # individual peak positions.
    # A difference between best fit and individual peaks highlights outliers.
    calculated = grm.calc_coords(
        zero=result['zero'].data[select],
        a=result['a'].data[select],
        b=result['b'].data[select],
        indices=indices
    )

    paint_markers(
        axes=axes,
        r=r,
        refined=refined,
        normalized_elevations=elevations/max_elevation,
        calculated=calculated,
        selector=selector,
        zero=result['zero'].data[select],
        a=result['a'].data[select],
        b=result['b'].data[select],
        colors=colors,
        stretch=stretch,
    )
    return pcm


def paint_markers(axes, r, refined, normalized_elevations, calculated, selector, zero, a, b,
        colors=None, stretch=10):
    if colors is None:
        colors = {
            'marker': 'w',
            'arrow': 'r',
            'missing': 'r',
            'a': 'b',
            'b': 'g',
        }

    axes.arrow(*np.flip(zero), *(np.flip(a)), color=colors['a'])
    axes.arrow(*np.flip(zero), *(np.flip(b)), color=colors['b'])

    # Plot markers for the individual peak positions.
    # The alpha channel represents the peak elevation, which is used as a weight in the fit.
    for i in range(len(refined)):
        p = np.flip(refined[i])
        a = max(0, normalized_elevations[i])
        p0 = np.flip(calculated[i])
        if selector[i]:
            axes.add_artist(plt.Circle(p, r, color=colors['marker'], fill=False, alpha=a))
            axes.add_artist(plt.Circle(p0, 1, color=colors['arrow'], fill=True, alpha=a))
            axes.arrow(*p0, *(p-p0)*stretch, color=colors['arrow'], alpha=a)
        else:
            (yy, xx) = calculated[i]
            xy = (xx - r, yy - r)
            axes.add_artist(plt.Rectangle(xy, 2*r, 2*r, color=colors['missing'], fill=False))
