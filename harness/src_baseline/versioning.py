import os
import subprocess


def get_git_rev():
    # NOTE: there is a copy of this code in setup.py!
    try:
        new_cwd = os.path.abspath(os.path.dirname(__file__))
        rev_raw = subprocess.check_output(["git", "rev-parse", "HEAD"], cwd=new_cwd)
        return rev_raw.decode("utf8").strip()
    except Exception:
        return "unknown"
