"""Deterministic stand-in for hdbscan.HDBSCAN (hdbscan is not installed in this sandbox).
sklearn-style interface used by FullMatcher: attributes min_cluster_size / min_samples, fit(X), labels_,
probabilities_.  Clustering = connected components of the eps-neighbourhood graph (single linkage cut at eps);
components smaller than min_cluster_size are noise (-1).  See DESIGN.md trusted base item A-CL."""
import numpy as np


class HDBSCAN:
    def __init__(self, min_cluster_size=5, min_samples=None, eps=1.0, **kwargs):
        self.min_cluster_size = min_cluster_size
        self.min_samples = min_samples
        self.eps = eps
        self.labels_ = np.zeros(0, dtype=int)
        self.probabilities_ = np.zeros(0)

    def fit(self, X):
        X = np.asarray(X, dtype=np.float64)
        n = len(X)
        labels = np.full(n, -1, dtype=int)
        if n == 0:
            self.labels_, self.probabilities_ = labels, np.zeros(0)
            return self
        d = np.linalg.norm(X[:, None, :] - X[None, :, :], axis=-1)
        seen = np.zeros(n, dtype=bool)
        comps = []
        for i in range(n):
            if seen[i]:
                continue
            stack, comp = [i], []
            seen[i] = True
            while stack:
                j = stack.pop()
                comp.append(j)
                for k in np.flatnonzero((d[j] <= self.eps) & ~seen):
                    seen[k] = True
                    stack.append(int(k))
            comps.append(sorted(comp))
        lab = 0
        for comp in comps:
            if len(comp) >= max(int(self.min_cluster_size or 2), 2):
                labels[comp] = lab
                lab += 1
        self.labels_ = labels
        self.probabilities_ = (labels >= 0).astype(np.float64)
        return self
