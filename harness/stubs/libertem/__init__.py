"""Minimal stand-in for the parts of LiberTEM that libertem_blobfinder.udf uses (LiberTEM is not installed in this
sandbox).  It implements the UDF *protocol* as documented by LiberTEM (assumption A-LT in DESIGN.md):
per partition a fresh task_data; per frame / tile views into the partition's result buffers and AUX data;
postprocess on the partition view; merge of nav buffers into the dataset-wide result by assignment."""
