import numpy as np
import scipy.sparse as sp


class MaskContainer:
    """masks restricted to a tile's signal slice, flattened: get(key, transpose=False) -> (n_masks, tile_pixels)"""

    def __init__(self, mask_factories, dtype=None, use_sparse=None, backend=None, **kw):
        self.mask_factories = mask_factories
        self.dtype = dtype
        self.use_sparse = use_sparse
        self._masks = None

    def _dense(self):
        if self._masks is None:
            f = self.mask_factories
            m = f() if callable(f) else np.stack([g() for g in f])
            if hasattr(m, "todense"):
                m = m.todense()
            self._masks = np.asarray(m, dtype=self.dtype)
        return self._masks

    def get(self, key, transpose=True, **kw):
        m = self._dense()
        sl = key.slices() if hasattr(key, "slices") else key
        part = m[(slice(None),) + tuple(sl)].reshape(m.shape[0], -1)
        if transpose:
            part = part.T
        if self.use_sparse:
            return sp.csc_matrix(part) if "csc" in str(self.use_sparse) else sp.csr_matrix(part)
        return part
