"""Driver of the UDF protocol for the stand-in (used by the harness; see package docstring)."""
import numpy as np

from libertem.udf.base import UDF, AuxBufferWrapper, _Meta, _Shape, _SigSlice, _TaskData, _BufferSpec


class ResultWrapper:
    def __init__(self, data):
        self.data = data
        self.raw_data = data


class MemoryDataSet:
    def __init__(self, data, nav_dims=1):
        self.data = np.asarray(data) if not hasattr(data, "todense") else data
        shape = self.data.shape
        self.shape = _Shape(shape[:-2], shape[-2:])
        self.dtype = self.data.dtype


def _aux_params(udf):
    d = object.__getattribute__(udf.params, "_d")
    return [v for v in d.values() if isinstance(v, AuxBufferWrapper)]


def run_udf(udf, data, partitions=None, tiling=None, backend=UDF.BACKEND_NUMPY, tile_depth=1):
    """data: (n_frames, sy, sx) array.  partitions: list of lists of frame numbers (processing order inside each
    partition as given).  tiling: list of (origin, shape) signal tiles forming an exact cover (process_tile UDFs);
    tile_depth: frames per tile.  Returns {name: ResultWrapper(array of shape (n_frames, *extra))}."""
    data = np.asarray(data)
    n, sy, sx = data.shape
    if partitions is None:
        partitions = [list(range(n))]
    udf.meta = _Meta(data.dtype, _Shape((n,), (sy, sx)), backend)
    specs = udf.get_result_buffers()
    total = {}
    for name, spec in specs.items():
        assert isinstance(spec, _BufferSpec) and spec.kind == "nav"
        total[name] = np.zeros((n,) + spec.extra_shape, dtype=spec.dtype)
    aux = _aux_params(udf)
    for part in partitions:
        part = list(part)
        bufs = {name: np.zeros((len(part),) + spec.extra_shape, dtype=spec.dtype) for name, spec in specs.items()}
        for a in aux:
            a.view = a.flat[part]
        udf.task_data = _TaskData(udf.get_task_data())

        def frame_view(name, lo, hi, single):
            b = bufs[name]
            if single:
                return b[lo] if specs[name].extra_shape else b[lo:lo + 1]
            return b[lo:hi]
        if hasattr(udf, "process_frame"):
            for j, f in enumerate(part):
                for name in specs:
                    setattr(udf.results, name, frame_view(name, j, j + 1, True))
                for a in aux:
                    a.view = a.flat[f]
                udf.meta.slice = _SigSlice((0, 0), (sy, sx))
                frame = data[f]
                if backend == UDF.BACKEND_SPARSE_COO:
                    import sparse
                    frame = sparse.COO.from_numpy(frame)
                udf.process_frame(frame)
        elif hasattr(udf, "process_tile"):
            tiles = tiling or [((0, 0), (sy, sx))]
            for lo in range(0, len(part), tile_depth):
                hi = min(lo + tile_depth, len(part))
                for origin, shape in tiles:
                    for name in specs:
                        setattr(udf.results, name, frame_view(name, lo, hi, False))
                    for a in aux:
                        a.view = a.flat[part[lo:hi]]
                    udf.meta.slice = _SigSlice(origin, shape)
                    tile = data[part[lo:hi]][:, origin[0]:origin[0] + shape[0], origin[1]:origin[1] + shape[1]]
                    udf.process_tile(tile)
        else:
            raise TypeError("UDF has neither process_frame nor process_tile")
        for name in specs:
            setattr(udf.results, name, bufs[name])
        for a in aux:
            a.view = a.flat[part]
        udf.postprocess()
        for name in specs:
            total[name][part] = bufs[name]
        for a in aux:
            a.view = None
    return {name: ResultWrapper(arr) for name, arr in total.items()}


class Context:
    def __init__(self, partitions=None, tiling=None, backend=UDF.BACKEND_NUMPY, tile_depth=1):
        self.partitions, self.tiling, self.backend, self.tile_depth = partitions, tiling, backend, tile_depth

    def run_udf(self, dataset, udf, **kwargs):
        data = dataset.data
        data = data.reshape((-1,) + tuple(dataset.shape.sig))
        return run_udf(udf, data, partitions=kwargs.get("partitions", self.partitions),
                       tiling=kwargs.get("tiling", self.tiling), backend=kwargs.get("backend", self.backend),
                       tile_depth=kwargs.get("tile_depth", self.tile_depth))
