from .base import UDF  # noqa: F401
