import numpy as np


class _Shape:
    def __init__(self, nav, sig):
        self.nav = tuple(nav)
        self.sig = tuple(sig)

    def __iter__(self):
        return iter(self.nav + self.sig)


class _SigSlice:
    """signal part of a tile slice: origin and shape in the signal plane"""

    def __init__(self, origin, shape):
        self.origin = tuple(origin)
        self.shape = tuple(shape)

    def slices(self):
        return tuple(slice(o, o + s) for o, s in zip(self.origin, self.shape))


class _Meta:
    def __init__(self, input_dtype, dataset_shape, array_backend):
        self.input_dtype = np.dtype(input_dtype)
        self.dataset_shape = dataset_shape
        self.array_backend = array_backend
        self.slice = None


class AuxBufferWrapper:
    def __init__(self, data, kind, extra_shape, dtype):
        self.data = np.asarray(data, dtype=dtype)
        self.kind = kind
        self.extra_shape = tuple(extra_shape)
        self.view = None    # set by the runner: frame view or partition view

    @property
    def flat(self):
        return self.data.reshape((-1,) + self.extra_shape)


class _BufferSpec:
    def __init__(self, kind, extra_shape, dtype):
        self.kind, self.extra_shape, self.dtype = kind, tuple(extra_shape), np.dtype(dtype)


class _Params:
    def __init__(self, d):
        object.__setattr__(self, "_d", d)

    def __getattr__(self, name):
        d = object.__getattribute__(self, "_d")
        if name not in d:
            raise AttributeError(name)
        v = d[name]
        if isinstance(v, AuxBufferWrapper):
            return v.view if v.view is not None else v.flat
        return v

    def get(self, name, default=None):
        d = object.__getattribute__(self, "_d")
        return getattr(self, name) if name in d else default


class _Views:
    def __init__(self):
        object.__setattr__(self, "_v", {})

    def __getattr__(self, name):
        try:
            return object.__getattribute__(self, "_v")[name]
        except KeyError:
            raise AttributeError(name)

    def __setattr__(self, name, value):
        object.__getattribute__(self, "_v")[name] = value


class _TaskData:
    def __init__(self, d):
        self.__dict__.update(d)


class UDF:
    BACKEND_NUMPY = "numpy"
    BACKEND_CUPY = "cupy"
    BACKEND_SPARSE_COO = "sparse.COO"
    BACKEND_SPARSE_GCXS = "sparse.GCXS"

    def __init__(self, *args, **kwargs):
        if args:
            raise TypeError("UDF parameters have to be keyword arguments")
        self.params = _Params(dict(kwargs))
        self.results = _Views()
        self.task_data = None
        self.meta = None
        self.xp = np

    @classmethod
    def aux_data(cls, data, kind, extra_shape=(), dtype="float32"):
        return AuxBufferWrapper(data, kind, extra_shape, dtype)

    def buffer(self, kind, extra_shape=(), dtype="float32", **kw):
        return _BufferSpec(kind, extra_shape, dtype)

    def forbuf(self, arr, target):
        if hasattr(arr, "todense"):
            arr = arr.todense()
        return np.asarray(arr)

    def get_task_data(self):
        return {}

    def postprocess(self):
        pass

    def get_backends(self):
        return (self.BACKEND_NUMPY,)
