"""CLI of the T-layer: regenerate lean/BlobfinderModel/Gen from /repo's working tree.
  translate.py             regenerate, print fragment status (exit 3 if any is not ok)
  translate.py --baseline  additionally store the generated texts as the fallback baseline
"""
import os
import sys

sys.path.insert(0, os.path.dirname(os.path.abspath(__file__)))
import trcore  # noqa: E402
import fragments  # noqa: E402,F401  (registers the fragments)

if __name__ == "__main__":
    st = trcore.generate()
    if "--baseline" in sys.argv:
        trcore.write_baseline(st)
    for name, s in st.items():
        print(f"{s['file']:10s} {name:28s} {s['status']} {s['reason']}")
    sys.exit(0 if all(s["status"] == "ok" for s in st.values()) else 3)
