"""T-layer: restricted Python-AST -> Lean 4 translator for the scalar / index / decision
logic of libertem_blobfinder.

Every run re-reads /repo's *working tree* and regenerates lean/BlobfinderModel/Gen/*.lean.
Property theorems are stated about these generated definitions, so `lake build` re-proves
them against what the code says now.

A fragment that cannot be found or leaves the supported subset is reported as
`missing` / `untranslatable`; the baseline text (harness/gen_baseline/<Name>.json) is
emitted instead so that unrelated properties keep building, and every property that
depends on the fragment treats its tie as broken (-> failing-input search).
"""
from __future__ import annotations

import ast
import json
import re
import os
import sys
from fractions import Fraction

REPO = os.environ.get("VERIF_REPO", "/repo")
SRC = os.path.join(REPO, "src", "libertem_blobfinder")
HERE = os.path.dirname(os.path.abspath(__file__))
LEAN = os.path.join(os.path.dirname(HERE), "lean")
GEN_DIR = os.path.join(LEAN, "BlobfinderModel", "Gen")
BASELINE_DIR = os.path.join(HERE, "gen_baseline")


class Untranslatable(Exception):
    pass


class Missing(Exception):
    pass


# --------------------------------------------------------------------------------------
# source access
# --------------------------------------------------------------------------------------

_trees = {}


def tree(relpath):
    if relpath not in _trees:
        path = os.path.join(SRC, relpath)
        try:
            with open(path) as f:
                mod = ast.parse(f.read())
        except (OSError, SyntaxError) as e:
            raise Missing(f"{relpath}: {e}")
        # step 0 (canon.py): a function that is, in canonical form, identical to its baseline version is handed to the
        # extractors as the baseline AST; anything else is left exactly as the working tree has it
        try:
            import canon
            mod = canon.normalise(relpath, mod)
        except Exception as e:      # the canonicaliser must never be the reason a fragment is lost
            sys.stderr.write(f"canon: {relpath}: {type(e).__name__}: {e}\n")
        _trees[relpath] = mod
    return _trees[relpath]


def find_def(relpath, qualname):
    """FunctionDef / ClassDef by dotted name, nested defs included (BFS: outermost first)."""
    node = tree(relpath)
    for part in qualname.split("."):
        found = None
        for child in ast.walk(node):
            if child is not node and isinstance(child, (ast.FunctionDef, ast.ClassDef)) \
                    and child.name == part:
                found = child
                break
        if found is None:
            raise Missing(f"{relpath}:{qualname} ({part} not found)")
        node = found
    return node


def stmts_of(fn):
    """Body without the docstring."""
    body = fn.body
    if body and isinstance(body[0], ast.Expr) and isinstance(body[0].value, ast.Constant) \
            and isinstance(body[0].value.value, str):
        body = body[1:]
    return body


# --------------------------------------------------------------------------------------
# expressions
# --------------------------------------------------------------------------------------

INT, RAT, BOOL, OPTINT = "Int", "Rat", "Bool", "Option Int"


def rat_lit(v):
    fr = Fraction(v)
    if fr.denominator == 1:
        return f"({fr.numerator} : Rat)"
    return f"(({fr.numerator} : Rat) / {fr.denominator})"


class Env:
    """subst: ast.unparse(text) -> (lean_text, type).  Plain names not in subst must be in
    `vars` (name -> (lean_name, type))."""

    def __init__(self, subst=None, vars=None, default=INT):
        self.subst = dict(subst or {})
        self.vars = dict(vars or {})
        self.default = default
        self.counter = {}

    def copy(self):
        e = Env(self.subst, self.vars, self.default)
        e.counter = self.counter
        return e

    def fresh(self, name):
        n = self.counter.get(name, 0)
        self.counter[name] = n + 1
        return name if n == 0 else f"{name}_{n}"


def unify_num(ta, tb):
    if ta == tb:
        return ta
    if {ta, tb} == {INT, RAT}:
        return RAT
    raise Untranslatable(f"type mismatch {ta} / {tb}")


def coerce(txt, t, target):
    if t == target:
        return txt
    if t == INT and target == RAT:
        m = re.fullmatch(r"\((\d+) : Int\)", txt)
        if m:
            return f"({m.group(1)} : Rat)"
        m = re.fullmatch(r"\(-\((\d+) : Int\)\)", txt) or re.fullmatch(r"\(-(\d+) : Int\)", txt)
        if m:
            return f"(-{m.group(1)} : Rat)"
        return f"(({txt} : Int) : Rat)"
    if t == INT and target == OPTINT:
        return f"(some {txt})"
    raise Untranslatable(f"cannot coerce {t} -> {target}")


def tr(node, env):
    """-> (lean_text, type)"""
    key = ast.unparse(node)
    if key in env.subst:
        return env.subst[key]
    if isinstance(node, ast.Constant):
        v = node.value
        if v is None:
            return ("(none : Option Int)", OPTINT)
        if isinstance(v, bool):
            return ("true" if v else "false", BOOL)
        if isinstance(v, int):
            return (f"({v} : Int)" if v >= 0 else f"(-{-v} : Int)", INT)
        if isinstance(v, float):
            if v != v or v in (float("inf"), float("-inf")):
                raise Untranslatable(f"non-finite literal {v}")
            return (rat_lit(v), RAT)
        raise Untranslatable(f"constant {v!r}")
    if isinstance(node, ast.Name):
        if node.id in env.vars:
            return env.vars[node.id]
        raise Untranslatable(f"unknown name {node.id}")
    if isinstance(node, ast.UnaryOp):
        a, ta = tr(node.operand, env)
        if isinstance(node.op, ast.USub):
            if ta not in (INT, RAT):
                raise Untranslatable("neg of non-number")
            return (f"(-{a})", ta)
        if isinstance(node.op, ast.Not):
            if ta != BOOL:
                raise Untranslatable("not of non-bool")
            return (f"(!{a})", BOOL)
        if isinstance(node.op, ast.UAdd):
            return (a, ta)
        raise Untranslatable("unary op")
    if isinstance(node, ast.BinOp):
        a, ta = tr(node.left, env)
        b, tb = tr(node.right, env)
        op = node.op
        if isinstance(op, ast.Pow):
            if isinstance(node.right, ast.Constant) and isinstance(node.right.value, int) \
                    and 0 <= node.right.value <= 4:
                return (f"({a} ^ {node.right.value})", ta)
            raise Untranslatable("power with non-literal exponent")
        if isinstance(op, (ast.Add, ast.Sub, ast.Mult)):
            t = unify_num(ta, tb)
            sym = {ast.Add: "+", ast.Sub: "-", ast.Mult: "*"}[type(op)]
            return (f"({coerce(a, ta, t)} {sym} {coerce(b, tb, t)})", t)
        if isinstance(op, ast.Div):
            return (f"({coerce(a, ta, RAT)} / {coerce(b, tb, RAT)})", RAT)
        if isinstance(op, ast.FloorDiv):
            if ta == INT and tb == INT:
                return (f"(Int.fdiv {a} {b})", INT)
            raise Untranslatable("floor division of non-integers")
        if isinstance(op, ast.Mod):
            if ta == INT and tb == INT:
                return (f"(Int.fmod {a} {b})", INT)
            raise Untranslatable("mod of non-integers")
        raise Untranslatable(f"binary op {type(op).__name__}")
    if isinstance(node, ast.BoolOp):
        parts = [tr(v, env) for v in node.values]
        if any(t != BOOL for _, t in parts):
            raise Untranslatable("bool op on non-bools")
        sym = " && " if isinstance(node.op, ast.And) else " || "
        return ("(" + sym.join(p for p, _ in parts) + ")", BOOL)
    if isinstance(node, ast.Compare):
        items = [node.left] + list(node.comparators)
        out = []
        for op, l, r in zip(node.ops, items, items[1:]):
            a, ta = tr(l, env)
            b, tb = tr(r, env)
            if isinstance(op, ast.Is) or isinstance(op, ast.IsNot):
                raise Untranslatable("is-comparison")
            t = unify_num(ta, tb) if ta != BOOL else BOOL
            a, b = coerce(a, ta, t), coerce(b, tb, t)
            sym = {ast.Lt: "<", ast.LtE: "≤", ast.Gt: ">", ast.GtE: "≥",
                   ast.Eq: "=", ast.NotEq: "≠"}.get(type(op))
            if sym is None:
                raise Untranslatable("comparison op")
            out.append(f"decide ({a} {sym} {b})")
        return ("(" + " && ".join(out) + ")", BOOL)
    if isinstance(node, ast.IfExp):
        c = tr_prop(node.test, env)
        a, ta = tr(node.body, env)
        b, tb = tr(node.orelse, env)
        if OPTINT in (ta, tb) and {ta, tb} <= {OPTINT, INT}:
            t = OPTINT
        else:
            t = unify_num(ta, tb)
        return (f"(if {c} then {coerce(a, ta, t)} else {coerce(b, tb, t)})", t)
    if isinstance(node, ast.Call):
        fn = ast.unparse(node.func)
        args = node.args
        if node.keywords:
            raise Untranslatable(f"keyword arguments in call {fn}")
        if fn in ("min", "max", "np.minimum", "np.maximum"):
            base = "min" if fn in ("min", "np.minimum") else "max"
            if len(args) == 1 and isinstance(args[0], ast.Tuple):
                args = args[0].elts
            parts = [tr(a, env) for a in args]
            t = parts[0][1]
            for _, tt in parts[1:]:
                t = unify_num(t, tt)
            op = base if t == INT else f"Model.r{base}"
            acc = coerce(parts[0][0], parts[0][1], t)
            for p, tp in parts[1:]:
                acc = f"({op} {acc} {coerce(p, tp, t)})"
            return (acc, t)
        if fn in ("abs", "np.abs", "np.absolute") and len(args) == 1:
            a, ta = tr(args[0], env)
            if ta == RAT:
                return (f"(Model.rabs {a})", RAT)
            return (f"(if {a} < 0 then -{a} else {a})", ta)
        if fn == "int" and len(args) == 1:
            a, ta = tr(args[0], env)
            if ta == INT:
                return (a, INT)
            if ta == BOOL:
                return (f"(if {a} then (1 : Int) else 0)", INT)
            if ta == RAT:  # truncation toward zero
                return (f"(if {a} < 0 then -((-{a}).floor) else ({a}).floor)", INT)
        if fn in ("np.ceil",) and len(args) == 1:
            a, ta = tr(args[0], env)
            if ta == INT:
                return (a, INT)
            return (f"(({a}).ceil)", INT)
        if fn in ("np.floor",) and len(args) == 1:
            a, ta = tr(args[0], env)
            if ta == INT:
                return (a, INT)
            return (f"(({a}).floor)", INT)
        if fn in ("np.fix", "np.trunc") and len(args) == 1:
            a, ta = tr(args[0], env)
            if ta == INT:
                return (a, INT)
            return (f"(if {a} < 0 then -((-{a}).floor) else ({a}).floor)", INT)
        if fn in ("np.float32", "np.float64", "float") and len(args) == 1:
            return tr(args[0], env)
        raise Untranslatable(f"call {fn}")
    if isinstance(node, ast.Subscript) or isinstance(node, ast.Attribute):
        raise Untranslatable(f"unmapped reference {key}")
    raise Untranslatable(f"expression {type(node).__name__}: {key}")


def tr_prop(node, env):
    """Translate a test to a Lean `Prop` (decidable): used for `if` conditions so that the
    generated code has no `decide` wrappers there."""
    key = ast.unparse(node)
    if key in env.subst and env.subst[key][1] == BOOL:
        return f"({env.subst[key][0]} = true)"
    if isinstance(node, ast.BoolOp):
        sym = " ∧ " if isinstance(node.op, ast.And) else " ∨ "
        return "(" + sym.join(tr_prop(v, env) for v in node.values) + ")"
    if isinstance(node, ast.UnaryOp) and isinstance(node.op, ast.Not):
        return f"(¬ {tr_prop(node.operand, env)})"
    if isinstance(node, ast.Compare):
        items = [node.left] + list(node.comparators)
        out = []
        for op, l, r in zip(node.ops, items, items[1:]):
            a, ta = tr(l, env)
            b, tb = tr(r, env)
            t = unify_num(ta, tb) if ta != BOOL else BOOL
            a, b = coerce(a, ta, t), coerce(b, tb, t)
            sym = {ast.Lt: "<", ast.LtE: "≤", ast.Gt: ">", ast.GtE: "≥",
                   ast.Eq: "=", ast.NotEq: "≠"}.get(type(op))
            if sym is None:
                raise Untranslatable("comparison op")
            out.append(f"{a} {sym} {b}")
        return "(" + " ∧ ".join(out) + ")"
    txt, t = tr(node, env)
    if t != BOOL:
        raise Untranslatable("test is not bool")
    return f"({txt} = true)"


# --------------------------------------------------------------------------------------
# straight-line blocks (Assign / AugAssign / If reassigning locals / Return)
# --------------------------------------------------------------------------------------

def assigned_names(stmts):
    out = []
    for s in stmts:
        if isinstance(s, ast.Assign):
            for t in s.targets:
                if isinstance(t, ast.Name):
                    out.append(t.id)
                elif isinstance(t, ast.Tuple):
                    out += [e.id for e in t.elts if isinstance(e, ast.Name)]
        elif isinstance(s, ast.AugAssign) and isinstance(s.target, ast.Name):
            out.append(s.target.id)
        elif isinstance(s, ast.If):
            out += assigned_names(s.body) + assigned_names(s.orelse)
    seen = []
    for n in out:
        if n not in seen:
            seen.append(n)
    return seen


def tr_block(stmts, env, skip=(), stop_at_return=True):
    """Translate statements to a list of `let` lines, updating env.vars.
    Returns (lines, return_expr_or_None)."""
    lines = []
    for s in stmts:
        src = ast.unparse(s)
        if any(src.startswith(p) for p in skip):
            continue
        if isinstance(s, ast.Return):
            if s.value is None:
                raise Untranslatable("bare return")
            return lines, tr(s.value, env)
        if isinstance(s, ast.Assign):
            val = tr(s.value, env)
            for t in s.targets:
                if not isinstance(t, ast.Name):
                    raise Untranslatable(f"assignment target {ast.unparse(t)}")
                ln = env.fresh(t.id)
                lines.append(f"let {ln} : {val[1]} := {val[0]}")
                env.vars[t.id] = (ln, val[1])
                val = (ln, val[1])
            continue
        if isinstance(s, ast.AugAssign):
            if not isinstance(s.target, ast.Name):
                raise Untranslatable("augmented assignment target")
            fake = ast.BinOp(left=ast.Name(id=s.target.id, ctx=ast.Load()), op=s.op, right=s.value)
            val = tr(fake, env)
            ln = env.fresh(s.target.id)
            lines.append(f"let {ln} : {val[1]} := {val[0]}")
            env.vars[s.target.id] = (ln, val[1])
            continue
        if isinstance(s, ast.If):
            c = tr_prop(s.test, env)
            names = assigned_names([s])
            e1, e2 = env.copy(), env.copy()
            e1.vars, e2.vars = dict(env.vars), dict(env.vars)
            l1, r1 = tr_block(s.body, e1, skip)
            l2, r2 = tr_block(s.orelse, e2, skip)
            if r1 is not None or r2 is not None:
                raise Untranslatable("return inside if")
            for n in names:
                if n not in e1.vars or n not in e2.vars:
                    raise Untranslatable(f"{n} not defined on every path")
            types = []
            for n in names:
                t1, t2 = e1.vars[n][1], e2.vars[n][1]
                if t1 == t2:
                    types.append(t1)
                elif OPTINT in (t1, t2) and INT in (t1, t2):
                    types.append(OPTINT)
                else:
                    types.append(unify_num(t1, t2))

            def branch(ls, e):
                vals = [coerce(e.vars[n][0], e.vars[n][1], t) for n, t in zip(names, types)]
                tup = vals[0] if len(vals) == 1 else "(" + ", ".join(vals) + ")"
                return "(" + " ".join(x + ";" for x in ls) + " " + tup + ")"
            new = [env.fresh(n) for n in names]
            pat = new[0] if len(new) == 1 else "(" + ", ".join(new) + ")"
            ty = types[0] if len(types) == 1 else " × ".join(f"({t})" if " " in t else t for t in types)
            lines.append(f"let {pat} : {ty} := if {c} then {branch(l1, e1)} else {branch(l2, e2)}")
            for n, ln, t in zip(names, new, types):
                env.vars[n] = (ln, t)
            continue
        raise Untranslatable(f"statement {type(s).__name__}: {src[:60]}")
    return lines, None


def lean_def(name, params, ret_type, lines, ret, doc=None):
    ps = " ".join(f"({n} : {t})" for n, t in params)
    body = "\n".join("  " + ln for ln in lines + [ret])
    d = f"/-- {doc} -/\n" if doc else ""
    return f"{d}def {name} {ps} : {ret_type} :=\n{body}\n"


def fn_to_def(relpath, qualname, lean_name, params, subst=None, skip=(), ret_type=None,
              extra_vars=None, doc=None):
    """Whole (straight-line) function body -> Lean def."""
    fn = find_def(relpath, qualname)
    env = Env(subst=subst, vars={n: (n, t) for n, t in params})
    if extra_vars:
        env.vars.update(extra_vars)
    for n, _ in params:
        env.counter[n] = 1
    lines, ret = tr_block(stmts_of(fn), env, skip)
    if ret is None:
        raise Untranslatable(f"{qualname}: no return")
    rt = ret_type or ret[1]
    return lean_def(lean_name, params, rt, lines, coerce(ret[0], ret[1], rt),
                    doc or f"generated from `{relpath}:{qualname}`")


# --------------------------------------------------------------------------------------
# helpers to locate statements
# --------------------------------------------------------------------------------------

def find_assign(fn, target, nth=0, within=None):
    """n-th `target = ...` (by source order) anywhere inside fn (or inside `within`)."""
    hits = []
    for node in ast.walk(within or fn):
        if isinstance(node, ast.Assign):
            for t in node.targets:
                if ast.unparse(t) == target:
                    hits.append(node)
    hits.sort(key=lambda n: (n.lineno, n.col_offset))
    if len(hits) <= nth:
        raise Missing(f"assignment to {target} #{nth} in {fn.name}")
    return hits[nth]


def find_calls(node, func_text):
    out = [n for n in ast.walk(node) if isinstance(n, ast.Call) and ast.unparse(n.func) == func_text]
    out.sort(key=lambda n: (n.lineno, n.col_offset))
    return out


def expr_def(lean_name, params, node, subst=None, ret_type=None, doc=None, extra_vars=None):
    env = Env(subst=subst, vars={n: (n, t) for n, t in params})
    if extra_vars:
        env.vars.update(extra_vars)
    txt, t = tr(node, env)
    rt = ret_type or t
    return lean_def(lean_name, params, rt, [], coerce(txt, t, rt), doc)


def default_of(fn, argname):
    args = fn.args
    names = [a.arg for a in args.args]
    defaults = args.defaults
    off = len(names) - len(defaults)
    if argname in names:
        i = names.index(argname) - off
        if i >= 0:
            return defaults[i]
    for a, d in zip(args.kwonlyargs, args.kw_defaults):
        if a.arg == argname and d is not None:
            return d
    raise Missing(f"default of {argname} in {fn.name}")


# --------------------------------------------------------------------------------------
# fragment registry
# --------------------------------------------------------------------------------------

FRAGMENTS = []  # (gen_file, frag_name, callable -> lean text)


def fragment(gen_file, name):
    def deco(f):
        FRAGMENTS.append((gen_file, name, f))
        return f
    return deco




HEADER = """/-
GENERATED by harness/translate.py from /repo/src/libertem_blobfinder (working tree).
Do not edit: rewritten on every run of every check.
-/
set_option linter.unusedVariables false
"""
GEN_IMPORTS = {}  # gen_file -> list of modules to import


def file_header(gen_file):
    imps = "".join(f"import {m}\n" for m in GEN_IMPORTS.get(gen_file, []))
    return imps + HEADER


def generate(write=True, own=None):
    """-> status dict {frag: {status, reason, file}}; writes Gen/<File>.lean.
    `own`: the fragments the calling check depends on.  Every other fragment is emitted with its baseline text, so that
    a change in code the property does not depend on can neither break this check's build nor its tie (the checks that
    list that fragment see it)."""
    os.makedirs(GEN_DIR, exist_ok=True)
    status = {}
    files = {}
    for gen_file, name, f in FRAGMENTS:
        try:
            txt = f()
            st = {"status": "ok", "reason": ""}
        except Missing as e:
            txt, st = None, {"status": "missing", "reason": str(e)}
        except Untranslatable as e:
            txt, st = None, {"status": "untranslatable", "reason": str(e)}
        except Exception as e:  # translator bug or exotic source: same handling
            txt, st = None, {"status": "untranslatable", "reason": f"{type(e).__name__}: {e}"}
        st["file"] = gen_file
        if own is not None and name not in own:
            base = baseline_text(gen_file, name)
            if base is not None:
                if txt != base:
                    st = {"status": "ok", "reason": "", "file": gen_file, "foreign": "baseline text used (source differs)"}
                txt = base
        if txt is None:
            txt = baseline_text(gen_file, name)
            st["fallback"] = "baseline" if txt is not None else "none"
            if txt is None:
                txt = f"-- fragment {name}: {st['status']} ({st['reason']}) and no baseline\n"
        status[name] = st
        st["text"] = txt
        files.setdefault(gen_file, []).append((name, txt))
    if write:
        for gen_file, frags in files.items():
            body = file_header(gen_file) + "namespace Gen\n\n" + "\n".join(t for _, t in frags) + "\nend Gen\n"
            path = os.path.join(GEN_DIR, gen_file + ".lean")
            old = None
            if os.path.exists(path):
                with open(path) as fh:
                    old = fh.read()
            if old != body:
                with open(path, "w") as fh:
                    fh.write(body)
    return status


def baseline_text(gen_file, name):
    path = os.path.join(BASELINE_DIR, gen_file + ".json")
    if not os.path.exists(path):
        return None
    with open(path) as f:
        return json.load(f).get(name)


def write_baseline(status):
    os.makedirs(BASELINE_DIR, exist_ok=True)
    # the sources the baseline was generated from (canon.py compares the working tree with them)
    import shutil
    src_base = os.path.join(HERE, "src_baseline")
    shutil.rmtree(src_base, ignore_errors=True)
    for root, _, files in os.walk(SRC):
        for fn in files:
            if fn.endswith(".py"):
                rel = os.path.relpath(os.path.join(root, fn), SRC)
                os.makedirs(os.path.dirname(os.path.join(src_base, rel)), exist_ok=True)
                shutil.copy(os.path.join(root, fn), os.path.join(src_base, rel))
    per_file = {}
    for name, st in status.items():
        if st["status"] != "ok":
            raise SystemExit(f"cannot write a baseline: fragment {name} is {st['status']}: {st['reason']}")
        per_file.setdefault(st["file"], {})[name] = st["text"]
    for gen_file, d in per_file.items():
        with open(os.path.join(BASELINE_DIR, gen_file + ".json"), "w") as f:
            json.dump(d, f, indent=1, sort_keys=True)


def restore_file_to_baseline(gen_file):
    """Used when a generated file does not type-check: emit the whole baseline file."""
    path = os.path.join(BASELINE_DIR, gen_file + ".json")
    with open(path) as f:
        d = json.load(f)
    order = [n for g, n, _ in FRAGMENTS if g == gen_file]
    body = file_header(gen_file) + "namespace Gen\n\n" + "\n".join(d[n] for n in order if n in d) + "\nend Gen\n"
    with open(os.path.join(GEN_DIR, gen_file + ".lean"), "w") as fh:
        fh.write(body)


