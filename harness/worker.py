"""Worker process: runs a property module's oracle (`run_case`) on cases read from stdin (one JSON per line) in a
different execution mode of the numba kernels (NUMBA_BOUNDSCHECK=1 / NUMBA_DISABLE_JIT=1 set by the parent)."""
import importlib
import json
import os
import sys
import traceback

HERE = os.path.dirname(os.path.abspath(__file__))
sys.path.insert(0, HERE)
if os.environ.get("VERIF_REPO"):  # development only: run against another checkout of the repository
    sys.path.insert(0, os.path.join(os.environ["VERIF_REPO"], "src"))
if os.path.isdir(os.path.join(HERE, "stubs")):
    sys.path.insert(0, os.path.join(HERE, "stubs"))
import common  # noqa: E402

mod = importlib.import_module(f"props.{sys.argv[1]}")
for line in sys.stdin:
    case = common.unjson(json.loads(line))
    try:
        msgs = mod.run_case(case["kind"], case["params"])
    except Exception as e:
        msgs = [f"worker: {type(e).__name__}: {e} :: {traceback.format_exc()[-300:]}"]
    sys.stdout.write(json.dumps(msgs) + "\n")
    sys.stdout.flush()
