import BlobfinderModel.Properties.C13
