import BlobfinderModel.Properties.C13
import BlobfinderModel.Properties.C08
import BlobfinderModel.Properties.C09
