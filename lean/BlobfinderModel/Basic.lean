def hello := "world"
