import BlobfinderModel.Gen.Blocks
/-
Model of the block loops of `process_frame_fast` / `process_frame_full`.
The arithmetic (`block_count`, `start`, `stop`, `size`) is generated from the source.
The loop is modelled over index-functions: processing block `k` assigns, for every peak index
`i` with `start ≤ i < stop`, the value `f (peaks i)` to the output entry `i` (the code's
`out[start:stop]`, `peaks[start:stop]`, `crop_bufs[:size]` wiring is pinned by the
`Gen.*_slices` fingerprint); `f` is the per-crop pipeline, abstract here.
-/
namespace Model

structure BlockArith where
  blockCount : Int → Int → Int           -- n_peaks buf_count
  start : Int → Int → Int → Int          -- n_peaks buf_count block
  stop : Int → Int → Int → Int
  size : Int → Int → Int                 -- start stop

def fastArith : BlockArith :=
  { blockCount := Gen.fast_block_count, start := Gen.fast_start, stop := Gen.fast_stop,
    size := Gen.fast_size }

def fullArith : BlockArith :=
  { blockCount := Gen.full_block_count, start := Gen.full_start, stop := Gen.full_stop,
    size := Gen.full_size }

/-- one iteration of the block loop -/
def blockStep {α β : Type} (A : BlockArith) (f : α → β) (peaks : Int → α) (n b : Int)
    (out : Int → β) (k : Int) : Int → β :=
  fun i => if A.start n b k ≤ i ∧ i < A.stop n b k then f (peaks i) else out i

/-- the first `m` iterations -/
def runBlocksN {α β : Type} (A : BlockArith) (f : α → β) (peaks : Int → α) (n b : Int)
    (out : Int → β) : Nat → Int → β
  | 0 => out
  | m + 1 => blockStep A f peaks n b (runBlocksN A f peaks n b out m) (m : Int)

/-- the whole loop `for block in range(block_count)` -/
def runBlocks {α β : Type} (A : BlockArith) (f : α → β) (peaks : Int → α) (n b : Int)
    (out : Int → β) : Int → β :=
  runBlocksN A f peaks n b out (A.blockCount n b).toNat

/-- the schedule, for the correspondence: list of (start, stop, size) -/
def schedule (A : BlockArith) (n b : Int) : List (Int × Int × Int) :=
  (List.range (A.blockCount n b).toNat).map fun (k : Nat) =>
    let s := A.start n b k
    let e := A.stop n b k
    (s, e, A.size s e)

end Model
