import BlobfinderModel.Gen.Crop
import BlobfinderModel.Model.Slice
/-
Model of the two cropping back-ends.  Scalar logic comes from `Gen` (re-generated from the
source on every run); the array skeleton (loop nest = tabulation, slice assignment) is
hand-written and tied to the code by the correspondence harness.
-/
namespace Model

/-- The specification of C13: frame value inside the frame, zero outside. -/
def window {α : Type} [OfNat α 0] (frame : Int → Int → α) (fy fx yy xx : Int) : α :=
  if 0 ≤ yy ∧ yy < fy ∧ 0 ≤ xx ∧ xx < fx then frame yy xx else 0

/-- per-pixel back-end: cell `(y, x)` of the crop for peak `(p0, p1)` -/
def cropPixel {α : Type} [OfNat α 0] (frame : Int → Int → α) (fy fx c p0 p1 y x : Int) : α :=
  Gen.crop_cell frame fy fx c p0 p1 y x

/-- normalised bounds of the slice assignment of the slicing back-end -/
structure NormBounds where
  tyl : Int
  tyh : Int
  txl : Int
  txh : Int
  syl : Int
  syh : Int
  sxl : Int
  sxh : Int
deriving Repr

def normBounds (fy fx c p0 p1 h w : Int) : NormBounds :=
  let b := Gen.sl_bounds fy fx c p0 p1 h w
  { tyl := pySliceLo h b.t_y_lo, tyh := pySliceHi h b.t_y_hi,
    txl := pySliceLo w b.t_x_lo, txh := pySliceHi w b.t_x_hi,
    syl := pySliceLo fy b.s_y_lo, syh := pySliceHi fy b.s_y_hi,
    sxl := pySliceLo fx b.s_x_lo, sxh := pySliceHi fx b.s_x_hi }

/-- NumPy accepts `target[...] = source` iff the shapes agree (or broadcast from length 1);
the model demands equality, which is what the theorem `cropSlice_shapes_ok` proves. -/
def cropSliceShapesOk (fy fx c p0 p1 h w : Int) : Bool :=
  let n := normBounds fy fx c p0 p1 h w
  decide (sliceLen n.tyl n.tyh = sliceLen n.syl n.syh) &&
  decide (sliceLen n.txl n.txh = sliceLen n.sxl n.sxh)

/-- slicing back-end with an explicit zero-fill switch (`zf = false` is the pre-repair code, D1) -/
def cropSliceZ {α : Type} [OfNat α 0] (zf : Bool) (old frame : Int → Int → α)
    (fy fx c p0 p1 h w y x : Int) : α :=
  let n := normBounds fy fx c p0 p1 h w
  if n.tyl ≤ y ∧ y < n.tyh ∧ n.txl ≤ x ∧ x < n.txh then
    frame (n.syl + (y - n.tyl)) (n.sxl + (x - n.txl))
  else if zf then 0 else old y x

/-- slicing back-end as the code has it now (`Gen.sl_zero_fill`) -/
def cropSlice {α : Type} [OfNat α 0] (old frame : Int → Int → α)
    (fy fx c p0 p1 h w y x : Int) : α :=
  cropSliceZ Gen.sl_zero_fill old frame fy fx c p0 p1 h w y x

end Model
