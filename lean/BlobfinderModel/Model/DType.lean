/-
Integer / float dtypes of NumPy relevant to the frame data, their ranges and the promotion
`np.result_type(dtype, np.float32)` (table compared with the live NumPy by the harness).
-/
namespace Model

inductive DType where
  | u1 | u2 | u4 | u8 | i1 | i2 | i4 | i8 | f4 | f8
deriving Repr, DecidableEq

def DType.isInt : DType → Bool
  | .f4 | .f8 => false
  | _ => true

def DType.bits : DType → Nat
  | .u1 | .i1 => 8
  | .u2 | .i2 => 16
  | .u4 | .i4 | .f4 => 32
  | .u8 | .i8 | .f8 => 64

def DType.signed : DType → Bool
  | .u1 | .u2 | .u4 | .u8 => false
  | _ => true

/-- value range of an integer dtype -/
def DType.lo (d : DType) : Int := if d.signed then -(2 ^ (d.bits - 1) : Int) else 0
def DType.hi (d : DType) : Int := if d.signed then 2 ^ (d.bits - 1) - 1 else 2 ^ d.bits - 1

/-- `np.result_type(d, np.float32)` -/
def promote : DType → DType
  | .u1 | .u2 | .i1 | .i2 | .f4 => .f4
  | _ => .f8

/-- mantissa bits (incl. the hidden one) of a float dtype -/
def mantissa : DType → Nat
  | .f4 => 24
  | .f8 => 53
  | _ => 0

/-- an integer is exactly representable in float dtype `f` if its magnitude is at most 2^mantissa -/
def exactIn (f : DType) (n : Int) : Prop := -(2 ^ mantissa f : Int) ≤ n ∧ n ≤ 2 ^ mantissa f

/-- arithmetic *in* an integer dtype wraps around -/
def wrap (d : DType) (v : Int) : Int :=
  if d.signed then (v + 2 ^ (d.bits - 1)) % 2 ^ d.bits - 2 ^ (d.bits - 1) else v % 2 ^ d.bits

/-- float32 rounding of an integer of magnitude at most 2^25: exact up to 2^24, above that the even integers are
representable and an odd one goes to its neighbour that is a multiple of 4 (ties to even); integers beyond 2^25 are
outside this model (`none`) -/
def f32int (n : Int) : Option Int :=
  if -(2 ^ 24 : Int) ≤ n ∧ n ≤ 2 ^ 24 then some n
  else if -(2 ^ 25 : Int) ≤ n ∧ n ≤ 2 ^ 25 then
    some (if n % 2 = 0 then n else if (n + 1) % 4 = 0 then n + 1 else n - 1)
  else none

/-- the argument of the logarithm in a float32 crop buffer, operations in the order written: `(x - m) + 1` -/
def cropArgF32 (x m : Int) : Option Int :=
  (f32int (x - m)).bind fun d => f32int (d + 1)

/-- the same with the 1 added to the data first: `(x + 1) - m` -/
def cropArgF32PlusFirst (x m : Int) : Option Int :=
  (f32int (x + 1)).bind fun d => f32int (d - m)

def DType.ofString? : String → Option DType
  | "uint8" => some .u1 | "uint16" => some .u2 | "uint32" => some .u4 | "uint64" => some .u8
  | "int8" => some .i1 | "int16" => some .i2 | "int32" => some .i4 | "int64" => some .i8
  | "float32" => some .f4 | "float64" => some .f8
  | _ => none

def DType.name : DType → String
  | .u1 => "uint8" | .u2 => "uint16" | .u4 => "uint32" | .u8 => "uint64"
  | .i1 => "int8" | .i2 => "int16" | .i4 => "int32" | .i8 => "int64"
  | .f4 => "float32" | .f8 => "float64"

end Model
