import BlobfinderModel.Gen.Eval
import BlobfinderModel.Model.Masks
/-
Model of the correlation map and of the evaluation kernels (`evaluate_correlations`,
`refine_center`, `center_of_mass`, `peak_elevation`) in exact rational arithmetic.
Maps are functions `Int → Int → Rat` with explicit dimensions `h w`.
-/
namespace Model

/-! The pieces of the refinement / elevation kernels used by the model below are HAND-WRITTEN (they used to be extracted
piecewise from the source); the tie to the source is the pair of theorems `C03.refine_center_is_generated` /
`C03.evaluate_one_is_generated`, which prove the model built from these pieces equal to the kernels translated as a whole
(`Gen.refine_center`, `Gen.evaluate_one`) on every run. -/
/-- clipped refinement radius of `refine_center` -/
def refine_r (r : Int) (y : Int) (x : Int) (s0 : Int) (s1 : Int) : Int :=
  (min (min (min (min r y) x) ((s0 - y) - (1 : Int))) ((s1 - x) - (1 : Int)))

/-- guard: return the integer centre unrefined -/
def refine_guard (r : Int) : Bool := (decide (r ≤ (0 : Int)))
def cut_lo (c r : Int) : Int := (c - r)
def cut_hi (c r : Int) : Int := ((c + r) + (1 : Int))
def refined_coord (c : Int) (com : Rat) (r : Int) : Rat := ((((c : Int) : Rat) + com) - ((r : Int) : Rat))
/-- refinement radius passed by `evaluate_correlations` -/
def refine_radius : Int := (2 : Int)
/-- default `r_min` of `peak_elevation` (the call in `evaluate_correlations` does not override it) -/
def elev_rmin : Rat := ((3 : Rat) / 2)
def elev_in_range (dist r_min : Rat) : Bool := (decide (dist ≥ r_min))

/-- which source index of the inverse FFT output lands at index `j` after the shift
(`ifftshift` = roll by `-(n//2)`, `fftshift` = roll by `+(n//2)`) -/
def shiftSrc (kind : String) (n j : Int) : Int :=
  if kind = "fft.ifftshift" ∨ kind = "correlation.fft.ifftshift" then (j + n / 2) % n
  else (j - n / 2) % n

/-- 1-D circular convolution as returned by `irfft(rfft(mask) * rfft(data), n)` (assumption A-FFT) -/
def circConv1 (mask data : Int → Rat) (n k : Int) : Rat :=
  lsum ((irange n).map fun m => mask m * data ((k - m) % n))

/-- the correlation map of `do_correlations` / `process_frame_full` at `(y, x)`:
shifted 2-D circular convolution of mask and data -/
def corrMap (kind : String) (mask data : Int → Int → Rat) (h w y x : Int) : Rat :=
  let ky := shiftSrc kind h y
  let kx := shiftSrc kind w x
  lsum ((irange h).map fun my => lsum ((irange w).map fun mx =>
    mask my mx * data ((ky - my) % h) ((kx - mx) % w)))

structure EvalOut where
  cy : Int
  cx : Int
  height : Rat
  ry : Rat
  rx : Rat
  elev2 : Option Rat      -- square of the elevation; `none` = no pixel in range (`inf`)
deriving Repr

/-- `refine_center(center, radius, corrmap)` -/
def refineCenter (corr : Int → Int → Rat) (h w cy cx : Int) (radius : Int) : Rat × Rat :=
  let r := Model.refine_r radius cy cx h w
  if Model.refine_guard r then ((cy : Rat), (cx : Rat)) else
  let lo_y := Model.cut_lo cy r
  let lo_x := Model.cut_lo cx r
  let n := Model.cut_hi cy r - lo_y
  let m := Model.cut_hi cx r - lo_x
  let cut : Int → Int → Rat := fun y x => corr (lo_y + y) (lo_x + x)
  let mn := minList (flat cut n m)
  let s := lsum (flat (fun (y x : Int) => cut y x - mn) n m)
  let sy := lsum (flat (fun (y x : Int) => (cut y x - mn) * (y : Rat)) n m)
  let sx := lsum (flat (fun (y x : Int) => (cut y x - mn) * (x : Rat)) n m)
  (Model.refined_coord cy (sy / s) r, Model.refined_coord cx (sx / s) r)

/-- square of `peak_elevation(refined, corrmap, height)` before the final `max(0, ·)`;
all slopes are non-negative because `height` is the maximum of the map -/
def elevation2 (corr : Int → Int → Rat) (h w : Int) (py px height : Rat) : Option Rat :=
  let cands := (irange h).flatMap fun (y : Int) => (irange w).filterMap fun (x : Int) =>
    let d2 := ((y : Rat) - py) ^ 2 + ((x : Rat) - px) ^ 2
    if Model.elev_rmin * Model.elev_rmin ≤ d2 then some ((height - corr y x) ^ 2 / d2) else none
  match cands with
  | [] => none
  | c :: t => some (t.foldl (fun a b => rmin a b) c)

/-- one iteration of `evaluate_correlations` (window-relative results) -/
def evaluate (corr : Int → Int → Rat) (h w : Int) : EvalOut :=
  let idx : Int := argmaxFirst (flat corr h w)
  let cy := idx / w
  let cx := idx % w
  let height := corr cy cx
  let rf := refineCenter corr h w cy cx Model.refine_radius
  { cy := cy, cx := cx, height := height, ry := rf.1, rx := rf.2,
    elev2 := elevation2 corr h w rf.1 rf.2 height }

end Model
