import BlobfinderModel.Model.Lattice
/-
Model of `Matcher.fastmatch` / `Matcher._match_all` in exact rational arithmetic.
The real selection rule `‖scaled_diffs‖ < tolerance` with
`scaled_diffs = |idx - round idx| · (‖a‖, ‖b‖) / sqrt(max(1, |idx|))` is modelled by the
equivalent square-root-free comparison of squares (`tolerance ≥ 0`).
-/
namespace Model

/-- `np.around` on one number: round half to even -/
def roundHalfEven (x : Rat) : Int :=
  let f := x.floor
  let d := x - (f : Rat)
  if d < 1 / 2 then f else if 1 / 2 < d then f + 1 else (if f % 2 = 0 then f else f + 1)

def norm2 (v : V2) : Rat := v.1 * v.1 + v.2 * v.2

/-- squared scaled error of one point with fractional indices `ij` -/
def err2 (a b : V2) (ij : V2) : Rat :=
  let di := ij.1 - (roundHalfEven ij.1 : Rat)
  let dj := ij.2 - (roundHalfEven ij.2 : Rat)
  di * di * norm2 a / rmax 1 (rabs ij.1) + dj * dj * norm2 b / rmax 1 (rabs ij.2)

/-- a peak: refined position and elevation -/
structure Peak where
  pos : V2
  elev : Rat
deriving Repr

/-- is the point matched by `_match_all`?  (`errors < tolerance`) -/
def isMatched (a b : V2) (tol : Rat) (ij : V2) : Bool :=
  decide (0 ≤ tol) && decide (err2 a b ij < tol * tol)

/-- `_match_all` on the working selection `sel` (a boolean per peak):
new selector and the rounded indices of the matched peaks; `none` = `LinAlgError` (singular) -/
def matchAll (peaks : List Peak) (sel : List Bool) (zero a b : V2) (tol : Rat) :
    Option (List Bool × List (Int × Int)) :=
  if det2 a b = 0 then none else
  let ijs := peaks.map fun p => (getIndices zero a b p.pos).getD (0, 0)
  let m := (sel.zip ijs).map fun (s, ij) => s && isMatched a b tol ij
  let idx := ((m.zip ijs).filter (·.1)).map fun (_, ij) => (roundHalfEven ij.1, roundHalfEven ij.2)
  some (m, idx)

/-- observations for the weighted fit of the selected peaks -/
def obsFor (peaks : List Peak) (m : List Bool) (idx : List (Int × Int)) (coord : V2 → Rat) : List Obs :=
  let chosen := ((m.zip peaks).filter (·.1)).map (·.2)
  (chosen.zip idx).map fun (p, ij) => ⟨(ij.1 : Rat), (ij.2 : Rat), p.elev, coord p.pos⟩

def weightedOptimize (peaks : List Peak) (m : List Bool) (idx : List (Int × Int)) :
    Option (V2 × V2 × V2) :=
  match solveNormal (normalOf (obsFor peaks m idx (·.1))), solveNormal (normalOf (obsFor peaks m idx (·.2))) with
  | some (zy, ay, by_), some (zx, ax, bx) => some ((zy, zx), (ay, ax), (by_, bx))
  | _, _ => none

inductive MatchResult where
  | invalid                      -- NaN lattice, empty selection, infinite error
  | valid (zero a b : V2) (selector : List Bool) (indices : List (Int × Int))
  | degenerate                   -- rank-deficient selection: lstsq's minimum-norm solution is not modelled
deriving Repr, DecidableEq

/-- `Matcher.fastmatch` -/
def fastmatch (peaks : List Peak) (zero a b : V2) (tol minWeight : Rat) (minMatch : Int) : MatchResult :=
  let filt := peaks.map fun p => Gen.fm_weight_ok p.elev minWeight
  match matchAll peaks filt zero a b tol with
  | none => .invalid
  | some (m1, idx1) =>
    if !Gen.fm_enough idx1.length minMatch then .invalid else
    match weightedOptimize peaks m1 idx1 with
    | none => if idx1.length = 0 then .invalid else .degenerate   -- (empty selection, reachable with min_match ≤ 0: the
                                                                   -- fit of nothing is the zero lattice, which the second round rejects)
    | some (z1, a1, b1) =>
      match matchAll peaks filt z1 a1 b1 tol with
      | none => .invalid
      | some (m2, idx2) =>
        match weightedOptimize peaks m2 idx2 with
        | none => if idx2.length = 0 then .invalid else .degenerate
        | some (z2, a2, b2) => .valid z2 a2 b2 m2 idx2

end Model
