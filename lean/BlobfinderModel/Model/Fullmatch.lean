import BlobfinderModel.Gen.Fullmatch
/-
Control skeleton of `FullMatcher.full_match`: the `while True` loop over the working set with an
*oracle* for `_find_best_vector_match` (its answers are recorded from the real run and replayed).
Selectors are functions `Nat → Bool` on peak numbers `0 .. n-1`.
-/
namespace Model

abbrev Sel := Nat → Bool

def countSel (n : Nat) (s : Sel) : Nat := ((List.range n).filter s).length

/-- the loop.  `answers`: per iteration `none` (no match found with the current candidate method) or
`some sel` (selector of the best match; only its part inside the working set counts, as
`_match_all` can only select from the working set).  Returns `(matches, new_selector)` at loop exit. -/
def fmLoop (n : Nat) (minMatch : Int) (zero : Sel) :
    List (Option Sel) → (working : Sel) → (ms : List Sel) → (methods : Nat) → List Sel × Sel
  | [], working, ms, _ => (ms, working)
  | none :: rest, working, ms, methods =>
      if methods ≤ 1 then (ms, working) else fmLoop n minMatch zero rest working ms (methods - 1)
  | some sel :: rest, working, ms, methods =>
      let sel' : Sel := fun k => sel k && working k
      let ns : Sel := fun k => working k && !sel' k
      if Gen.fullm_continue (countSel n ns) minMatch then
        fmLoop n minMatch zero rest (fun k => ns k || zero k) (ms ++ [sel']) methods
      else (ms ++ [sel'], ns)

structure FMResult where
  ms : List Sel
  unmatched : Sel
  weak : Sel

/-- `full_match`: `filt k` = elevation of peak `k` ≥ min_weight -/
def fullMatch (n : Nat) (minMatch : Int) (filt zero : Sel) (methods : Nat) (answers : List (Option Sel)) :
    FMResult :=
  let r := fmLoop n minMatch zero answers filt [] methods
  { ms := r.1,
    unmatched := if r.1.isEmpty then r.2 else fun k => r.2 k && !zero k,
    weak := fun k => !filt k }

def memberships (ms : List Sel) (k : Nat) : Nat := (ms.filter fun m => m k).length

end Model
