import BlobfinderModel.Gen.Lattice
import BlobfinderModel.Model.Masks
/-
Model of the lattice algebra of `base/utils.py` and `common/gridmatching.py` in exact rational
arithmetic.  Vectors are pairs `(y, x)`.
-/
namespace Model

abbrev V2 := Rat × Rat

def vadd (p q : V2) : V2 := (p.1 + q.1, p.2 + q.2)
def vsub (p q : V2) : V2 := (p.1 - q.1, p.2 - q.2)
def smul (c : Rat) (p : V2) : V2 := (c * p.1, c * p.2)

/-- `calc_coords`: `zero + i*a + j*b` -/
def calcCoord (zero a b : V2) (ij : V2) : V2 := vadd zero (vadd (smul ij.1 a) (smul ij.2 b))

/-- determinant of the coefficient matrix `[[a.y, b.y], [a.x, b.x]]` of `get_indices` -/
def det2 (a b : V2) : Rat := a.1 * b.2 - b.1 * a.2

/-- `get_indices` by Cramer's rule; `none` = singular (`LinAlgError`) -/
def getIndices (zero a b : V2) (p : V2) : Option V2 :=
  let d := det2 a b
  if d = 0 then none else
  let t := vsub p zero
  some ((t.1 * b.2 - b.1 * t.2) / d, (a.1 * t.2 - t.1 * a.2) / d)

/-- `within_frame` for one peak -/
def withinFrame (p : V2) (r fy fx : Rat) : Bool :=
  Gen.within_axis p.1 r fy && Gen.within_axis p.2 r fx

/-- `frame_peaks` on a list of indices: the (index, coordinate) pairs inside the frame margin -/
def framePeaks (fy fx : Rat) (zero a b : V2) (r : Rat) (indices : List V2) : List (V2 × V2) :=
  (indices.map fun ij => (ij, calcCoord zero a b ij)).filter fun ic => withinFrame ic.2 r fy fx

/-- `np.concatenate(indices.T)` for `indices = np.mgrid[...]` of shape `(2, n, m)`: the list of
`(I[j][i], J[j][i])` for `i` (fast axis of mgrid) outer, `j` inner -/
def mgridLayout (n m : Nat) (I J : Nat → Nat → Rat) : List V2 :=
  (List.range m).flatMap fun c => (List.range n).map fun r => (I r c, J r c)

/-- `Match.calc_coords(drop_zero, frame_shape, r)` -/
def matchCalcCoords (zero a b : V2) (indices : List V2) (dropZero : Bool) (frame : Option (Rat × Rat))
    (r : Rat) : List V2 :=
  ((indices.filter fun ij => !dropZero || (ij.1 != 0 || ij.2 != 0)).map (calcCoord zero a b)).filter
    fun p => match frame with
      | none => true
      | some (fy, fx) => withinFrame p r fy fx

/-! ### weighted least squares with design `[1, i, j]` -/

structure Obs where
  i : Rat
  j : Rat
  w : Rat
  t : Rat        -- one coordinate of the observed position
deriving Repr

/-- sums of the normal equations -/
structure Normal where
  s1 : Rat
  si : Rat
  sj : Rat
  sii : Rat
  sij : Rat
  sjj : Rat
  st : Rat
  sit : Rat
  sjt : Rat
deriving Repr

def normalOf (l : List Obs) : Normal :=
  { s1 := lsum (l.map fun o => o.w), si := lsum (l.map fun o => o.w * o.i),
    sj := lsum (l.map fun o => o.w * o.j), sii := lsum (l.map fun o => o.w * o.i * o.i),
    sij := lsum (l.map fun o => o.w * o.i * o.j), sjj := lsum (l.map fun o => o.w * o.j * o.j),
    st := lsum (l.map fun o => o.w * o.t), sit := lsum (l.map fun o => o.w * o.i * o.t),
    sjt := lsum (l.map fun o => o.w * o.j * o.t) }

def det3 (a11 a12 a13 a21 a22 a23 a31 a32 a33 : Rat) : Rat :=
  a11 * (a22 * a33 - a23 * a32) - a12 * (a21 * a33 - a23 * a31) + a13 * (a21 * a32 - a22 * a31)

def Normal.det (n : Normal) : Rat := det3 n.s1 n.si n.sj n.si n.sii n.sij n.sj n.sij n.sjj

/-- Cramer solution `(z, α, β)` of the normal equations; `none` if singular -/
def solveNormal (n : Normal) : Option (Rat × Rat × Rat) :=
  let d := n.det
  if d = 0 then none else
  some (det3 n.st n.si n.sj n.sit n.sii n.sij n.sjt n.sij n.sjj / d,
        det3 n.s1 n.st n.sj n.si n.sit n.sij n.sj n.sjt n.sjj / d,
        det3 n.s1 n.si n.st n.si n.sii n.sit n.sj n.sij n.sjt / d)

/-- residual of one observation for parameters `(z, α, β)` -/
def resid (z al be : Rat) (o : Obs) : Rat := o.t - (z + o.i * al + o.j * be)

/-- weighted sum of squared residuals -/
def wss (z al be : Rat) (l : List Obs) : Rat := lsum (l.map fun o => o.w * (resid z al be o) ^ 2)

/-- the three normal equations, as a predicate -/
def NormalEqs (z al be : Rat) (l : List Obs) : Prop :=
  lsum (l.map fun o => o.w * resid z al be o) = 0 ∧
  lsum (l.map fun o => o.w * o.i * resid z al be o) = 0 ∧
  lsum (l.map fun o => o.w * o.j * resid z al be o) = 0

end Model
