import BlobfinderModel.Gen.Masks
/-
Model of `base.masks.radial_bins` at one pixel: the image enters only through the distance `r`
of the pixel from the centre (computed by `polar_map` in the code; taken from the implementation
as an exact rational in the correspondence).
-/
namespace Model

/-- centre of bin `k`: value of `np.linspace(radius_inner, radius - width, n_bins)[k] + width/2` -/
def binCenter (ri w : Rat) (k : Nat) : Rat := ri + (k : Rat) * w + w / 2

/-- unpatched value of bin `k` at distance `r` -/
def binVal (R ri : Rat) (n : Nat) (k : Nat) (r : Rat) : Rat :=
  Gen.bin_val (Gen.bin_width R ri n) (binCenter ri (Gen.bin_width R ri n) k) r

/-- is the pixel at distance `r` the one that gets the centre patch?  `isCenterPixel` = it is the
pixel `(round centerY, round centerX)` and that pixel is inside the image. -/
def patched (ri : Rat) (isCenterPixel : Bool) (r : Rat) : Bool :=
  Gen.patch_guard ri && Gen.patch_applies isCenterPixel r

/-- values of all bins at one pixel, as `radial_bins(normalize=False)` returns them -/
def binsAt (R ri : Rat) (n : Nat) (isCenterPixel : Bool) (r : Rat) : List Rat :=
  (List.range n).map fun k =>
    if patched ri isCenterPixel r && k == 0 then Gen.patch_value ri else binVal R ri n k r

def binSum (R ri : Rat) (n : Nat) (isCenterPixel : Bool) (r : Rat) : Rat :=
  lsum (binsAt R ri n isCenterPixel r)

/-- the antialiasing ramp: 0 below `-1/2`, 1 above `+1/2` of an edge (argument already shifted) -/
def ramp (t : Rat) : Rat := rmax 0 (rmin 1 t)

end Model
