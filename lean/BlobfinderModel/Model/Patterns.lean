import BlobfinderModel.Gen.Patterns
import BlobfinderModel.Model.Masks
/-
Model of `common/patterns.py`: user-template pad / crop along one axis, pattern masks as
functions of the pixel's distance from the centre, sparse stamping.
-/
namespace Model

/-- which source index feeds target index `i` of `UserTemplate.get_mask` along one axis
(`none` = zero padding).  `np.pad(a, (before, after))[i] = a[i - before]`,
`skimage.util.crop(a, (before, after))[i] = a[i + before]`. -/
def utIndex (target source i : Int) : Option Int :=
  if Gen.ut_is_pad target source then
    let ba := Gen.ut_before_after target source (Gen.ut_extra_pad target source)
    let j := i - ba.1
    if 0 ≤ j ∧ j < source then some j else none
  else if Gen.ut_is_crop target source then
    let ba := Gen.ut_before_after target source (Gen.ut_extra_crop target source)
    some (i + ba.1)
  else some i

/-- resulting length along the axis: pad adds before+after, crop removes them -/
def utLength (target source : Int) : Int :=
  if Gen.ut_is_pad target source then
    let ba := Gen.ut_before_after target source (Gen.ut_extra_pad target source)
    ba.1 + source + ba.2
  else if Gen.ut_is_crop target source then
    let ba := Gen.ut_before_after target source (Gen.ut_extra_crop target source)
    source - ba.1 - ba.2
  else source

/-- `(before, after)` actually used, for the error branch: NumPy / skimage reject negative widths -/
def utWidths (target source : Int) : Int × Int :=
  if Gen.ut_is_pad target source then
    Gen.ut_before_after target source (Gen.ut_extra_pad target source)
  else if Gen.ut_is_crop target source then
    Gen.ut_before_after target source (Gen.ut_extra_crop target source)
  else (0, 0)

/-- antialiased disk (`masks.circular(antialiased=True)` = `radial_bins(n_bins=1)[0]`) at a pixel -/
def circularMask (radius : Rat) (isCenterPixel : Bool) (r : Rat) : Rat :=
  if patched 0 isCenterPixel r then Gen.patch_value 0 else binVal radius 0 1 0 r

/-- antialiased ring (`radial_bins(radius, radius_inner, n_bins=1)[0]`) at a pixel -/
def ringMask (radius radius_inner : Rat) (isCenterPixel : Bool) (r : Rat) : Rat :=
  if patched radius_inner isCenterPixel r then Gen.patch_value radius_inner
  else binVal radius radius_inner 1 0 r

/-- `masks.radial_gradient(antialiased=True)` at a pixel -/
def gradientMask (radius r : Rat) : Rat := Gen.rgbs_val r radius 0 1

/-- dense value of layer `k` of `sparse_template_multi_stack` at `(y, x)`: sum of all COO entries
of that layer with these coordinates -/
def stampDense (tmpl : Int → Int → Rat) (th tw oy ox sy sx y x : Int) : Rat :=
  lsum ((List.range th.toNat).map fun (ty : Nat) =>
    lsum ((List.range tw.toNat).map fun (tx : Nat) =>
      let cy : Int := ty + oy
      let cx : Int := tx + ox
      if Gen.stamp_sel cy cx sy sx = true ∧ cy = y ∧ cx = x then tmpl ty tx else 0))

end Model
