import BlobfinderModel.Model.Eval
import BlobfinderModel.Model.Crop
import BlobfinderModel.Model.Blocks
/-
The two correlation pipelines composed end to end, per peak and per frame, from the stage models
(crop -> log scaling -> correlation map -> evaluation -> re-anchoring; block loop over the peaks).
`L` is the logarithm (parameter, A-FLOAT); `mask` is the pattern mask of the correlation size.
-/
namespace Model

/-- `log_scale_cropbufs_inplace` on one `h × w` crop: `log(x - (min - 1))` with the crop's own minimum -/
def logCrop (L : Rat → Rat) (crop : Int → Int → Rat) (h w : Int) : Int → Int → Rat :=
  fun y x => L (Gen.cropbuf_log_arg (crop y x) (Gen.cropbuf_m (minList (flat crop h w))))

/-- `log_scale(frame)` of the full-frame method: `log(x - min + 1)` with the frame minimum -/
def logFrame (L : Rat → Rat) (frame : Int → Int → Rat) (fy fx : Int) : Int → Int → Rat :=
  fun y x => L (Gen.log_arg (frame y x) (minList (flat frame fy fx)))

/-- `_shift` applied to the window-relative results of `evaluate_correlations` -/
def reanchor (e : EvalOut) (p0 p1 c : Int) : EvalOut :=
  { e with cy := Gen.shift e.cy p0 c, cx := Gen.shift e.cx p1 c,
           ry := e.ry + ((Gen.shift 0 p0 c : Int) : Rat), rx := e.rx + ((Gen.shift 0 p1 c : Int) : Rat) }

/-- correlation map of the crop-based method for the window of peak `p` (`2c × 2c`) -/
def fastCorr (L : Rat → Rat) (mask frame : Int → Int → Rat) (fy fx c : Int) (p : Int × Int) :
    Int → Int → Rat :=
  corrMap Gen.fast_corr_shift mask
    (logCrop L (fun y x => cropPixel frame fy fx c p.1 p.2 y x) (2 * c) (2 * c)) (2 * c) (2 * c)

/-- the per-crop part of the crop-based method (log scaling, correlation, evaluation kernels): a function
of the `2c × 2c` crop alone -/
def fastEval (L : Rat → Rat) (mask : Int → Int → Rat) (c : Int) (crop : Int → Int → Rat) : EvalOut :=
  evaluate (corrMap Gen.fast_corr_shift mask (logCrop L crop (2 * c) (2 * c)) (2 * c) (2 * c)) (2 * c) (2 * c)

/-- the per-crop part of the full-frame method: the evaluation kernels on the crop of the correlation map -/
def fullEval (c : Int) (crop : Int → Int → Rat) : EvalOut := evaluate crop (2 * c) (2 * c)

/-- one peak of `process_frame_fast` -/
def fastPeak (L : Rat → Rat) (mask frame : Int → Int → Rat) (fy fx c : Int) (p : Int × Int) : EvalOut :=
  reanchor (evaluate (fastCorr L mask frame fy fx c p) (2 * c) (2 * c)) p.1 p.2 c

/-- correlation map of the full-frame method (frame sized; `mask` has the frame's shape) -/
def fullCorr (L : Rat → Rat) (mask frame : Int → Int → Rat) (fy fx : Int) : Int → Int → Rat :=
  corrMap Gen.full_corr_shift mask (logFrame L frame fy fx) fy fx

/-- one peak of `process_frame_full`: the window is cropped out of the frame-sized map -/
def fullPeak (L : Rat → Rat) (mask frame : Int → Int → Rat) (fy fx c : Int) (p : Int × Int) : EvalOut :=
  reanchor (evaluate (fun y x => cropPixel (fullCorr L mask frame fy fx) fy fx c p.1 p.2 y x)
    (2 * c) (2 * c)) p.1 p.2 c

/-- `process_frame_fast`: the block loop over the peak list -/
def processFrameFast (L : Rat → Rat) (mask frame : Int → Int → Rat) (fy fx c : Int)
    (peaks : Int → Int × Int) (n b : Int) (out : Int → EvalOut) : Int → EvalOut :=
  runBlocks fastArith (fastPeak L mask frame fy fx c) peaks n b out

/-- `process_frame_full` -/
def processFrameFull (L : Rat → Rat) (mask frame : Int → Int → Rat) (fy fx c : Int)
    (peaks : Int → Int × Int) (n b : Int) (out : Int → EvalOut) : Int → EvalOut :=
  runBlocks fullArith (fullPeak L mask frame fy fx c) peaks n b out

end Model
