/-
Line protocol helpers for the model drivers (Mathlib-free so that the drivers link).
Numbers: integers in decimal; rationals as `num/den` or plain integers; `N` = none.
-/
namespace Proto

def parseInt? (s : String) : Option Int := s.toInt?

def parseRat? (s : String) : Option Rat :=
  match s.splitOn "/" with
  | [n] => n.toInt?.map (fun (i : Int) => (i : Rat))
  | [n, d] => do
      let ni ← n.toInt?
      let di ← d.toNat?
      if di = 0 then none else some (mkRat ni di)
  | _ => none

def parseOptInt? (s : String) : Option (Option Int) :=
  if s = "N" then some none else s.toInt?.map some

def showRat (r : Rat) : String :=
  if r.den = 1 then toString r.num else toString r.num ++ "/" ++ toString r.den

def words (line : String) : List String :=
  (line.splitOn " ").filter (fun w => w ≠ "")

def allSome {α : Type} : List (Option α) → Option (List α)
  | [] => some []
  | none :: _ => none
  | some a :: t => (allSome t).map (a :: ·)

def ints? (ws : List String) : Option (List Int) := allSome (ws.map parseInt?)
def rats? (ws : List String) : Option (List Rat) := allSome (ws.map parseRat?)

def joinInts (l : List Int) : String := " ".intercalate (l.map toString)
def joinRats (l : List Rat) : String := " ".intercalate (l.map showRat)

/-- row-major image access with explicit width; out of range -> 0 (never hit by verified callers) -/
def img {α : Type} [OfNat α 0] (a : Array α) (w : Int) (y x : Int) : α :=
  let i := y * w + x
  if i < 0 then 0 else a.getD i.toNat 0

partial def loop (h : IO.FS.Stream) (out : IO.FS.Stream) (step : String → String) : IO Unit := do
  let line ← h.getLine
  if line.isEmpty then return ()
  let l := (line.dropRightWhile (fun c => c = '\n' || c = '\r'))
  out.putStrLn (step l)
  out.flush
  loop h out step

def run (step : String → String) : IO Unit := do
  let i ← IO.getStdin
  let o ← IO.getStdout
  loop i o step
  o.flush

end Proto
