/-
Explicit `if`-based min / max / abs on `Rat` used by generated code, so that the same
definitions run in the Mathlib-free drivers and unfold to `max`/`min`/`|·|` in the proofs.
-/
namespace Model

def rmax (a b : Rat) : Rat := if a ≤ b then b else a
def rmin (a b : Rat) : Rat := if a ≤ b then a else b
def rabs (a : Rat) : Rat := if a < 0 then -a else a

end Model
