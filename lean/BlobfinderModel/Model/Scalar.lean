/-
Explicit `if`-based min / max / abs on `Rat` used by generated code, so that the same
definitions run in the Mathlib-free drivers and unfold to `max`/`min`/`|·|` in the proofs.
-/
namespace Model

def rmax (a b : Rat) : Rat := if a ≤ b then b else a
def rmin (a b : Rat) : Rat := if a ≤ b then a else b
def rabs (a : Rat) : Rat := if a < 0 then -a else a

/-- sum of a list (left fold, as a NumPy / numba accumulation loop) -/
def lsum (l : List Rat) : Rat := l.foldl (· + ·) 0

/-- `range(n)` as integers -/
def irange (n : Int) : List Int := (List.range n.toNat).map (fun (k : Nat) => (k : Int))

/-- row-major list of the `h × w` cells of an image -/
def flat (f : Int → Int → Rat) (h w : Int) : List Rat :=
  (irange h).flatMap fun y => (irange w).map fun x => f y x

/-- minimum of a list (`np.min`); 0 for the empty list (never used on one) -/
def minList : List Rat → Rat
  | [] => 0
  | x :: t => t.foldl (fun a b => rmin a b) x

/-- index of the first maximum of a non-empty list (`np.argmax`) -/
def argmaxFirst : List Rat → Nat
  | [] => 0
  | x :: t =>
    let rec go (best : Rat) (bi : Nat) (i : Nat) : List Rat → Nat
      | [] => bi
      | y :: t => if best < y then go y i (i + 1) t else go best bi (i + 1) t
    go x 0 1 t

/-- running minimum that starts at `+inf` (`none`) -/
def minOpt : List Rat → Option Rat
  | [] => none
  | c :: t => some (t.foldl (fun a b => rmin a b) c)

/-- `max(0, ·)` on a value that may be `+inf` (`none`) -/
def optMax0 : Option Rat → Option Rat
  | none => none
  | some v => some (rmax 0 v)

end Model
