/-
Python / NumPy basic slicing with step 1 (documented normalisation of `a[lo:hi]` on an axis
of length `len`).  Hand-written; compared exhaustively with real NumPy slicing on small
sizes by the correspondence harness (op `pyslice`).
-/
namespace Model

/-- normalise one slice bound: `none` -> `dflt`; negative counts from the end; clipped. -/
def pyIdx (len dflt : Int) : Option Int → Int
  | none => dflt
  | some v => if v < 0 then max (v + len) 0 else min v len

def pySliceLo (len : Int) (o : Option Int) : Int := pyIdx len 0 o
def pySliceHi (len : Int) (o : Option Int) : Int := pyIdx len len o

/-- number of selected elements of `a[lo:hi]` given normalised bounds -/
def sliceLen (lo hi : Int) : Int := max (hi - lo) 0

end Model
