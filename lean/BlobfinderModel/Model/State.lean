import BlobfinderModel.Model.Crop
import BlobfinderModel.Model.Blocks
/-
Stateful model of one `process_frame_fast` call on *reused* crop buffers and output arrays
(C09).  `CropFn` is the cropping back-end: it sees the previous content `old` of the buffer
slot it fills.  `eval` is the rest of the per-crop pipeline (log scale, FFT, evaluation);
`post` is what the in-place log scaling leaves behind in the buffer.
-/
namespace Model

structure St (α β : Type) where
  bufs : Int → Int → Int → α      -- crop buffers: slot, y, x
  out : Int → β                   -- output arrays, indexed by peak number

abbrev CropFn (α : Type) :=
  (old frame : Int → Int → α) → (fy fx c p0 p1 h w y x : Int) → α

def pixelCrop {α : Type} [OfNat α 0] : CropFn α :=
  fun _old frame fy fx c p0 p1 _h _w y x => cropPixel frame fy fx c p0 p1 y x

def sliceCrop {α : Type} [OfNat α 0] : CropFn α :=
  fun old frame fy fx c p0 p1 h w y x => cropSlice old frame fy fx c p0 p1 h w y x

/-- pre-repair slicing back-end (no zero fill), kept for the counterexample -/
def sliceCropNoFill {α : Type} [OfNat α 0] : CropFn α :=
  fun old frame fy fx c p0 p1 h w y x => cropSliceZ false old frame fy fx c p0 p1 h w y x

structure Call (α : Type) where
  frame : Int → Int → α
  fy : Int
  fx : Int
  peaks : Int → Int × Int
  n : Int
  b : Int

/-- one block: crop into slots `0 .. size-1`, evaluate them into `out[start:stop]`, and leave
`post`-processed data behind in the used slots -/
def blockStepSt {α β : Type} (A : BlockArith) (crop : CropFn α)
    (eval : (Int → Int → α) → β) (post : (Int → Int → α) → (Int → Int → α))
    (c h w : Int) (cl : Call α) (st : St α β) (k : Int) : St α β :=
  let s := A.start cl.n cl.b k
  let e := A.stop cl.n cl.b k
  let cropped : Int → Int → Int → α := fun j y x =>
    crop (st.bufs j) cl.frame cl.fy cl.fx c (cl.peaks (s + j)).1 (cl.peaks (s + j)).2 h w y x
  { bufs := fun j y x =>
      if 0 ≤ j ∧ j < A.size s e ∧ 0 ≤ y ∧ y < h ∧ 0 ≤ x ∧ x < w then post (cropped j) y x
      else st.bufs j y x,
    out := fun i => if s ≤ i ∧ i < e then eval (cropped (i - s)) else st.out i }

def runStN {α β : Type} (A : BlockArith) (crop : CropFn α) (eval : (Int → Int → α) → β)
    (post : (Int → Int → α) → (Int → Int → α)) (c h w : Int) (cl : Call α) (st : St α β) :
    Nat → St α β
  | 0 => st
  | m + 1 => blockStepSt A crop eval post c h w cl (runStN A crop eval post c h w cl st m) (m : Int)

/-- one call of the frame-processing routine on the state `st` -/
def processFrame {α β : Type} (A : BlockArith) (crop : CropFn α) (eval : (Int → Int → α) → β)
    (post : (Int → Int → α) → (Int → Int → α)) (c h w : Int) (st : St α β) (cl : Call α) : St α β :=
  runStN A crop eval post c h w cl st (A.blockCount cl.n cl.b).toNat

/-- a history of calls sharing buffers and output arrays -/
def runHistory {α β : Type} (A : BlockArith) (crop : CropFn α) (eval : (Int → Int → α) → β)
    (post : (Int → Int → α) → (Int → Int → α)) (c h w : Int) (st : St α β) (calls : List (Call α)) :
    St α β :=
  calls.foldl (processFrame A crop eval post c h w) st

/-- the window a peak's crop must equal -/
def windowCrop {α : Type} [OfNat α 0] (cl : Call α) (c : Int) (i : Int) : Int → Int → α :=
  fun y x => window cl.frame cl.fy cl.fx ((cl.peaks i).1 - c + y) ((cl.peaks i).2 - c + x)

end Model
