import BlobfinderModel.Model.Fastmatch
/-
Model of `FullMatcher.check` and of one candidate pair of `FullMatcher._do_match`
(`_match_all` followed by `_tumble`) in exact rational arithmetic.  Lengths and the angle test are
modelled square-root / arctan free: `min_delta ≤ ‖v‖ ≤ max_delta` as a comparison of squares, and
`min_angle < angle(a, b) mod π < π - min_angle` as `sin²(min_angle) ‖a‖²‖b‖² < det(a, b)²`
(`0 ≤ min_angle ≤ π/2`).
-/
namespace Model

structure CheckP where
  minMatch : Int
  minD2 : Rat          -- min_delta²
  maxD2 : Option Rat   -- max_delta², `none` = +inf
  sin2 : Rat           -- sin²(min_angle)

def lenOk (P : CheckP) (n2 : Rat) : Bool :=
  decide (P.minD2 ≤ n2) && (match P.maxD2 with | none => true | some m => decide (n2 ≤ m))

/-- `FullMatcher.check` on a match with `count` peaks and lattice vectors `a`, `b` -/
def checkM (P : CheckP) (count : Nat) (a b : V2) : Bool :=
  decide (P.minMatch ≤ (count : Int)) && lenOk P (norm2 a) && lenOk P (norm2 b) &&
    decide (P.sin2 * (norm2 a * norm2 b) < det2 a b * det2 a b)

inductive TumbleResult where
  | none                         -- `continue` / `return None`
  | degenerate                   -- rank-deficient fit (minimum-norm `lstsq` solution, not modelled)
  | some (zero a b : V2) (selector : List Bool) (indices : List (Int × Int))
deriving Repr, DecidableEq

def countTrue (m : List Bool) : Nat := (m.filter id).length

/-- one candidate pair of `_do_match`: `_match_all`, then `_tumble`
(check, weighted fit, check, `_match_all`, check, weighted fit, check) -/
def tumble (P : CheckP) (peaks : List Peak) (sel : List Bool) (tol : Rat) (z a b : V2) : TumbleResult :=
  match matchAll peaks sel z a b tol with
  | none => .none
  | some (m0, idx0) =>
    if !checkM P (countTrue m0) a b then .none else
    match weightedOptimize peaks m0 idx0 with
    | none => .degenerate
    | some (z1, a1, b1) =>
      if !checkM P (countTrue m0) a1 b1 then .none else
      match matchAll peaks sel z1 a1 b1 tol with
      | none => .none
      | some (m2, idx2) =>
        if !checkM P (countTrue m2) a1 b1 then .none else
        match weightedOptimize peaks m2 idx2 with
        | none => .degenerate
        | some (z2, a2, b2) =>
          if !checkM P (countTrue m2) a2 b2 then .none else .some z2 a2 b2 m2 idx2

end Model
