import BlobfinderModel.Gen.Udf
import BlobfinderModel.Model.State
import BlobfinderModel.Model.Fastmatch
import BlobfinderModel.Model.Eval
/-
Model of the UDF protocol as far as the blobfinder UDFs depend on it (assumption A-LT): a dataset is
processed as a list of partitions, each a list of frame numbers in processing order; task data is
created afresh per partition and shared by its frames; every frame writes its own result slot;
the partition result is merged into the dataset-wide result by assignment.
-/
namespace Model

/-- process the frames of one partition in order, starting from fresh task data -/
def runPartition {τ ρ : Type} (init : τ) (perFrame : τ → Nat → τ × ρ) (res : Nat → Option ρ) :
    List Nat → τ → (Nat → Option ρ)
  | [], _ => res
  | f :: rest, t =>
      let (t', r) := perFrame t f
      runPartition init perFrame (fun g => if g = f then some r else res g) rest t'
termination_by l => l.length

/-- run all partitions, merging by assignment -/
def runSchedule {τ ρ : Type} (init : τ) (perFrame : τ → Nat → τ × ρ) :
    List (List Nat) → (Nat → Option ρ) → (Nat → Option ρ)
  | [], res => res
  | part :: rest, res => runSchedule init perFrame rest (runPartition init perFrame res part init)

/-- peak positions handed to the frame routines: rounded peaks plus rounded zero shift -/
def udfPeak (p zs : Rat) : Int := roundHalfEven p + roundHalfEven zs

/-- zero shift of a frame as `get_zero_shift` returns it: none, constant, or per frame (AUX) -/
inductive ZeroShift where
  | none
  | const (v : V2)
  | perFrame (v : Nat → V2)

def ZeroShift.get : ZeroShift → Nat → V2
  | .none, _ => (0, 0)
  | .const v, _ => v
  | .perFrame v, f => v f

/-- partial dot product of one tile: Σ over the tile's pixels of mask · L(x − tileMin + 1) -/
def tileDot (L : Rat → Rat) (mask x : Nat → Rat) (tile : List Nat) : Rat :=
  let mn := minList (tile.map x)
  lsum (tile.map fun p => mask p * L (Gen.log_arg (x p) mn))

/-- accumulated over all tiles of a frame (the `corr[:] += …` of `process_tile`) -/
def tiledDot (L : Rat → Rat) (mask x : Nat → Rat) (tiles : List (List Nat)) : Rat :=
  lsum (tiles.map (tileDot L mask x))

end Model
