import Mathlib.Analysis.SpecialFunctions.Trigonometric.Basic
import Mathlib.Algebra.Order.Floor.Ring
/-!
Spec-level bridge between `FullMatcher.check` as written (lengths via `make_polar`'s square root, angle test
`|φ₁ - φ₂| % π` between `min_angle` and `π - min_angle`) and the square-root / arctan free form used by `Model.checkM`.
-/
namespace Model
open Real

/-- Python's `x % π` for real `x` -/
noncomputable def modPi (x : ℝ) : ℝ := x - π * ⌊x / π⌋

theorem modPi_range (x : ℝ) : 0 ≤ modPi x ∧ modPi x < π := by
  unfold modPi
  have hp := Real.pi_pos
  have h1 := Int.floor_le (x / π)
  have h2 := Int.lt_floor_add_one (x / π)
  rw [le_div_iff₀ hp] at h1
  rw [div_lt_iff₀ hp] at h2
  constructor <;> nlinarith

theorem sin_sq_modPi (x : ℝ) : sin (modPi x) ^ 2 = sin x ^ 2 := by
  unfold modPi
  rw [mul_comm π, Real.sin_sub_int_mul_pi, mul_pow]
  have h : ((-1 : ℝ) ^ ⌊x / π⌋) ^ 2 = 1 := by
    rw [sq, ← zpow_add₀ (by norm_num : (-1 : ℝ) ≠ 0)]
    exact Even.neg_one_zpow ⟨_, rfl⟩
  rw [h, one_mul]

/-- on `[0, π)` and for `0 ≤ lim ≤ π/2`: `sin² r > sin² lim ↔ lim < r < π - lim` -/
theorem sin_sq_gt_iff (r lim : ℝ) (hr0 : 0 ≤ r) (hr1 : r < π) (hl0 : 0 ≤ lim) (hl1 : lim ≤ π / 2) :
    sin lim ^ 2 < sin r ^ 2 ↔ lim < r ∧ r < π - lim := by
  have hp := Real.pi_pos
  have hsr : 0 ≤ sin r := Real.sin_nonneg_of_nonneg_of_le_pi hr0 (le_of_lt hr1)
  have hsl : 0 ≤ sin lim := Real.sin_nonneg_of_nonneg_of_le_pi hl0 (by linarith)
  have hsq : sin lim ^ 2 < sin r ^ 2 ↔ sin lim < sin r := by
    constructor
    · intro h; exact lt_of_pow_lt_pow_left₀ 2 hsr h
    · intro h; exact pow_lt_pow_left₀ h hsl (by norm_num)
  rw [hsq]
  by_cases hc : r ≤ π / 2
  · have hm : sin lim < sin r ↔ lim < r := by
      constructor
      · intro h
        by_contra hn
        push Not at hn
        have := Real.strictMonoOn_sin.monotoneOn (a := r) (b := lim) ⟨by linarith, hc⟩ ⟨by linarith, hl1⟩ hn
        linarith
      · intro h
        exact Real.strictMonoOn_sin ⟨by linarith, hl1⟩ ⟨by linarith, hc⟩ h
    rw [hm]
    constructor
    · intro h
      refine ⟨h, ?_⟩
      by_contra hn
      push Not at hn
      linarith
    · intro h; exact h.1
  · push Not at hc
    have e : sin r = sin (π - r) := (Real.sin_pi_sub r).symm
    rw [e]
    have hm : sin lim < sin (π - r) ↔ lim < π - r := by
      constructor
      · intro h
        by_contra hn
        push Not at hn
        have := Real.strictMonoOn_sin.monotoneOn (a := π - r) (b := lim) ⟨by linarith, by linarith⟩ ⟨by linarith, hl1⟩ hn
        linarith
      · intro h
        exact Real.strictMonoOn_sin ⟨by linarith, hl1⟩ ⟨by linarith, by linarith⟩ h
    rw [hm]
    constructor
    · intro h; exact ⟨by linarith, by linarith⟩
    · intro h; linarith [h.2]

theorem sin_sq_abs (x : ℝ) : sin |x| ^ 2 = sin x ^ 2 := by
  rcases abs_cases x with ⟨h, _⟩ | ⟨h, _⟩
  · rw [h]
  · rw [h, Real.sin_neg, neg_sq]

/-- **the angle test of `angle_check` / `check` in polar form is the determinant test of the model**:
vectors `a = ra (sin α, cos α)`, `b = rb (sin β, cos β)` in `(y, x)` order (`make_polar`: `φ = arctan2(y, x)`),
`0 ≤ lim ≤ π/2`:  `lim < |α - β| mod π < π - lim  ↔  sin²(lim) ‖a‖²‖b‖² < det(a, b)²` -/
theorem angle_check_iff (ra rb α β lim : ℝ) (hra : 0 < ra) (hrb : 0 < rb) (hl0 : 0 ≤ lim) (hl1 : lim ≤ π / 2) :
    (lim < modPi |α - β| ∧ modPi |α - β| < π - lim) ↔
      sin lim ^ 2 * (((ra * sin α) ^ 2 + (ra * cos α) ^ 2) * ((rb * sin β) ^ 2 + (rb * cos β) ^ 2))
        < ((ra * sin α) * (rb * cos β) - (rb * sin β) * (ra * cos α)) ^ 2 := by
  have hr := modPi_range |α - β|
  rw [← sin_sq_gt_iff _ _ hr.1 hr.2 hl0 hl1, sin_sq_modPi, sin_sq_abs]
  have n1 : (ra * sin α) ^ 2 + (ra * cos α) ^ 2 = ra ^ 2 := by
    have := Real.sin_sq_add_cos_sq α; nlinarith
  have n2 : (rb * sin β) ^ 2 + (rb * cos β) ^ 2 = rb ^ 2 := by
    have := Real.sin_sq_add_cos_sq β; nlinarith
  have d : (ra * sin α) * (rb * cos β) - (rb * sin β) * (ra * cos α) = ra * rb * sin (α - β) := by
    rw [Real.sin_sub]; ring
  rw [n1, n2, d]
  have hpos : 0 < ra ^ 2 * rb ^ 2 := by positivity
  constructor
  · intro h
    have := mul_lt_mul_of_pos_right h hpos
    nlinarith
  · intro h
    by_contra hn
    push Not at hn
    have := mul_le_mul_of_nonneg_right hn (le_of_lt hpos)
    nlinarith

theorem length_check_iff (v1 v2 lo hi : ℝ) (hlo : 0 ≤ lo) (hhi : 0 ≤ hi) :
    (lo ≤ Real.sqrt (v1 ^ 2 + v2 ^ 2) ∧ Real.sqrt (v1 ^ 2 + v2 ^ 2) ≤ hi) ↔
      (lo ^ 2 ≤ v1 ^ 2 + v2 ^ 2 ∧ v1 ^ 2 + v2 ^ 2 ≤ hi ^ 2) := by
  have hn : 0 ≤ v1 ^ 2 + v2 ^ 2 := by positivity
  rw [Real.le_sqrt hlo, Real.sqrt_le_left hhi]
  exact hn

end Model
