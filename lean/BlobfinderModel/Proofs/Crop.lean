import BlobfinderModel.Model.Crop
/-! Helper lemmas for the crop model (C13, C09, C10). -/
namespace Model

theorem pyIdx_ite (len d v : Int) (c : Prop) [Decidable c] :
    pyIdx len d (if c then none else some v)
      = if c then d else (if v < 0 then max (v + len) 0 else min v len) := by
  split <;> rfl

theorem pyIdx_some (len d v : Int) :
    pyIdx len d (some v) = (if v < 0 then max (v + len) 0 else min v len) := rfl

theorem pyIdx_none (len d : Int) : pyIdx len d none = d := rfl

/-- Closed form of the normalised slice bounds computed by the *generated* slice arithmetic:
the target slice is the part of the buffer whose frame coordinate is inside the frame, the
source slice is the part of the frame covered by the window. -/
theorem normBounds_closed (fy fx c p0 p1 h w : Int) (hh : 0 ≤ h) (hw : 0 ≤ w)
    (hfy : 0 ≤ fy) (hfx : 0 ≤ fx) :
    normBounds fy fx c p0 p1 h w =
     { tyl := min (max (c - p0) 0) h, tyh := min h (max (fy - (p0 - c)) 0),
       txl := min (max (c - p1) 0) w, txh := min w (max (fx - (p1 - c)) 0),
       syl := min (max (p0 - c) 0) fy, syh := min (max (p0 - c + h) 0) fy,
       sxl := min (max (p1 - c) 0) fx, sxh := min (max (p1 - c + w) 0) fx } := by
  -- (written to survive rewrites of the slice arithmetic: every bound is normalised, then compared by `omega`)
  unfold normBounds Gen.sl_bounds pySliceLo pySliceHi
  simp only [pyIdx_ite, pyIdx_some, pyIdx_none]
  congr 1 <;> omega

end Model
