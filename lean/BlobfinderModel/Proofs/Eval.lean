import BlobfinderModel.Proofs.Masks
import BlobfinderModel.Model.Eval
import Mathlib.Tactic.NormNum
import Mathlib.Tactic.Push
/-! Helper lemmas for the evaluation model (C03, C04, C01). -/
namespace Model

theorem argmax_go_spec (l : List ℚ) (best : ℚ) (bi i : ℕ) :
    ∀ (pre : List ℚ), pre.length = i → bi < i → pre[bi]? = some best →
      (∀ j (hj : j < pre.length), pre[j] ≤ best) → (∀ j (hj : j < pre.length), j < bi → pre[j] < best) →
      let r := argmaxFirst.go best bi i l
      ∃ hr : r < (pre ++ l).length,
        (∀ j (hj : j < (pre ++ l).length), (pre ++ l)[j] ≤ (pre ++ l)[r]) ∧
        (∀ j (hj : j < (pre ++ l).length), j < r → (pre ++ l)[j] < (pre ++ l)[r]) := by
  induction l generalizing best bi i with
  | nil =>
    intro pre hlen hbi hget hle hlt
    simp only [argmaxFirst.go, List.append_nil]
    have hb : bi < pre.length := by omega
    have e : pre[bi] = best := by
      have := List.getElem?_eq_getElem hb
      rw [this] at hget; exact Option.some.inj hget
    exact ⟨hb, fun j hj => e ▸ hle j hj, fun j hj hjb => e ▸ hlt j hj hjb⟩
  | cons y t ih =>
    intro pre hlen hbi hget hle hlt
    simp only [argmaxFirst.go]
    have happ : pre ++ y :: t = (pre ++ [y]) ++ t := by simp
    split
    · rename_i hby
      have := ih y i (i + 1) (pre ++ [y]) (by simp [hlen]) (by omega)
        (by rw [List.getElem?_append_right (by omega)]; simp [hlen])
        (by
          intro j hj
          simp only [List.length_append, List.length_singleton] at hj
          by_cases hjp : j < pre.length
          · rw [List.getElem_append_left hjp]; exact le_of_lt (lt_of_le_of_lt (hle j hjp) hby)
          · have : j = pre.length := by omega
            subst this; simp)
        (by
          intro j hj hji
          have hjp : j < pre.length := by omega
          rw [List.getElem_append_left hjp]; exact lt_of_le_of_lt (hle j hjp) hby)
      simpa only [happ] using this
    · rename_i hby
      push Not at hby
      have := ih best bi (i + 1) (pre ++ [y]) (by simp [hlen]) (by omega)
        (by rw [List.getElem?_append_left (by omega)]; exact hget)
        (by
          intro j hj
          simp only [List.length_append, List.length_singleton] at hj
          by_cases hjp : j < pre.length
          · rw [List.getElem_append_left hjp]; exact hle j hjp
          · have : j = pre.length := by omega
            subst this; simpa using hby)
        (by
          intro j hj hjb
          have hjp : j < pre.length := by omega
          rw [List.getElem_append_left hjp]; exact hlt j hjp hjb)
      simpa only [happ] using this

/-- `argmaxFirst` returns a position of the maximum, and the first such position -/
theorem argmaxFirst_spec (l : List ℚ) (hne : l ≠ []) :
    ∃ hr : argmaxFirst l < l.length,
      (∀ j (hj : j < l.length), l[j] ≤ l[argmaxFirst l]) ∧
      (∀ j (hj : j < l.length), j < argmaxFirst l → l[j] < l[argmaxFirst l]) := by
  cases l with
  | nil => exact absurd rfl hne
  | cons x t =>
    simp only [argmaxFirst]
    have := argmax_go_spec t x 0 1 [x] rfl (by omega) (by simp)
      (by intro j hj; simp at hj; subst hj; simp)
      (by intro j hj hj0; omega)
    simpa using this

/-- a sum over `range n` in which only index `a` can be non-zero (hypothesis needed below `n` only) -/
theorem sum_range_single_lt (f : ℕ → ℚ) (a : ℕ) (n : ℕ) (h : ∀ k, k < n → k ≠ a → f k = 0) :
    ((List.range n).map f).sum = if a < n then f a else 0 := by
  induction n with
  | zero => simp
  | succ n ih =>
    rw [List.range_succ, List.map_append, List.sum_append, ih (fun k hk hka => h k (by omega) hka)]
    simp only [List.map_cons, List.map_nil, List.sum_cons, List.sum_nil, add_zero]
    by_cases han : a = n
    · subst han; simp
    · rw [h n (by omega) (fun e => han e.symm), add_zero]
      by_cases hlt : a < n
      · rw [if_pos hlt, if_pos (by omega)]
      · rw [if_neg hlt, if_neg (by omega)]

end Model

namespace Model

/-- the index pairs of an `n × m` block in row-major order -/
def pairsL (n m : ℤ) : List (ℤ × ℤ) := (irange n).flatMap fun y => (irange m).map fun x => (y, x)

theorem flat_eq_map (f : ℤ → ℤ → ℚ) (n m : ℤ) : flat f n m = (pairsL n m).map fun p => f p.1 p.2 := by
  unfold flat pairsL
  rw [List.map_flatMap]
  simp only [List.map_map]
  rfl

theorem mem_irange (n k : ℤ) : k ∈ irange n ↔ 0 ≤ k ∧ k < n := by
  unfold irange
  simp only [List.mem_map, List.mem_range]
  constructor
  · rintro ⟨a, ha, rfl⟩; omega
  · rintro ⟨h0, h1⟩; exact ⟨k.toNat, by omega, by omega⟩

theorem mem_pairsL (n m : ℤ) (p : ℤ × ℤ) : p ∈ pairsL n m ↔ (0 ≤ p.1 ∧ p.1 < n) ∧ (0 ≤ p.2 ∧ p.2 < m) := by
  unfold pairsL
  simp only [List.mem_flatMap, List.mem_map, mem_irange]
  constructor
  · rintro ⟨y, hy, x, hx, rfl⟩; exact ⟨hy, hx⟩
  · rintro ⟨hy, hx⟩; exact ⟨p.1, hy, p.2, hx, rfl⟩

/-- weighted sums of values in `[lo, hi]` with non-negative weights -/
theorem weighted_sum_bounds {ι : Type} (l : List ι) (wt v : ι → ℚ) (lo hi : ℚ)
    (hw : ∀ p ∈ l, 0 ≤ wt p) (hv : ∀ p ∈ l, lo ≤ v p ∧ v p ≤ hi) :
    lo * (l.map wt).sum ≤ (l.map fun p => wt p * v p).sum ∧
    (l.map fun p => wt p * v p).sum ≤ hi * (l.map wt).sum := by
  induction l with
  | nil => simp
  | cons a t ih =>
    have h := ih (fun p hp => hw p (List.mem_cons_of_mem _ hp)) (fun p hp => hv p (List.mem_cons_of_mem _ hp))
    have ha := hw a List.mem_cons_self
    have hva := hv a List.mem_cons_self
    simp only [List.map_cons, List.sum_cons]
    constructor
    · nlinarith [h.1, mul_le_mul_of_nonneg_left hva.1 ha]
    · nlinarith [h.2, mul_le_mul_of_nonneg_left hva.2 ha]

theorem foldl_rmin_le (l : List ℚ) (a : ℚ) :
    l.foldl (fun a b => rmin a b) a ≤ a ∧ ∀ v ∈ l, l.foldl (fun a b => rmin a b) a ≤ v := by
  induction l generalizing a with
  | nil => simp
  | cons x t ih =>
    simp only [List.foldl_cons]
    have h := ih (rmin a x)
    have hr : rmin a x ≤ a ∧ rmin a x ≤ x := by unfold rmin; split_ifs <;> constructor <;> linarith
    refine ⟨le_trans h.1 hr.1, ?_⟩
    intro v hv
    rcases List.mem_cons.mp hv with rfl | hv'
    · exact le_trans h.1 hr.2
    · exact h.2 v hv'

theorem minList_le (l : List ℚ) (v : ℚ) (hv : v ∈ l) : minList l ≤ v := by
  cases l with
  | nil => cases hv
  | cons x t =>
    simp only [minList]
    rcases List.mem_cons.mp hv with rfl | hv'
    · exact (foldl_rmin_le t v).1
    · exact (foldl_rmin_le t x).2 v hv'

end Model

namespace Model

theorem flat_length (f : ℤ → ℤ → ℚ) (n m : ℕ) : (flat f n m).length = n * m := by
  unfold flat irange
  simp only [Int.toNat_natCast]
  induction n with
  | zero => simp
  | succ k ih =>
    rw [List.range_succ, List.map_append, List.flatMap_append, List.length_append, ih]
    simp [Nat.succ_mul]

theorem flat_getElem (f : ℤ → ℤ → ℚ) (n m : ℕ) (i : ℕ) (hi : i < n * m) :
    (flat f n m)[i]'(by rw [flat_length]; exact hi) = f ((i / m : ℕ) : ℤ) ((i % m : ℕ) : ℤ) := by
  have hm : 0 < m := by
    rcases Nat.eq_zero_or_pos m with h | h
    · subst h; simp at hi
    · exact h
  induction n with
  | zero => simp at hi
  | succ k ih =>
    have hsplit : flat f ((k + 1 : ℕ) : ℤ) m = flat f (k : ℤ) m ++ (List.range m).map (fun (x : ℕ) => f k x) := by
      unfold flat irange
      simp only [Int.toNat_natCast]
      rw [List.range_succ, List.map_append, List.flatMap_append]
      simp [List.map_map, Function.comp]
    have hlen := flat_length f k m
    by_cases hik : i < k * m
    · have := ih hik
      simp only [hsplit]
      rw [List.getElem_append_left (by rw [hlen]; exact hik)]
      exact this
    · simp only [hsplit]
      rw [List.getElem_append_right (by rw [hlen]; omega)]
      simp only [hlen, List.getElem_map, List.getElem_range]
      have hkm : (k + 1) * m = k * m + m := Nat.succ_mul k m
      have h1 : i / m = k := by
        apply Nat.div_eq_of_lt_le
        · omega
        · omega
      have h2 : i % m = i - k * m := by
        have := Nat.div_add_mod i m
        rw [h1] at this
        have e : m * k = k * m := Nat.mul_comm m k
        omega
      rw [h1, h2]

theorem flat_ne_nil (f : ℤ → ℤ → ℚ) (n m : ℕ) (hn : 0 < n) (hm : 0 < m) : flat f n m ≠ [] := by
  intro h
  have := flat_length f n m
  rw [h] at this
  simp at this
  rcases this.symm with h | h <;> omega

theorem flat_at (f : ℤ → ℤ → ℚ) (n m y x : ℕ) (hy : y < n) (hx : x < m) :
    ∃ h : y * m + x < (flat f n m).length, (flat f n m)[y * m + x] = f y x := by
  have hlt : y * m + x < n * m := by
    have : (y + 1) * m ≤ n * m := Nat.mul_le_mul_right m hy
    rw [Nat.succ_mul] at this; omega
  refine ⟨by rw [flat_length]; exact hlt, ?_⟩
  rw [flat_getElem f n m _ hlt]
  have h1 : (y * m + x) / m = y := by
    rw [Nat.add_comm, Nat.add_mul_div_right _ _ (by omega), Nat.div_eq_of_lt hx]; simp
  have h2 : (y * m + x) % m = x := by
    rw [Nat.add_comm, Nat.add_mul_mod_self_right, Nat.mod_eq_of_lt hx]
  rw [h1, h2]

end Model
