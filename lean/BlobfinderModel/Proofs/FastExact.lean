import BlobfinderModel.Proofs.FastGeom
import BlobfinderModel.Proofs.Rank
/-!
Closed forms of the two stages of the fast-match model (`matchAll`, `weightedOptimize`) when the
working selection is a predicate on peaks, and exact recovery of the lattice from on-node peaks.
-/
namespace Model

/-- fractional indices of a peak as `_match_all` computes them -/
def ix (z a b : V2) (p : Peak) : V2 := (getIndices z a b p.pos).getD (0, 0)

/-- rounded indices of a peak -/
def rix (z a b : V2) (p : Peak) : ℤ × ℤ := (roundHalfEven (ix z a b p).1, roundHalfEven (ix z a b p).2)

/-- is the peak selected in a round started from `(z, a, b)`?  (`w` = strong enough) -/
def selBy (w : Peak → Bool) (z a b : V2) (tol : ℚ) (p : Peak) : Bool := w p && isMatched a b tol (ix z a b p)

theorem filter_zip_map (s : Peak → Bool) {γ : Type} (f : Peak → γ) (peaks : List Peak) :
    (((peaks.map s).zip (peaks.map f)).filter (·.1)).map (·.2) = (peaks.filter s).map f := by
  induction peaks with
  | nil => simp
  | cons p t ih =>
    simp only [List.map_cons, List.zip_cons_cons, List.filter_cons]
    cases hs : s p
    · simp only [Bool.false_eq_true, if_false]; exact ih
    · simp only [if_true, List.map_cons]; rw [ih]

/-- **one round of `_match_all` in closed form** -/
theorem matchAll_eq (peaks : List Peak) (w : Peak → Bool) (z a b : V2) (tol : ℚ) (hd : det2 a b ≠ 0) :
    matchAll peaks (peaks.map w) z a b tol
      = some (peaks.map (selBy w z a b tol), (peaks.filter (selBy w z a b tol)).map (rix z a b)) := by
  unfold matchAll
  simp only [hd, if_false, Option.some.injEq, Prod.mk.injEq]
  have hm : ((peaks.map w).zip (peaks.map fun p => (getIndices z a b p.pos).getD (0, 0))).map
      (fun x => x.1 && isMatched a b tol x.2) = peaks.map (selBy w z a b tol) := by
    rw [List.zip_map', List.map_map]
    rfl
  constructor
  · exact hm
  · rw [hm]
    have := filter_zip_map (selBy w z a b tol) (ix z a b) peaks
    have h2 : (peaks.map fun p => (getIndices z a b p.pos).getD (0, 0)) = peaks.map (ix z a b) := rfl
    rw [h2]
    have h3 : (((peaks.map (selBy w z a b tol)).zip (peaks.map (ix z a b))).filter (·.1)).map
        (fun x => (roundHalfEven x.2.1, roundHalfEven x.2.2))
        = ((((peaks.map (selBy w z a b tol)).zip (peaks.map (ix z a b))).filter (·.1)).map (·.2)).map
            (fun ij => (roundHalfEven ij.1, roundHalfEven ij.2)) := by
      rw [List.map_map]; rfl
    rw [h3, this, List.map_map]
    rfl

theorem zip_map_self {α β γ : Type} (l : List α) (f : α → β) (g : α × β → γ) :
    ((l.zip (l.map f)).map g) = l.map fun x => g (x, f x) := by
  induction l with
  | nil => simp
  | cons x t ih => simp only [List.map_cons, List.zip_cons_cons, ih]

/-- **the observations of the fit in closed form** -/
theorem obsFor_eq (peaks : List Peak) (s : Peak → Bool) (R : Peak → ℤ × ℤ) (coord : V2 → ℚ) :
    obsFor peaks (peaks.map s) ((peaks.filter s).map R) coord
      = (peaks.filter s).map fun p => ⟨((R p).1 : ℚ), ((R p).2 : ℚ), p.elev, coord p.pos⟩ := by
  unfold obsFor
  simp only []
  have h := filter_zip_map s (fun p => p) peaks
  rw [List.map_id'] at h
  simp only [List.map_id'] at h ⊢
  rw [h, zip_map_self]

theorem filter_sublist_of_imp (s1 s2 : Peak → Bool) (peaks : List Peak)
    (h : ∀ p ∈ peaks, s1 p = true → s2 p = true) : (peaks.filter s1).Sublist (peaks.filter s2) := by
  induction peaks with
  | nil => simp
  | cons p t ih =>
    have ih' := ih (fun q hq => h q (List.mem_cons_of_mem _ hq))
    simp only [List.filter_cons]
    cases h1 : s1 p
    · simp only [Bool.false_eq_true, if_false]
      split
      · exact ih'.trans (List.sublist_cons_self _ _)
      · exact ih'
    · have h2 := h p List.mem_cons_self h1
      simp only [h2, if_true]
      exact ih'.cons_cons _

/-- an on-node peak has the node's indices, error 0, and is matched by the lattice it lies on -/
theorem on_node (z a b : V2) (tol : ℚ) (htol : 0 < tol) (hd : det2 a b ≠ 0) (p : Peak) (i j : ℤ)
    (hp : p.pos = calcCoord z a b ((i : ℚ), (j : ℚ))) :
    ix z a b p = ((i : ℚ), (j : ℚ)) ∧ isMatched a b tol (ix z a b p) = true ∧ rix z a b p = (i, j) := by
  have h1 : ix z a b p = ((i : ℚ), (j : ℚ)) := by
    unfold ix; rw [hp, C17.indices_of_coords z a b _ hd]; rfl
  refine ⟨h1, ?_, ?_⟩
  · rw [h1]
    unfold isMatched
    have e0 : err2 a b ((i : ℚ), (j : ℚ)) = 0 := by
      unfold err2
      have r1 : roundHalfEven (i : ℚ) = i := round_near _ _ (by simp)
      have r2 : roundHalfEven (j : ℚ) = j := round_near _ _ (by simp)
      simp only [r1, r2, sub_self, zero_mul, zero_div, add_zero]
    rw [e0]
    simp only [Bool.and_eq_true, decide_eq_true_eq]
    exact ⟨le_of_lt htol, by positivity⟩
  · unfold rix; rw [h1]
    have r1 : roundHalfEven (i : ℚ) = i := round_near _ _ (by simp)
    have r2 : roundHalfEven (j : ℚ) = j := round_near _ _ (by simp)
    simp only [r1, r2]

/-- an on-node peak has residual 0 against the true lattice in both coordinates -/
theorem on_node_resid (z a b : V2) (p : Peak) (i j : ℤ)
    (hp : p.pos = calcCoord z a b ((i : ℚ), (j : ℚ))) :
    resid z.1 a.1 b.1 ⟨(i : ℚ), (j : ℚ), p.elev, p.pos.1⟩ = 0 ∧
    resid z.2 a.2 b.2 ⟨(i : ℚ), (j : ℚ), p.elev, p.pos.2⟩ = 0 := by
  rw [hp]
  unfold resid calcCoord vadd smul
  simp only []
  constructor <;> ring

end Model
