import BlobfinderModel.Proofs.FastGeom
import BlobfinderModel.Proofs.Rank
/-!
Closed forms of the two stages of the fast-match model (`matchAll`, `weightedOptimize`) when the
working selection is a predicate on peaks, and exact recovery of the lattice from on-node peaks.
-/
namespace Model

/-- fractional indices of a peak as `_match_all` computes them -/
def ix (z a b : V2) (p : Peak) : V2 := (getIndices z a b p.pos).getD (0, 0)

/-- rounded indices of a peak -/
def rix (z a b : V2) (p : Peak) : ℤ × ℤ := (roundHalfEven (ix z a b p).1, roundHalfEven (ix z a b p).2)

/-- is the peak selected in a round started from `(z, a, b)`?  (`w` = strong enough) -/
def selBy (w : Peak → Bool) (z a b : V2) (tol : ℚ) (p : Peak) : Bool := w p && isMatched a b tol (ix z a b p)

theorem filter_zip_map (s : Peak → Bool) {γ : Type} (f : Peak → γ) (peaks : List Peak) :
    (((peaks.map s).zip (peaks.map f)).filter (·.1)).map (·.2) = (peaks.filter s).map f := by
  induction peaks with
  | nil => simp
  | cons p t ih =>
    simp only [List.map_cons, List.zip_cons_cons, List.filter_cons]
    cases hs : s p
    · simp only [Bool.false_eq_true, if_false]; exact ih
    · simp only [if_true, List.map_cons]; rw [ih]

/-- **one round of `_match_all` in closed form** -/
theorem matchAll_eq (peaks : List Peak) (w : Peak → Bool) (z a b : V2) (tol : ℚ) (hd : det2 a b ≠ 0) :
    matchAll peaks (peaks.map w) z a b tol
      = some (peaks.map (selBy w z a b tol), (peaks.filter (selBy w z a b tol)).map (rix z a b)) := by
  unfold matchAll
  simp only [hd, if_false, Option.some.injEq, Prod.mk.injEq]
  have hm : ((peaks.map w).zip (peaks.map fun p => (getIndices z a b p.pos).getD (0, 0))).map
      (fun x => x.1 && isMatched a b tol x.2) = peaks.map (selBy w z a b tol) := by
    rw [List.zip_map', List.map_map]
    rfl
  constructor
  · exact hm
  · rw [hm]
    have := filter_zip_map (selBy w z a b tol) (ix z a b) peaks
    have h2 : (peaks.map fun p => (getIndices z a b p.pos).getD (0, 0)) = peaks.map (ix z a b) := rfl
    rw [h2]
    have h3 : (((peaks.map (selBy w z a b tol)).zip (peaks.map (ix z a b))).filter (·.1)).map
        (fun x => (roundHalfEven x.2.1, roundHalfEven x.2.2))
        = ((((peaks.map (selBy w z a b tol)).zip (peaks.map (ix z a b))).filter (·.1)).map (·.2)).map
            (fun ij => (roundHalfEven ij.1, roundHalfEven ij.2)) := by
      rw [List.map_map]; rfl
    rw [h3, this, List.map_map]
    rfl

theorem zip_map_self {α β γ : Type} (l : List α) (f : α → β) (g : α × β → γ) :
    ((l.zip (l.map f)).map g) = l.map fun x => g (x, f x) := by
  induction l with
  | nil => simp
  | cons x t ih => simp only [List.map_cons, List.zip_cons_cons, ih]

/-- **the observations of the fit in closed form** -/
theorem obsFor_eq (peaks : List Peak) (s : Peak → Bool) (R : Peak → ℤ × ℤ) (coord : V2 → ℚ) :
    obsFor peaks (peaks.map s) ((peaks.filter s).map R) coord
      = (peaks.filter s).map fun p => ⟨((R p).1 : ℚ), ((R p).2 : ℚ), p.elev, coord p.pos⟩ := by
  unfold obsFor
  simp only []
  have h := filter_zip_map s (fun p => p) peaks
  rw [List.map_id'] at h
  simp only [List.map_id'] at h ⊢
  rw [h, zip_map_self]

theorem filter_sublist_of_imp (s1 s2 : Peak → Bool) (peaks : List Peak)
    (h : ∀ p ∈ peaks, s1 p = true → s2 p = true) : (peaks.filter s1).Sublist (peaks.filter s2) := by
  induction peaks with
  | nil => simp
  | cons p t ih =>
    have ih' := ih (fun q hq => h q (List.mem_cons_of_mem _ hq))
    simp only [List.filter_cons]
    cases h1 : s1 p
    · simp only [Bool.false_eq_true, if_false]
      split
      · exact ih'.trans (List.sublist_cons_self _ _)
      · exact ih'
    · have h2 := h p List.mem_cons_self h1
      simp only [h2, if_true]
      exact ih'.cons_cons _

/-- an on-node peak has the node's indices, error 0, and is matched by the lattice it lies on -/
theorem on_node (z a b : V2) (tol : ℚ) (htol : 0 < tol) (hd : det2 a b ≠ 0) (p : Peak) (i j : ℤ)
    (hp : p.pos = calcCoord z a b ((i : ℚ), (j : ℚ))) :
    ix z a b p = ((i : ℚ), (j : ℚ)) ∧ isMatched a b tol (ix z a b p) = true ∧ rix z a b p = (i, j) := by
  have h1 : ix z a b p = ((i : ℚ), (j : ℚ)) := by
    unfold ix; rw [hp, C17.indices_of_coords z a b _ hd]; rfl
  refine ⟨h1, ?_, ?_⟩
  · rw [h1]
    unfold isMatched
    have e0 : err2 a b ((i : ℚ), (j : ℚ)) = 0 := by
      unfold err2
      have r1 : roundHalfEven (i : ℚ) = i := round_near _ _ (by simp)
      have r2 : roundHalfEven (j : ℚ) = j := round_near _ _ (by simp)
      simp only [r1, r2, sub_self, zero_mul, zero_div, add_zero]
    rw [e0]
    simp only [Bool.and_eq_true, decide_eq_true_eq]
    exact ⟨le_of_lt htol, by positivity⟩
  · unfold rix; rw [h1]
    have r1 : roundHalfEven (i : ℚ) = i := round_near _ _ (by simp)
    have r2 : roundHalfEven (j : ℚ) = j := round_near _ _ (by simp)
    simp only [r1, r2]

/-- an on-node peak has residual 0 against the true lattice in both coordinates -/
theorem on_node_resid (z a b : V2) (p : Peak) (i j : ℤ)
    (hp : p.pos = calcCoord z a b ((i : ℚ), (j : ℚ))) :
    resid z.1 a.1 b.1 ⟨(i : ℚ), (j : ℚ), p.elev, p.pos.1⟩ = 0 ∧
    resid z.2 a.2 b.2 ⟨(i : ℚ), (j : ℚ), p.elev, p.pos.2⟩ = 0 := by
  rw [hp]
  unfold resid calcCoord vadd smul
  simp only []
  constructor <;> ring

/-- **the stages of an exact recovery** (shared by the fast match and by `_tumble` of the full match):
under the hypotheses of `C05.fastmatch_exact_recovery` the fit of round one is the true lattice, round
two against the true lattice selects exactly the strong node peaks with their true indices, its fit is
the true lattice again, and round two selects at least as many peaks as round one. -/
theorem exact_stages (peaks : List Peak) (z a b z0 a0 b0 : V2) (tol mw : ℚ)
    (node : Peak → Option (ℤ × ℤ))
    (hd : det2 a b ≠ 0) (htol : 0 < tol) (hmw : 0 ≤ mw)
    (hnode : ∀ p ∈ peaks, ∀ i j, node p = some (i, j) → p.pos = calcCoord z a b ((i : ℚ), (j : ℚ)))
    (hout : ∀ p ∈ peaks, node p = none → mw ≤ p.elev → isMatched a b tol (ix z a b p) = false)
    (h1 : ∀ p ∈ peaks, mw ≤ p.elev → isMatched a0 b0 tol (ix z0 a0 b0 p) = true →
      node p = some (rix z0 a0 b0 p))
    (hrank : (normalOf ((peaks.filter (selBy (fun p => Gen.fm_weight_ok p.elev mw) z0 a0 b0 tol)).map
      fun p => ⟨((rix z0 a0 b0 p).1 : ℚ), ((rix z0 a0 b0 p).2 : ℚ), p.elev, 0⟩)).det ≠ 0) :
    weightedOptimize peaks (peaks.map (selBy (fun p => Gen.fm_weight_ok p.elev mw) z0 a0 b0 tol))
        ((peaks.filter (selBy (fun p => Gen.fm_weight_ok p.elev mw) z0 a0 b0 tol)).map (rix z0 a0 b0)) = some (z, a, b) ∧
    peaks.map (selBy (fun p => Gen.fm_weight_ok p.elev mw) z a b tol)
        = peaks.map (fun p => Gen.fm_weight_ok p.elev mw && (node p).isSome) ∧
    peaks.filter (selBy (fun p => Gen.fm_weight_ok p.elev mw) z a b tol)
        = peaks.filter (fun p => Gen.fm_weight_ok p.elev mw && (node p).isSome) ∧
    (peaks.filter (fun p => Gen.fm_weight_ok p.elev mw && (node p).isSome)).map (rix z a b)
        = (peaks.filter (fun p => Gen.fm_weight_ok p.elev mw && (node p).isSome)).map (fun p => (node p).getD (0, 0)) ∧
    weightedOptimize peaks (peaks.map (fun p => Gen.fm_weight_ok p.elev mw && (node p).isSome))
        ((peaks.filter (fun p => Gen.fm_weight_ok p.elev mw && (node p).isSome)).map (fun p => (node p).getD (0, 0)))
        = some (z, a, b) ∧
    (peaks.filter (selBy (fun p => Gen.fm_weight_ok p.elev mw) z0 a0 b0 tol)).length
        ≤ (peaks.filter (fun p => Gen.fm_weight_ok p.elev mw && (node p).isSome)).length := by
  set W : Peak → Bool := fun p => Gen.fm_weight_ok p.elev mw with hWdef
  have hW : ∀ p, W p = true ↔ mw ≤ p.elev := by
    intro p
    show Gen.fm_weight_ok p.elev mw = true ↔ mw ≤ p.elev
    unfold Gen.fm_weight_ok
    simp only [decide_eq_true_eq, ge_iff_le]
  set S1 := selBy W z0 a0 b0 tol with hS1
  set T : Peak → Bool := fun p => W p && (node p).isSome with hT
  -- members of the round-one selection are node peaks with their true indices
  have hS1mem : ∀ p ∈ peaks.filter S1, p ∈ peaks ∧ mw ≤ p.elev ∧ node p = some (rix z0 a0 b0 p) ∧
      p.pos = calcCoord z a b (((rix z0 a0 b0 p).1 : ℚ), ((rix z0 a0 b0 p).2 : ℚ)) := by
    intro p hp
    obtain ⟨hpp, hs⟩ := List.mem_filter.mp hp
    rw [hS1] at hs
    unfold selBy at hs
    rw [Bool.and_eq_true] at hs
    have hw := (hW p).mp hs.1
    have hn := h1 p hpp hw hs.2
    exact ⟨hpp, hw, hn, hnode p hpp _ _ hn⟩
  have hw1 : ∀ o ∈ ((peaks.filter S1).map fun p => (⟨((rix z0 a0 b0 p).1 : ℚ), ((rix z0 a0 b0 p).2 : ℚ), p.elev, (0 : ℚ)⟩ : Obs)),
      0 ≤ o.w := by
    intro o ho
    obtain ⟨p, hp, rfl⟩ := List.mem_map.mp ho
    exact le_trans hmw (hS1mem p hp).2.1
  have hpos1 : 0 < (normalOf ((peaks.filter S1).map fun p =>
      (⟨((rix z0 a0 b0 p).1 : ℚ), ((rix z0 a0 b0 p).2 : ℚ), p.elev, (0 : ℚ)⟩ : Obs))).det :=
    lt_of_le_of_ne (det_nonneg _ hw1) (Ne.symm hrank)
  -- fit of round one = the true lattice
  have hfit1 : weightedOptimize peaks (peaks.map S1) ((peaks.filter S1).map (rix z0 a0 b0)) = some (z, a, b) := by
    unfold weightedOptimize
    rw [obsFor_eq, obsFor_eq]
    have hy : solveNormal (normalOf ((peaks.filter S1).map fun p =>
        (⟨((rix z0 a0 b0 p).1 : ℚ), ((rix z0 a0 b0 p).2 : ℚ), p.elev, p.pos.1⟩ : Obs))) = some (z.1, a.1, b.1) := by
      apply solve_exact
      · intro o ho
        obtain ⟨p, hp, rfl⟩ := List.mem_map.mp ho
        exact (on_node_resid z a b p _ _ (hS1mem p hp).2.2.2).1
      · rw [det_indep_t (peaks.filter S1) (fun p => ((rix z0 a0 b0 p).1 : ℚ)) (fun p => ((rix z0 a0 b0 p).2 : ℚ))
          (fun p => p.elev) (fun p => p.pos.1) (fun _ => 0)]
        exact ne_of_gt hpos1
    have hx : solveNormal (normalOf ((peaks.filter S1).map fun p =>
        (⟨((rix z0 a0 b0 p).1 : ℚ), ((rix z0 a0 b0 p).2 : ℚ), p.elev, p.pos.2⟩ : Obs))) = some (z.2, a.2, b.2) := by
      apply solve_exact
      · intro o ho
        obtain ⟨p, hp, rfl⟩ := List.mem_map.mp ho
        exact (on_node_resid z a b p _ _ (hS1mem p hp).2.2.2).2
      · rw [det_indep_t (peaks.filter S1) (fun p => ((rix z0 a0 b0 p).1 : ℚ)) (fun p => ((rix z0 a0 b0 p).2 : ℚ))
          (fun p => p.elev) (fun p => p.pos.2) (fun _ => 0)]
        exact ne_of_gt hpos1
    rw [hy, hx]
  -- round two, run against the true lattice, selects exactly the strong node peaks
  have hS2 : ∀ p ∈ peaks, selBy W z a b tol p = T p := by
    intro p hp
    show selBy W z a b tol p = (W p && (node p).isSome)
    unfold selBy
    cases hn : node p with
    | none =>
      simp only [Option.isSome_none, Bool.and_false]
      cases hwp : W p
      · rfl
      · simp only [Bool.true_and]
        exact hout p hp hn ((hW p).mp hwp)
    | some ij =>
      obtain ⟨i, j⟩ := ij
      simp only [Option.isSome_some, Bool.and_true]
      rw [(on_node z a b tol htol hd p i j (hnode p hp i j hn)).2.1, Bool.and_true]
  have hR2 : ∀ p ∈ peaks.filter T, rix z a b p = (node p).getD (0, 0) := by
    intro p hp
    obtain ⟨hpp, ht⟩ := List.mem_filter.mp hp
    rw [hT] at ht
    simp only [Bool.and_eq_true] at ht
    obtain ⟨ij, hn⟩ := Option.isSome_iff_exists.mp ht.2
    obtain ⟨i, j⟩ := ij
    rw [hn, Option.getD_some]
    exact (on_node z a b tol htol hd p i j (hnode p hpp i j hn)).2.2
  have hmap2 : peaks.map (selBy W z a b tol) = peaks.map T := List.map_congr_left hS2
  have hfil2 : peaks.filter (selBy W z a b tol) = peaks.filter T := List.filter_congr hS2
  have hidx2 : (peaks.filter T).map (rix z a b) = (peaks.filter T).map fun p => (node p).getD (0, 0) :=
    List.map_congr_left hR2
  have hTmem : ∀ p ∈ peaks.filter T, mw ≤ p.elev ∧
      p.pos = calcCoord z a b ((((node p).getD (0, 0)).1 : ℚ), (((node p).getD (0, 0)).2 : ℚ)) := by
    intro p hp
    obtain ⟨hpp, ht⟩ := List.mem_filter.mp hp
    rw [hT] at ht
    simp only [Bool.and_eq_true] at ht
    obtain ⟨ij, hn⟩ := Option.isSome_iff_exists.mp ht.2
    obtain ⟨i, j⟩ := ij
    rw [hn, Option.getD_some]
    exact ⟨(hW p).mp ht.1, hnode p hpp i j hn⟩
  -- rank of the final selection
  have hsub : ((peaks.filter S1).map fun p =>
        (⟨((rix z0 a0 b0 p).1 : ℚ), ((rix z0 a0 b0 p).2 : ℚ), p.elev, (0 : ℚ)⟩ : Obs)).Sublist
      ((peaks.filter T).map fun p =>
        (⟨(((node p).getD (0, 0)).1 : ℚ), (((node p).getD (0, 0)).2 : ℚ), p.elev, (0 : ℚ)⟩ : Obs)) := by
    have e1 : ((peaks.filter S1).map fun p =>
        (⟨((rix z0 a0 b0 p).1 : ℚ), ((rix z0 a0 b0 p).2 : ℚ), p.elev, (0 : ℚ)⟩ : Obs))
        = (peaks.filter S1).map fun p =>
        (⟨(((node p).getD (0, 0)).1 : ℚ), (((node p).getD (0, 0)).2 : ℚ), p.elev, (0 : ℚ)⟩ : Obs) := by
      apply List.map_congr_left
      intro p hp
      rw [(hS1mem p hp).2.2.1, Option.getD_some]
    rw [e1]
    apply List.Sublist.map
    apply filter_sublist_of_imp
    intro p hp hs
    have hp' : p ∈ peaks.filter S1 := List.mem_filter.mpr ⟨hp, hs⟩
    obtain ⟨_, hw, hn, _⟩ := hS1mem p hp'
    rw [hT]
    simp only [Bool.and_eq_true]
    exact ⟨(hW p).mpr hw, by rw [hn]; rfl⟩
  have hw2 : ∀ o ∈ ((peaks.filter T).map fun p =>
        (⟨(((node p).getD (0, 0)).1 : ℚ), (((node p).getD (0, 0)).2 : ℚ), p.elev, (0 : ℚ)⟩ : Obs)), 0 ≤ o.w := by
    intro o ho
    obtain ⟨p, hp, rfl⟩ := List.mem_map.mp ho
    exact le_trans hmw (hTmem p hp).1
  have hpos2 := lt_of_lt_of_le hpos1 (det_mono_sublist hsub hw2)
  have hfit2 : weightedOptimize peaks (peaks.map T) ((peaks.filter T).map fun p => (node p).getD (0, 0))
      = some (z, a, b) := by
    unfold weightedOptimize
    rw [obsFor_eq, obsFor_eq]
    have hy : solveNormal (normalOf ((peaks.filter T).map fun p =>
        (⟨(((node p).getD (0, 0)).1 : ℚ), (((node p).getD (0, 0)).2 : ℚ), p.elev, p.pos.1⟩ : Obs)))
        = some (z.1, a.1, b.1) := by
      apply solve_exact
      · intro o ho
        obtain ⟨p, hp, rfl⟩ := List.mem_map.mp ho
        exact (on_node_resid z a b p _ _ (hTmem p hp).2).1
      · rw [det_indep_t (peaks.filter T) (fun p => (((node p).getD (0, 0)).1 : ℚ))
          (fun p => (((node p).getD (0, 0)).2 : ℚ)) (fun p => p.elev) (fun p => p.pos.1) (fun _ => 0)]
        exact ne_of_gt hpos2
    have hx : solveNormal (normalOf ((peaks.filter T).map fun p =>
        (⟨(((node p).getD (0, 0)).1 : ℚ), (((node p).getD (0, 0)).2 : ℚ), p.elev, p.pos.2⟩ : Obs)))
        = some (z.2, a.2, b.2) := by
      apply solve_exact
      · intro o ho
        obtain ⟨p, hp, rfl⟩ := List.mem_map.mp ho
        exact (on_node_resid z a b p _ _ (hTmem p hp).2).2
      · rw [det_indep_t (peaks.filter T) (fun p => (((node p).getD (0, 0)).1 : ℚ))
          (fun p => (((node p).getD (0, 0)).2 : ℚ)) (fun p => p.elev) (fun p => p.pos.2) (fun _ => 0)]
        exact ne_of_gt hpos2
    rw [hy, hx]
  refine ⟨hfit1, hmap2, hfil2, hidx2, hfit2, ?_⟩
  have := hsub.length_le
  simpa using this

end Model
